import XdslProofs.C09
import XdslProofs.Lemmas.ConstraintSimplifyWF
/-!
# C09 — simplification part

"Simplifying or merging the alternatives of a union never changes the accepted set."

`relax`, `orC`, `anyOfGet` model `relax_constraint`, `__or__` and the merge loop of `AnyOf.get`
(mutually recursive through `x | y` on parameter constraints, hence the fuel; running out of fuel is
an error, never a wrong answer, and the harness compares the fuelled model with the real result).
-/
namespace Xdsl.Constraint

/-- `x.relax_constraint(y)`, when it returns a constraint, returns the union of the two —
for every assignment of the variables -/
theorem relax_sound (U : Univ) (f : Nat) (x y r : C) (h : relax U f x y = .ok (some r)) (σ : Asg) (a : Attr) :
    sat U σ r a ↔ (sat U σ x a ∨ sat U σ y a) := relax_sat U f x y r h σ a

/-- `x | y` -/
theorem or_preserves (U : Univ) (f : Nat) (x y r : C) (h : orC U f x y = .ok r) (σ : Asg) (a : Attr) :
    sat U σ r a ↔ (sat U σ x a ∨ sat U σ y a) := orC_sat U f x y r h σ a

/-- `AnyOf.get(*cs)`: whatever flattening and merging happened, the result describes exactly the
union of the arguments -/
theorem anyOfGet_preserves (U : Univ) (cs : List C) (r : C) (h : anyOfGet U cs = .ok r) (σ : Asg) (a : Attr) :
    sat U σ r a ↔ ∃ c ∈ cs, sat U σ c a := anyOfGet_sat U cs r h σ a

/-- the result of `AnyOf.get` again satisfies what the constructors enforce -/
theorem anyOfGet_wf (U : Univ) (cs : List C) (r : C) (h : anyOfGet U cs = .ok r) (hw : ∀ c ∈ cs, WF U c) :
    WF U r := anyOfGet_pres U (WF U) (WF_compositional U) cs r h hw

theorem anyOfGet_wellDeclared (U : Univ) (decl : Nat → C) (cs : List C) (r : C) (h : anyOfGet U cs = .ok r)
    (hd : ∀ c ∈ cs, WellDeclared decl c) : WellDeclared decl r :=
  anyOfGet_pres U (WellDeclared decl) (WD_compositional U decl) cs r h hd

/-- **the accepted set is unchanged**: the merged constraint `verifies` an attribute exactly when
one of the original alternatives does -/
theorem anyOfGet_accepts (U : Univ) (hU : UnivOK U) (decl : Nat → C) (cs : List C) (r : C)
    (h : anyOfGet U cs = .ok r) (hw : ∀ c ∈ cs, WF U c) (hd : ∀ c ∈ cs, WellDeclared decl c) (a : Attr) :
    accepts U r a = true ↔ ∃ c ∈ cs, accepts U c a = true := by
  rw [accepts_iff_sat U hU decl r (anyOfGet_wf U cs r h hw) (anyOfGet_wellDeclared U decl cs r h hd)]
  constructor
  · rintro ⟨σ, hs⟩
    obtain ⟨c, hc, hs⟩ := (anyOfGet_preserves U cs r h σ a).1 hs
    exact ⟨c, hc, (accepts_iff_sat U hU decl c (hw c hc) (hd c hc) a).2 ⟨σ, hs⟩⟩
  · rintro ⟨c, hc, hacc⟩
    obtain ⟨σ, hs⟩ := (accepts_iff_sat U hU decl c (hw c hc) (hd c hc) a).1 hacc
    exact ⟨σ, (anyOfGet_preserves U cs r h σ a).2 ⟨c, hc, hs⟩⟩

/-- same for `x | y` (`AttrConstraint.__or__`) -/
theorem or_accepts (U : Univ) (hU : UnivOK U) (decl : Nat → C) (f : Nat) (x y r : C)
    (h : orC U f x y = .ok r) (hwx : WF U x) (hwy : WF U y) (hdx : WellDeclared decl x)
    (hdy : WellDeclared decl y) (a : Attr) :
    accepts U r a = true ↔ (accepts U x a = true ∨ accepts U y a = true) := by
  have hwr : WF U r := (simplify_pres U (WF U) (WF_compositional U) f).2.2.1 x y r h hwx hwy
  have hdr : WellDeclared decl r :=
    (simplify_pres U (WellDeclared decl) (WD_compositional U decl) f).2.2.1 x y r h hdx hdy
  rw [accepts_iff_sat U hU decl r hwr hdr, accepts_iff_sat U hU decl x hwx hdx, accepts_iff_sat U hU decl y hwy hdy]
  constructor
  · rintro ⟨σ, hs⟩
    rcases (or_preserves U f x y r h σ a).1 hs with hs | hs
    · exact Or.inl ⟨σ, hs⟩
    · exact Or.inr ⟨σ, hs⟩
  · rintro (⟨σ, hs⟩ | ⟨σ, hs⟩)
    · exact ⟨σ, (or_preserves U f x y r h σ a).2 (Or.inl hs)⟩
    · exact ⟨σ, (or_preserves U f x y r h σ a).2 (Or.inr hs)⟩

/-- `ParamAttrConstraint.get(base, *constrs)` (collapse to an equality constraint when the class is
final and every parameter is fixed, to `BaseAttr` when every parameter is unconstrained) describes
the same attributes as `ParamAttrConstraint(base, constrs)` — for attributes whose class is below
`base` only if they are parametrized with as many parameters as there are constraints (true of real
attributes when `constrs` has the arity of the class definition). -/
theorem paramGet_preserves (U : Univ) (hU : UnivOK U) (σ : Asg) (d : Nat) (cs : List C) (a : Attr)
    (hP : isSub U a.cls d = true → ∃ as, a = .param a.cls as ∧ as.length = cs.length) :
    sat U σ (paramGet U d cs) a ↔ sat U σ (.param d cs) a := by
  unfold paramGet
  split
  · rename_i h
    simp only [Bool.and_eq_true] at h
    simp only [sat]
    constructor
    · intro e; subst e
      exact ⟨isSub_refl U d, (satZip_allEq U σ cs _ h.2).2 rfl⟩
    · rintro ⟨hs, hz⟩
      have hd := hU _ _ h.1 hs
      cases a with
      | param ca as =>
        simp only at hz
        simp only [Attr.cls] at hd
        rw [(satZip_allEq U σ cs as h.2).1 hz, hd]
      | data _ _ => simp at hz
      | arr _ _ => simp at hz
  · split
    · rename_i h
      simp only [sat]
      constructor
      · intro hs
        obtain ⟨as, ha, hl⟩ := hP hs
        refine ⟨hs, ?_⟩
        rw [ha]; simp only
        exact (satZip_allAny U σ cs as h).2 hl
      · exact fun h => h.1
    · rfl

/-! ### non-vacuity: a merge that really rewrites -/

/-- outcome of a merge compared with Python's `==` on constraints (`ceq`) -/
def mergesTo (r : Except String C) (expected : C) : Bool :=
  match r with | .ok c => ceq c expected | .error _ => false
def mergeRaises (r : Except String C) (e : String) : Bool :=
  match r with | .ok _ => false | .error e' => e' == e

/-- `Pair[eq s7, idx] | Pair[eq s8, idx]` becomes `Pair[{s7, s8}, idx]`;
`Pair[eq s7, idx] | Pair[eq s8, Abstract]` cannot be merged and (same final base) is refused;
nested unions are flattened and equal-kind alternatives merged. -/
example : mergesTo (getLoop U0 20 [] [.param 1 [.eq (.data 2 7), .base 0], .param 1 [.eq (.data 2 8), .base 0]])
    (.param 1 [.set [.data 2 7, .data 2 8], .base 0]) = true := by decide
example : mergeRaises (getLoop U0 20 [] [.param 1 [.eq (.data 2 7), .base 0], .param 1 [.eq (.data 2 8), .base 3]])
    "PyRDLError" = true := by decide
example : mergesTo (getLoop U0 20 [] [.eq (.data 2 7), .anyOf [.base 0, .eq (.data 2 8)], .base 1])
    (.anyOf [.set [.data 2 7, .data 2 8], .base 0, .base 1]) = true := by decide

end Xdsl.Constraint
