import XdslProofs.Lemmas.Liveness
/-!
# C25 — the liveness dataflow analysis computes its specified fixpoint under any schedule

"For supported (branch-free) IR, the sparse backward liveness analysis marks a value live exactly when
it is, directly or through a chain of operands, used by an operation that is not trivially removable
or returned from a public function, and the result does not depend on the order in which the solver
processes its worklist."

Model: `XdslModel/Liveness.lean` (`init` = `analysis.initialize`, `run` = the `while self._worklist`
loop with scheduler `pick`, `mark` = `propagate_if_changed(lat, lat.mark_live())`), including the
`Executable` gating of `dead_code_analysis.py`: ops of a block that is not (yet) executable are
skipped; a block marked executable before the liveness initialisation (`pre`: `DeadCodeAnalysis`
loaded first, or the test-suite idiom) is handled by the initial walk, one marked afterwards (`post`:
`DeadCodeAnalysis` loaded second) has all its ops enqueued by `Executable.on_update` and is handled by
the worklist loop; other blocks are never looked at.
Specification: `Xdsl.Liveness.Live` / `Root` / `Feeds` / `Chain` / `F` in `Lemmas/Liveness.lean`; only
ops of blocks in `pre ∪ post` (`ExecP`) demand or forward liveness.  `LiveAll` is the same without
the gating; the two coincide when every block is executable at some time (`AllExec`).
`func.return` is a terminator, hence `wbd = false`: "returned from a (public) function" is an
instance of `Root`; explicit boundary values (`seeds`, `exits`) are roots as well.
All theorems hold for every program `p` and every scheduler `pick : Nat → List Nat → Nat`
(iteration number and current worklist ↦ position to pop); the shipped solver is `fun _ _ => 0`.
-/
namespace Xdsl.Liveness

/-- The invariant (computed liveness ⊆ specified liveness; every registered op is stable or on the
worklist) holds when the solver returns. -/
theorem solveSt_inv (p : Prog) (pick : Sched) : Inv p (solveSt p pick) :=
  run_inv p pick _ 0 _ (init_inv p)

/-- **Termination**, "…under any schedule": within `fuel` iterations the worklist is empty, whatever
the scheduler picks.  (Potential: `|worklist| + #ops · #dead values` drops by ≥ 1 per iteration.) -/
theorem solver_terminates (p : Prog) (pick : Sched) : (solveSt p pick).wl = [] :=
  run_wl p pick _ 0 _ (pot_le_fuel p _ (init_inv p).len)

/-- The fuel of the model is not a truncation: any larger iteration budget gives the same state. -/
theorem solver_fuel_irrelevant (p : Prog) (pick : Sched) (extra : Nat) :
    run p pick (fuel p (init p) + extra) 0 (init p) = solveSt p pick :=
  run_extra p pick _ extra 0 _ (solver_terminates p pick)

/-- Every schedule pops at most `|initial worklist| + #ops · #values` work items. -/
theorem solver_pop_bound (p : Prog) (pick : Sched) :
    (solveSt p pick).trace.length ≤ (init p).wl.length + p.ops.length * p.nvals := by
  have := run_trace p pick (fuel p (init p)) 0 (init p)
  rw [init_trace] at this
  simpa [solveSt, fuel] using this

theorem solve_length (p : Prog) (pick : Sched) : (solve p pick).length = p.nvals :=
  (solveSt_inv p pick).len

/-- "marks a value live **exactly when** …": the computed bit of `v` is set iff `v` is in the
specified least set `Live p` (roots + closure under operand-of-op-with-live-result). -/
theorem solve_spec (p : Prog) (pick : Sched) (v : Nat) :
    (solve p pick).getD v false = true ↔ Live p v := by
  constructor
  · exact (solveSt_inv p pick).sound v
  · exact complete_of_wl_nil p _ (solveSt_inv p pick)
      (run_ready p pick _ 0 _ (init_ready p) (init_inv p)) (solver_terminates p pick) v

/-- **All blocks executable ⇒ the ungated statement.** If every op sits in a block that is marked
executable at some time — before *or* after the liveness analysis is initialised, i.e. whatever the
load order of `DeadCodeAnalysis` and `LivenessAnalysis` — the computed set is exactly the ungated
specification `LiveAll` (every not-trivially-removable op demands its operands, every op forwards
liveness from results to operands), under every schedule. -/
theorem solve_spec_all_exec (p : Prog) (hall : AllExec p) (pick : Sched) (v : Nat) :
    (solve p pick).getD v false = true ↔ LiveAll p v :=
  (solve_spec p pick v).trans ⟨Live.toAll, LiveAll.toLive hall⟩

/-- **Never-executable blocks are not analysed**: a live value is a boundary value (seed / exit) or
an operand of an op in an executable block — "nothing in a never-executable block is marked live
unless used from an executable one". -/
theorem live_only_via_exec (p : Prog) (pick : Sched) (v : Nat)
    (h : (solve p pick).getD v false = true) :
    v ∈ p.seeds ∨ v ∈ p.exits ∨ ∃ op ∈ p.ops, ExecP p op ∧ v ∈ op.operands := by
  have hl := (solve_spec p pick v).1 h
  cases hl with
  | root _ hr =>
    rcases hr with h | h | ⟨op, hop, hex, _, hv⟩
    · exact Or.inl h
    · exact Or.inr (Or.inl h)
    · exact Or.inr (Or.inr ⟨op, hop, hex, hv⟩)
  | step _ hf _ =>
    obtain ⟨op, hop, hex, hv, _⟩ := hf
    exact Or.inr (Or.inr ⟨op, hop, hex, hv⟩)

/-- contrapositive form: a value that is no boundary value and is used only by ops of blocks that
never become executable stays dead, whatever those ops are -/
theorem never_exec_dead (p : Prog) (pick : Sched) (v : Nat) (hs : v ∉ p.seeds) (he : v ∉ p.exits)
    (hu : ∀ op ∈ p.ops, v ∈ op.operands → ¬ ExecP p op) :
    (solve p pick).getD v false = false := by
  cases h : (solve p pick).getD v false with
  | false => rfl
  | true =>
    rcases live_only_via_exec p pick v h with h1 | h1 | ⟨op, hop, hex, hv⟩
    · exact absurd h1 hs
    · exact absurd h1 he
    · exact absurd hex (hu op hop hv)

/-- with no executable block at all (e.g. a function body below a module analysed with
`DeadCodeAnalysis`) exactly the boundary values are live -/
theorem nothing_executable (p : Prog) (hpre : p.pre = []) (hpost : p.post = []) (pick : Sched)
    (v : Nat) :
    (solve p pick).getD v false = true ↔ v < p.nvals ∧ (v ∈ p.seeds ∨ v ∈ p.exits) := by
  have hno : ∀ op, ¬ ExecP p op := by
    intro op h; unfold ExecP at h; rw [hpre, hpost] at h; simp at h
  rw [solve_spec]
  constructor
  · intro h
    cases h with
    | root hlt hr =>
      rcases hr with h | h | ⟨op, _, hex, _⟩
      · exact ⟨hlt, Or.inl h⟩
      · exact ⟨hlt, Or.inr h⟩
      · exact absurd hex (hno op)
    | step _ hf _ =>
      obtain ⟨op, _, hex, _⟩ := hf
      exact absurd hex (hno op)
  · rintro ⟨hlt, h | h⟩
    · exact Live.root hlt (Or.inl h)
    · exact Live.root hlt (Or.inr (Or.inl h))

/-- **Load order of the two analyses is irrelevant**: two programs that differ only in *when* their
blocks are marked executable (`pre` = `DeadCodeAnalysis` loaded before `LivenessAnalysis`, `post` =
after) — same set of eventually executable blocks — get the same liveness, under any two schedules. -/
theorem load_order_independent (p q : Prog) (hn : q.nvals = p.nvals) (ho : q.ops = p.ops)
    (hs : q.seeds = p.seeds) (he : q.exits = p.exits)
    (hx : ∀ b, (b ∈ p.pre ∨ b ∈ p.post) ↔ (b ∈ q.pre ∨ b ∈ q.post)) (pick₁ pick₂ : Sched) :
    solve p pick₁ = solve q pick₂ := by
  apply List.ext_getElem (by rw [solve_length, solve_length, hn])
  intro i h1 h2
  have e1 := solve_spec p pick₁ i
  have e2 := solve_spec q pick₂ i
  rw [List.getD_eq_getElem?_getD, List.getElem?_eq_getElem h1] at e1
  rw [List.getD_eq_getElem?_getD, List.getElem?_eq_getElem h2] at e2
  simp only [Option.getD_some] at e1 e2
  have e3 : Live p i ↔ Live q i :=
    ⟨Live.mono_exec hn ho hs he (fun b => (hx b).1),
     Live.mono_exec hn.symm ho.symm hs.symm he.symm (fun b => (hx b).2)⟩
  exact Bool.eq_iff_iff.2 (e1.trans (e3.trans e2.symm))

/-- `Live p` is a fixpoint of the specified closure operator `F p` … -/
theorem live_fixpoint (p : Prog) (v : Nat) : Live p v ↔ F p (Live p) v := by
  constructor
  · intro h
    cases h with
    | root hlt hr => exact ⟨hlt, Or.inl hr⟩
    | step hlt hf hl => exact ⟨hlt, Or.inr ⟨_, hf, hl⟩⟩
  · rintro ⟨hlt, hr | ⟨r, hf, hl⟩⟩
    · exact Live.root hlt hr
    · exact Live.step hlt hf hl

/-- … and is below every pre-fixpoint: it is the least fixpoint. -/
theorem live_least (p : Prog) (S : Nat → Prop) (hS : ∀ v, F p S v → S v) (v : Nat) (h : Live p v) :
    S v := by
  induction h with
  | root hlt hr => exact hS _ ⟨hlt, Or.inl hr⟩
  | step hlt hf _ ih => exact hS _ ⟨hlt, Or.inr ⟨_, hf, ih⟩⟩

/-- **result = least fixpoint of the specified closure** (`solver_lfp` of DESIGN §5): the set computed
under any scheduler is a fixpoint of `F p` and is contained in every set closed under `F p`. -/
theorem solver_lfp (p : Prog) (pick : Sched) :
    (∀ v, (solve p pick).getD v false = true ↔ F p (fun u => (solve p pick).getD u false = true) v) ∧
    (∀ S : Nat → Prop, (∀ v, F p S v → S v) → ∀ v, (solve p pick).getD v false = true → S v) := by
  refine ⟨fun v => ?_, fun S hS v hv => live_least p S hS v ((solve_spec p pick v).1 hv)⟩
  rw [F_congr p (fun u => solve_spec p pick u) v, solve_spec]
  exact live_fixpoint p v

/-- **"the result does not depend on the order in which the solver processes its worklist"**:
any two schedulers (arbitrary functions of iteration number and current worklist) give the same
liveness for every value. -/
theorem schedule_independent (p : Prog) (pick₁ pick₂ : Sched) : solve p pick₁ = solve p pick₂ := by
  apply List.ext_getElem (by rw [solve_length, solve_length])
  intro i h1 h2
  have e1 := solve_spec p pick₁ i
  have e2 := solve_spec p pick₂ i
  rw [List.getD_eq_getElem?_getD, List.getElem?_eq_getElem h1] at e1
  rw [List.getD_eq_getElem?_getD, List.getElem?_eq_getElem h2] at e2
  simp only [Option.getD_some] at e1 e2
  exact Bool.eq_iff_iff.2 (e1.trans e2.symm)

/-- the DESIGN §11 form: schedulers that only look at the worklist, together with the fixpoint -/
theorem schedule_independent_design (p : Prog) (pick₁ pick₂ : List Nat → Nat) :
    solve p (fun _ => pick₁) = solve p (fun _ => pick₂) ∧
    ∀ v, (solve p (fun _ => pick₁)).getD v false = true ↔ Live p v :=
  ⟨schedule_independent p _ _, solve_spec p _⟩

/-- in particular every schedule agrees with the shipped FIFO order (`deque.popleft`) -/
theorem agrees_with_fifo (p : Prog) (pick : Sched) : solve p pick = solve p (fun _ _ => 0) :=
  schedule_independent p _ _

/-- "directly or through a chain of operands, used by an operation that is not trivially removable
or returned from a public function": on programs whose ids all have lattices, `Live` is reachability
of a root along operand→result edges. -/
theorem live_iff_chain (p : Prog) (hwf : WF p) (v : Nat) :
    Live p v ↔ ∃ u, Chain p v u ∧ Root p u := by
  constructor
  · intro h
    induction h with
    | root _ hr => exact ⟨_, Chain.refl _, hr⟩
    | step _ hf _ ih =>
      obtain ⟨u, hc, hr⟩ := ih
      exact ⟨u, Chain.cons hf hc, hr⟩
  · rintro ⟨u, hc, hr⟩
    induction hc with
    | refl v => exact Live.root (hr.lt hwf) hr
    | cons hf _ ih => exact Live.step (hf.lt hwf) hf (ih hr)

/-- **The property sentence**: for every well-formed program and every schedule, the analysis marks
`v` live exactly when an operand chain leads from `v` to a value demanded by a not-trivially-removable
op (incl. `func.return`) or a boundary. -/
theorem liveness_correct (p : Prog) (hwf : WF p) (pick : Sched) (v : Nat) :
    (solve p pick).getD v false = true ↔ ∃ u, Chain p v u ∧ Root p u :=
  (solve_spec p pick v).trans (live_iff_chain p hwf v)

/-! ## Removability is a property of the op *instance*, not of its class

`visit_operation_impl` asks `would_be_trivially_dead(op)` for the op it visits.  The answer depends on
the instance (`XdslModel/Liveness.lean`, `Inst` / `instWbd`: `RegisterAllocatedMemoryEffect` reports a
`WRITE` for every result whose type is an allocated register), so it may not be remembered per op
class.  The solver theorems above hold for arbitrary per-op flags; the theorems below say what the flag
of an instance is and that it cannot be replaced by a constant of the class. -/

/-- **`would_be_trivially_dead` of an instance**, for the effect traits of the model: the op is no
terminator, no symbol op, has at least one `MemoryEffect` trait, every such trait is `NoMemoryEffect`,
`MemoryReadEffect` or `RegisterAllocatedMemoryEffect`, and in the last case no *result* of this
instance has an allocated register type. -/
theorem instWbd_iff (i : Inst) :
    instWbd i = true ↔
      i.term = false ∧ i.sym = false ∧ i.traits ≠ [] ∧
      (∀ t ∈ i.traits, t = Trait.noEffect ∨ t = Trait.read ∨ t = Trait.regAlloc) ∧
      (Trait.regAlloc ∈ i.traits → ∀ b ∈ i.outAlloc, b = false) := by
  unfold instWbd resultOnlyEffects getEffects
  by_cases hnil : i.traits = []
  · simp [hnil]
  · have hne : i.traits.isEmpty = false := by
      cases h : i.traits with
      | nil => exact absurd h hnil
      | cons _ _ => rfl
    simp only [hne, Bool.false_eq_true, if_false, Bool.and_eq_true, Bool.not_eq_true',
      List.all_eq_true, List.mem_flatMap, beq_iff_eq, forall_exists_index, and_imp]
    constructor
    · rintro ⟨⟨ht, hs⟩, hall⟩
      refine ⟨ht, hs, hnil, fun t htm => ?_, fun hG b hb => ?_⟩
      · cases t with
        | noEffect => exact Or.inl rfl
        | read => exact Or.inr (Or.inl rfl)
        | regAlloc => exact Or.inr (Or.inr rfl)
        | write => exact absurd (hall EffKind.write Trait.write htm (by simp [traitEffects])) (by decide)
        | alloc => exact absurd (hall EffKind.alloc Trait.alloc htm (by simp [traitEffects])) (by decide)
        | free => exact absurd (hall EffKind.free Trait.free htm (by simp [traitEffects])) (by decide)
      · cases b with
        | false => rfl
        | true =>
          have : EffKind.write ∈ traitEffects i Trait.regAlloc := by
            unfold traitEffects
            exact List.mem_append_left _ (List.mem_map.2 ⟨true, List.mem_filter.2 ⟨hb, rfl⟩, rfl⟩)
          exact absurd (hall EffKind.write Trait.regAlloc hG this) (by decide)
    · rintro ⟨ht, hs, _, hk, hG⟩
      refine ⟨⟨ht, hs⟩, fun e t htm he => ?_⟩
      rcases hk t htm with rfl | rfl | rfl
      · simp [traitEffects] at he
      · simpa [traitEffects] using he
      · unfold traitEffects at he
        rcases List.mem_append.1 he with h | h
        · obtain ⟨b, hb, _⟩ := List.mem_map.1 h
          obtain ⟨hb1, hb2⟩ := List.mem_filter.1 hb
          have := hG htm b hb1
          subst this
          simp at hb2
        · obtain ⟨_, _, rfl⟩ := List.mem_map.1 h
          rfl

/-- an assembly-style op (`RegisterAllocatedMemoryEffect` alone: `riscv.add`, `x86.ds.mov`,
`test.allocatable`, …) is removable exactly when none of its results is an allocated register -/
theorem instWbd_regAlloc (ia oa : List Bool) :
    instWbd { traits := [Trait.regAlloc], inAlloc := ia, outAlloc := oa } = true ↔ ∀ b ∈ oa, b = false := by
  rw [instWbd_iff]
  simp

/-- allocated *operand* registers only add `READ` effects: they never decide removability -/
theorem instWbd_operands_irrelevant (i : Inst) (ia : List Bool) :
    instWbd { i with inAlloc := ia } = instWbd i := by
  apply Bool.eq_iff_iff.2
  rw [instWbd_iff, instWbd_iff]

/-- a terminator (or symbol op) is never trivially removable, **whatever effects it declares** — also a
`Pure` / `NoMemoryEffect` one (`scf.yield`, `affine.yield`, `llvm.return`): its operands are live.
Looking at the memory effects alone (`result_only_effects`) is not the flag of the analysis. -/
theorem instWbd_terminator_or_symbol (i : Inst) (h : i.term = true ∨ i.sym = true) : instWbd i = false := by
  cases hw : instWbd i with
  | false => rfl
  | true =>
    obtain ⟨ht, hs, _⟩ := (instWbd_iff i).1 hw
    rcases h with h | h <;> simp_all

/-- `resultOnlyEffects` and `instWbd` differ exactly on terminators / symbol ops with harmless effects -/
theorem resultOnlyEffects_ne_instWbd :
    ∃ i : Inst, resultOnlyEffects i = true ∧ instWbd i = false :=
  ⟨{ term := true, traits := [Trait.noEffect] }, by decide, by decide⟩

/-- an op declaring a plain `MemoryAllocEffect`, `MemoryFreeEffect` or `MemoryWriteEffect` (the `ALLOC`
effect of the trait names no value, so it is not an allocation of the op's own results: `memref.alloc`,
`memref.alloca`; `memref.dealloc`) is not removable: the values feeding its operands are live -/
theorem instWbd_alloc_free_write (i : Inst)
    (h : Trait.alloc ∈ i.traits ∨ Trait.free ∈ i.traits ∨ Trait.write ∈ i.traits) : instWbd i = false := by
  cases hw : instWbd i with
  | false => rfl
  | true =>
    obtain ⟨_, _, _, hk, _⟩ := (instWbd_iff i).1 hw
    rcases h with h | h | h <;> · have := hk _ h; simp at this

/-- two instances of one class (same traits, same terminator/symbol status) with different answers:
a class-level memo of `would_be_trivially_dead` is wrong for one of them whichever it stores -/
theorem instWbd_not_class_constant :
    ∃ i j : Inst, i.term = j.term ∧ i.sym = j.sym ∧ i.traits = j.traits ∧ instWbd i ≠ instWbd j :=
  ⟨{ traits := [Trait.regAlloc], inAlloc := [false], outAlloc := [false] },
   { traits := [Trait.regAlloc], inAlloc := [false], outAlloc := [true] }, rfl, rfl, rfl, by decide⟩

/-- the same program with the flag of some ops lowered to "not removable" (`f op = false`) -/
def lowerWbd (p : Prog) (f : Op → Bool) : Prog :=
  { p with ops := p.ops.map fun o => { o with wbd := o.wbd && f o } }

/-- **The flag of every instance matters, monotonically**: treating more op instances as not
removable can only add live values (so a wrong "not removable" for one instance over-approximates,
a wrong "removable" under-approximates — neither is the specified set in general, see
`class_constant_flag_counterexample`). -/
theorem live_mono_wbd (p : Prog) (f : Op → Bool) (v : Nat) (h : Live p v) : Live (lowerWbd p f) v := by
  have hex : ∀ o : Op, ExecP p o → ExecP (lowerWbd p f) ({ o with wbd := o.wbd && f o }) := fun _ h => h
  induction h with
  | root hlt hr =>
    refine Live.root hlt ?_
    rcases hr with h | h | ⟨op, hop, hx, hw, hv⟩
    · exact Or.inl h
    · exact Or.inr (Or.inl h)
    · refine Or.inr (Or.inr ⟨{ op with wbd := op.wbd && f op }, ?_, hex op hx, ?_, hv⟩)
      · exact List.mem_map.2 ⟨op, hop, rfl⟩
      · simp [hw]
  | step hlt hf _ ih =>
    obtain ⟨op, hop, hx, ha, hb⟩ := hf
    exact Live.step hlt ⟨{ op with wbd := op.wbd && f op }, List.mem_map.2 ⟨op, hop, rfl⟩, hex op hx, ha, hb⟩ ih

/-- the computed form: under any two schedules, every value live in `p` is live in `lowerWbd p f` -/
theorem solve_mono_wbd (p : Prog) (f : Op → Bool) (pick₁ pick₂ : Sched) (v : Nat)
    (h : (solve p pick₁).getD v false = true) : (solve (lowerWbd p f) pick₂).getD v false = true :=
  (solve_spec _ pick₂ v).2 (live_mono_wbd p f v ((solve_spec p pick₁ v).1 h))

/-- two `test.allocatable`-style ops of one class in one block: `A : 2 := op(0)` with an unallocated
result register (removable instance), `B : 3 := op(1)` with an allocated one (not removable) -/
def exInstA : Inst := { traits := [Trait.regAlloc], inAlloc := [false], outAlloc := [false] }
def exInstB : Inst := { traits := [Trait.regAlloc], inAlloc := [false], outAlloc := [true] }

def exInstProg (flagA flagB : Bool) : Prog :=
  { nvals := 4, ops := [⟨[0], [2], flagA, 0⟩, ⟨[1], [3], flagB, 0⟩], pre := [0] }

/-- the specified result for the per-instance flags: only the operand of `B` is live -/
example : solve (exInstProg (instWbd exInstA) (instWbd exInstB)) (fun _ _ => 0)
    = [false, true, false, false] := by decide

/-- **No class-level flag reproduces it**: whichever single answer is used for both instances (the
one of the instance visited first, whatever the visiting order is), the result differs from the
specified one — with the removable instance's answer the operand of `B` is lost, with the other one
the operand of `A` is marked. -/
theorem class_constant_flag_counterexample (c : Bool) (pick : Sched) :
    solve (exInstProg c c) pick ≠ solve (exInstProg (instWbd exInstA) (instWbd exInstB)) pick := by
  rw [schedule_independent _ pick (fun _ _ => 0),
    schedule_independent (exInstProg (instWbd exInstA) (instWbd exInstB)) pick (fun _ _ => 0)]
  cases c <;> decide

/-! ## Non-vacuity: a graph-region body where schedules really differ

values 0…5; program order `A: effectful(0,1)`, `B: 0 := pure(2)`, `C: 1 := pure(3)`, `D: 4 := pure(2)`.
Initialisation visits D, C, B, A; A makes 0 and 1 live and enqueues B, C.  -/
def exProg : Prog :=
  { nvals := 6
    ops := [⟨[0, 1], [], false, 0⟩, ⟨[2], [0], true, 0⟩, ⟨[3], [1], true, 0⟩, ⟨[2], [4], true, 0⟩]
    pre := [0] }

/-- the same body with the block marked executable only after the liveness initialisation
(`DeadCodeAnalysis` loaded second): the walk skips everything, `on_update` enqueues all four ops -/
def exProgPost : Prog := { exProg with pre := [], post := [0] }

/-- a second block (1) that never becomes executable: its effectful op demands nothing -/
def exProgDead : Prog :=
  { exProg with
    nvals := 8, ops := exProg.ops ++ [⟨[6], [], false, 1⟩, ⟨[7], [6], true, 1⟩] }

example : (init exProg).wl = [1, 2] := by decide
example : solve exProg (fun _ _ => 0) = [true, true, true, true, false, false] := by decide
example : (solveSt exProg (fun _ _ => 0)).trace.reverse = [1, 2] := by decide
example : (solveSt exProg (fun _ _ => 1)).trace.reverse = [2, 1] := by decide
example : WF exProg := by
  refine ⟨?_, ?_, ?_⟩ <;> decide
example : Live exProg 2 := (solve_spec exProg (fun _ _ => 0) 2).1 (by decide)
example : (init exProgPost).wl = [0, 1, 2, 3] := by decide
example : solve exProgPost (fun _ _ => 0) = [true, true, true, true, false, false] := by decide
example : (solveSt exProgPost (fun _ _ => 0)).trace.reverse = [0, 1, 2, 3] := by decide
/-- LIFO on the enqueued block: D, C, B are visited (and registered) before A makes 0 and 1 live,
which re-enqueues B and C -/
example : (solveSt exProgPost (fun _ wl => wl.length - 1)).trace.reverse = [3, 2, 1, 0, 2, 1] := by
  decide
example : solve exProgPost (fun _ _ => 3) = solve exProg (fun _ _ => 0) :=
  load_order_independent exProgPost exProg rfl rfl rfl rfl (by intro b; simp [exProg, exProgPost]) _ _
example : AllExec exProg ∧ AllExec exProgPost := by
  constructor <;> (intro op hop; simp [exProg, exProgPost] at hop; rcases hop with rfl | rfl | rfl | rfl <;> simp [ExecP, exProg, exProgPost])
example : solve exProgDead (fun _ _ => 0)
    = [true, true, true, true, false, false, false, false] := by decide
example : ¬ Live exProg 4 := fun h => by
  have := (solve_spec exProg (fun _ _ => 0) 4).2 h
  revert this; decide

end Xdsl.Liveness
