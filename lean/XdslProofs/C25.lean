import XdslProofs.Lemmas.Liveness
/-!
# C25 — the liveness dataflow analysis computes its specified fixpoint under any schedule

"For supported (branch-free) IR, the sparse backward liveness analysis marks a value live exactly when
it is, directly or through a chain of operands, used by an operation that is not trivially removable
or returned from a public function, and the result does not depend on the order in which the solver
processes its worklist."

Model: `XdslModel/Liveness.lean` (`init` = `analysis.initialize`, `run` = the `while self._worklist`
loop with scheduler `pick`, `mark` = `propagate_if_changed(lat, lat.mark_live())`).
Specification: `Xdsl.Liveness.Live` / `Root` / `Feeds` / `Chain` / `F` in `Lemmas/Liveness.lean`.
`func.return` is a terminator, hence `wbd = false`: "returned from a (public) function" is an
instance of `Root`; explicit boundary values (`seeds`, `exits`) are roots as well.
All theorems hold for every program `p` and every scheduler `pick : Nat → List Nat → Nat`
(iteration number and current worklist ↦ position to pop); the shipped solver is `fun _ _ => 0`.
-/
namespace Xdsl.Liveness

/-- The invariant (computed liveness ⊆ specified liveness; every registered op is stable or on the
worklist) holds when the solver returns. -/
theorem solveSt_inv (p : Prog) (pick : Sched) : Inv p (solveSt p pick) :=
  run_inv p pick _ 0 _ (init_inv p)

/-- **Termination**, "…under any schedule": within `fuel` iterations the worklist is empty, whatever
the scheduler picks.  (Potential: `|worklist| + #ops · #dead values` drops by ≥ 1 per iteration.) -/
theorem solver_terminates (p : Prog) (pick : Sched) : (solveSt p pick).wl = [] :=
  run_wl p pick _ 0 _ (pot_le_fuel p _ (init_inv p).len)

/-- The fuel of the model is not a truncation: any larger iteration budget gives the same state. -/
theorem solver_fuel_irrelevant (p : Prog) (pick : Sched) (extra : Nat) :
    run p pick (fuel p (init p) + extra) 0 (init p) = solveSt p pick :=
  run_extra p pick _ extra 0 _ (solver_terminates p pick)

/-- Every schedule pops at most `|initial worklist| + #ops · #values` work items. -/
theorem solver_pop_bound (p : Prog) (pick : Sched) :
    (solveSt p pick).trace.length ≤ (init p).wl.length + p.ops.length * p.nvals := by
  have := run_trace p pick (fuel p (init p)) 0 (init p)
  rw [init_trace] at this
  simpa [solveSt, fuel] using this

theorem solve_length (p : Prog) (pick : Sched) : (solve p pick).length = p.nvals :=
  (solveSt_inv p pick).len

/-- "marks a value live **exactly when** …": the computed bit of `v` is set iff `v` is in the
specified least set `Live p` (roots + closure under operand-of-op-with-live-result). -/
theorem solve_spec (p : Prog) (pick : Sched) (v : Nat) :
    (solve p pick).getD v false = true ↔ Live p v := by
  constructor
  · exact (solveSt_inv p pick).sound v
  · exact complete_of_wl_nil p _ (solveSt_inv p pick)
      ((init_ready p).mono (run_le p pick _ 0 _)) (solver_terminates p pick) v

/-- `Live p` is a fixpoint of the specified closure operator `F p` … -/
theorem live_fixpoint (p : Prog) (v : Nat) : Live p v ↔ F p (Live p) v := by
  constructor
  · intro h
    cases h with
    | root hlt hr => exact ⟨hlt, Or.inl hr⟩
    | step hlt hf hl => exact ⟨hlt, Or.inr ⟨_, hf, hl⟩⟩
  · rintro ⟨hlt, hr | ⟨r, hf, hl⟩⟩
    · exact Live.root hlt hr
    · exact Live.step hlt hf hl

/-- … and is below every pre-fixpoint: it is the least fixpoint. -/
theorem live_least (p : Prog) (S : Nat → Prop) (hS : ∀ v, F p S v → S v) (v : Nat) (h : Live p v) :
    S v := by
  induction h with
  | root hlt hr => exact hS _ ⟨hlt, Or.inl hr⟩
  | step hlt hf _ ih => exact hS _ ⟨hlt, Or.inr ⟨_, hf, ih⟩⟩

/-- **result = least fixpoint of the specified closure** (`solver_lfp` of DESIGN §5): the set computed
under any scheduler is a fixpoint of `F p` and is contained in every set closed under `F p`. -/
theorem solver_lfp (p : Prog) (pick : Sched) :
    (∀ v, (solve p pick).getD v false = true ↔ F p (fun u => (solve p pick).getD u false = true) v) ∧
    (∀ S : Nat → Prop, (∀ v, F p S v → S v) → ∀ v, (solve p pick).getD v false = true → S v) := by
  refine ⟨fun v => ?_, fun S hS v hv => live_least p S hS v ((solve_spec p pick v).1 hv)⟩
  rw [F_congr p (fun u => solve_spec p pick u) v, solve_spec]
  exact live_fixpoint p v

/-- **"the result does not depend on the order in which the solver processes its worklist"**:
any two schedulers (arbitrary functions of iteration number and current worklist) give the same
liveness for every value. -/
theorem schedule_independent (p : Prog) (pick₁ pick₂ : Sched) : solve p pick₁ = solve p pick₂ := by
  apply List.ext_getElem (by rw [solve_length, solve_length])
  intro i h1 h2
  have e1 := solve_spec p pick₁ i
  have e2 := solve_spec p pick₂ i
  rw [List.getD_eq_getElem?_getD, List.getElem?_eq_getElem h1] at e1
  rw [List.getD_eq_getElem?_getD, List.getElem?_eq_getElem h2] at e2
  simp only [Option.getD_some] at e1 e2
  exact Bool.eq_iff_iff.2 (e1.trans e2.symm)

/-- the DESIGN §11 form: schedulers that only look at the worklist, together with the fixpoint -/
theorem schedule_independent_design (p : Prog) (pick₁ pick₂ : List Nat → Nat) :
    solve p (fun _ => pick₁) = solve p (fun _ => pick₂) ∧
    ∀ v, (solve p (fun _ => pick₁)).getD v false = true ↔ Live p v :=
  ⟨schedule_independent p _ _, solve_spec p _⟩

/-- in particular every schedule agrees with the shipped FIFO order (`deque.popleft`) -/
theorem agrees_with_fifo (p : Prog) (pick : Sched) : solve p pick = solve p (fun _ _ => 0) :=
  schedule_independent p _ _

/-- "directly or through a chain of operands, used by an operation that is not trivially removable
or returned from a public function": on programs whose ids all have lattices, `Live` is reachability
of a root along operand→result edges. -/
theorem live_iff_chain (p : Prog) (hwf : WF p) (v : Nat) :
    Live p v ↔ ∃ u, Chain p v u ∧ Root p u := by
  constructor
  · intro h
    induction h with
    | root _ hr => exact ⟨_, Chain.refl _, hr⟩
    | step _ hf _ ih =>
      obtain ⟨u, hc, hr⟩ := ih
      exact ⟨u, Chain.cons hf hc, hr⟩
  · rintro ⟨u, hc, hr⟩
    induction hc with
    | refl v => exact Live.root (hr.lt hwf) hr
    | cons hf _ ih => exact Live.step (hf.lt hwf) hf (ih hr)

/-- **The property sentence**: for every well-formed program and every schedule, the analysis marks
`v` live exactly when an operand chain leads from `v` to a value demanded by a not-trivially-removable
op (incl. `func.return`) or a boundary. -/
theorem liveness_correct (p : Prog) (hwf : WF p) (pick : Sched) (v : Nat) :
    (solve p pick).getD v false = true ↔ ∃ u, Chain p v u ∧ Root p u :=
  (solve_spec p pick v).trans (live_iff_chain p hwf v)

/-! ## Non-vacuity: a graph-region body where schedules really differ

values 0…5; program order `A: effectful(0,1)`, `B: 0 := pure(2)`, `C: 1 := pure(3)`, `D: 4 := pure(2)`.
Initialisation visits D, C, B, A; A makes 0 and 1 live and enqueues B, C.  -/
def exProg : Prog :=
  { nvals := 6
    ops := [⟨[0, 1], [], false⟩, ⟨[2], [0], true⟩, ⟨[3], [1], true⟩, ⟨[2], [4], true⟩] }

example : (init exProg).wl = [1, 2] := by decide
example : solve exProg (fun _ _ => 0) = [true, true, true, true, false, false] := by decide
example : (solveSt exProg (fun _ _ => 0)).trace.reverse = [1, 2] := by decide
example : (solveSt exProg (fun _ _ => 1)).trace.reverse = [2, 1] := by decide
example : WF exProg := by
  refine ⟨?_, ?_, ?_⟩ <;> decide
example : Live exProg 2 := (solve_spec exProg (fun _ _ => 0) 2).1 (by decide)
example : ¬ Live exProg 4 := fun h => by
  have := (solve_spec exProg (fun _ _ => 0) 4).2 h
  revert this; decide

end Xdsl.Liveness
