import XdslProofs.Lemmas.PostOrder
/-!
# C24 — property theorems (post-order part)

"Post-order iteration from the entry yields every reachable block exactly once, no unreachable
block, and the entry block last."

`g : Graph` with all successors inside the region (`WF g`), `r` the start block
(`PostOrderIterator(block)`; the entry is `r = 0`).  The model is the FIXED iterator
(see `XdslModel/PostOrder.lean`).
-/
namespace Xdsl.PostOrder
open Xdsl.Graph

theorem postOrder_final (g : Graph) (hwf : WF g) {r : Nat} (hr : r < g.length) :
    ∃ out, postOrder g r = (out.reverse, true) ∧ Final g r out :=
  run_spec hwf hr _ _ _ (inv_init g r) (measure_init _ _ (by omega))

/-- The iteration ends (`StopIteration`) within `2n + 1` pops of the stack. -/
theorem postorder_terminates (g : Graph) (hwf : WF g) {r : Nat} (hr : r < g.length) :
    (postOrder g r).2 = true := by
  obtain ⟨out, h, _⟩ := postOrder_final g hwf hr; rw [h]

/-- **postorder_spec.** The yielded sequence has no duplicates ("exactly once"), its members are
exactly the blocks reachable from the start block ("every reachable block … no unreachable block"),
and the start block comes last ("the entry block last"). -/
theorem postorder_spec (g : Graph) (hwf : WF g) {r : Nat} (hr : r < g.length) :
    (postOrder g r).1.Nodup
    ∧ (∀ b, b ∈ (postOrder g r).1 ↔ Reach g r b)
    ∧ (postOrder g r).1.getLast? = some r := by
  obtain ⟨out, h, hf⟩ := postOrder_final g hwf hr
  rw [h]
  refine ⟨((List.reverse_perm out).nodup_iff).mpr hf.nodup, fun b => by simpa using hf.mem_iff b, ?_⟩
  obtain ⟨o, rfl⟩ := hf.last
  simp

/-- Children before parents along the traversal tree: every yielded block other than the start
block has a CFG predecessor that is yielded later. -/
theorem postorder_children_first (g : Graph) (hwf : WF g) {r : Nat} (hr : r < g.length) :
    ∀ v ∈ (postOrder g r).1, v ≠ r → ∃ u, Edge g u v ∧ [v, u].Sublist (postOrder g r).1 := by
  obtain ⟨out, h, hf⟩ := postOrder_final g hwf hr
  rw [h]
  intro v hv hne
  exact hf.later v (by simpa using hv) hne

/-! ## Non-vacuity -/

/-- `cf.cond_br %c, ^1, ^1` (the failing input of the pinned code, which yielded `[1, 1, 0]`) -/
example : WF [[1, 1], []] ∧ (postOrder [[1, 1], []] 0).1 = [1, 0] :=
  ⟨(wf_iff _).mp (by decide), by decide⟩

/-- loop with exit and an unreachable block `4`: `0→1,2; 1→2; 2→0,3; 4→0` -/
example : WF [[1, 2], [2], [0, 3], [], [0]]
    ∧ (postOrder [[1, 2], [2], [0, 3], [], [0]] 0) = ([1, 3, 2, 0], true) :=
  ⟨(wf_iff _).mp (by decide), by decide⟩

end Xdsl.PostOrder
