import XdslModel.OpDef
import XdslProofs.C10
import XdslProofs.C10VerifyOp
import XdslProofs.Lemmas.AL
import XdslProofs.Lemmas.OpDefStorage
/-!
# C10 — default values and the storage of the segment-size arrays

Two parts of `xdsl/irdl/operations.py` that `OpDef.verify`, the generated constructor and the
generated accessors have to agree on:

* **default values.**  `prop_def(..., default_value=v)` makes the *constructor*
  (`IRDLOperation.__post_init__`) write `v` when the entry is not given.  The definition stays
  non-optional: "passes verification exactly when … every … property and attribute satisfies its
  constraint" — an operation from which the entry was removed after construction has no value for a
  declared, non-optional property and must be rejected, with or without a default; and on an
  operation that verifies the dictionary accessors never raise.
* **storage of segment sizes.**  Every `AttrSized…Segments` option carries its own `as_property`
  flag.  "Operations built through the generated constructor from arguments that satisfy the
  definition always verify, and the generated accessors return exactly the declared segments" —
  for every combination of options, storage kinds and option orders.
-/
namespace Xdsl.OpDef

/-! ## default values -/

/-- **verification does not depend on declared defaults**: replacing the `default_value`s of the
definitions by anything else leaves the property/attribute loop of `OpDef.verify` unchanged. -/
theorem verifyDict_ignores_default (f : AttrDef → Option Nat) :
    ∀ (defs : List AttrDef) (m : AL Nat Nat) (ctx : Ctx),
      verifyDict (defs.map fun d => { d with default := f d }) m ctx = verifyDict defs m ctx
  | [], _, _ => rfl
  | d :: ds, m, ctx => by
    have ih := verifyDict_ignores_default f ds m
    simp only [verifyDict, List.map_cons, List.foldlM_cons] at ih ⊢
    congr 1; funext c; exact ih c

/-- **`OpDef.verify` as a whole does not depend on declared defaults.** -/
theorem verifyOp_ignores_default (f g : AttrDef → Option Nat) (d : Def) (o : Inst) :
    verifyOp { d with props := d.props.map fun p => { p with default := f p }
                      attrs := d.attrs.map fun p => { p with default := g p } } o
      = verifyOp d o := by
  unfold verifyOp
  simp only [verifyDict_ignores_default, List.any_map]
  rfl

/-- **a verified operation has every non-optional property and attribute**, whether or not the
definition declares a default for it ("every property and attribute satisfies its constraint"). -/
theorem verifyOp_required_present (d : Def) (o : Inst) (h : verifyOp d o = .ok ()) :
    RequiredPresent d.props o.props ∧ RequiredPresent d.attrs o.attrs := by
  obtain ⟨c1, c2, c3, c4, c5, -, -, -, -, h5, -, h7⟩ := (verifyOp_unfold d o).1 h
  exact ⟨((verifyDict_iff d.props o.props c3 c4).1 h5).1, ((verifyDict_iff d.attrs o.attrs c4 c5).1 h7).1⟩

/-- **two-step history**: whatever the operation looked like (in particular: freshly constructed,
defaults filled in), once the entry of a non-optional property is deleted it no longer verifies —
default or not. -/
theorem deleted_required_prop_rejected (d : Def) (o : Inst) (pd : AttrDef) (hm : pd ∈ d.props)
    (hr : pd.optional = false) :
    verifyOp d { o with props := AL.del o.props pd.name } ≠ .ok () := by
  intro h
  have := (verifyOp_required_present d _ h).1 pd hm hr
  simp [AL.get_del] at this

/-- the same for a non-optional attribute -/
theorem deleted_required_attr_rejected (d : Def) (o : Inst) (ad : AttrDef) (hm : ad ∈ d.attrs)
    (hr : ad.optional = false) :
    verifyOp d { o with attrs := AL.del o.attrs ad.name } ≠ .ok () := by
  intro h
  have := (verifyOp_required_present d _ h).2 ad hm hr
  simp [AL.get_del] at this

/-- **the dictionary accessors never raise on an operation that verifies**, and return the stored
value — for an absent optional entry the declared default (or `None`). -/
theorem verified_dict_accessors (d : Def) (o : Inst) (h : verifyOp d o = .ok ()) :
    (∀ pd ∈ d.props, dictAccessor pd o.props = .ok ((AL.get o.props pd.name).or pd.default)) ∧
    (∀ ad ∈ d.attrs, dictAccessor ad o.attrs = .ok ((AL.get o.attrs ad.name).or ad.default)) := by
  obtain ⟨hp, ha⟩ := verifyOp_required_present d o h
  constructor
  · intro pd hm
    exact dictAccessor_of_present pd o.props (fun hr => hp pd hm hr)
  · intro ad hm
    exact dictAccessor_of_present ad o.attrs (fun hr => ha ad hm hr)

/-- `__post_init__` never touches an entry that is present -/
theorem fillDefaults_keeps (defs : List AttrDef) (m : AL Nat Nat) (k : Nat)
    (h : (AL.get m k).isSome = true) : AL.get (fillDefaults defs m) k = AL.get m k :=
  fillDefaults_mono defs m k h

/-- **after construction every non-optional definition with a default is present** -/
theorem fillDefaults_present (defs : List AttrDef) (m : AL Nat Nat) (d : AttrDef) (hm : d ∈ defs)
    (hr : d.optional = false) (v : Nat) (hd : d.default = some v) :
    (AL.get (fillDefaults defs m) d.name).isSome = true :=
  fillDefaults_present' defs m d hm hr v hd

/-- `__post_init__` writes only defaults: an entry that was absent and is present afterwards holds
the default of a non-optional definition of that name -/
theorem fillDefaults_only_defaults (defs : List AttrDef) (m : AL Nat Nat) (k a : Nat)
    (h0 : AL.get m k = none) (h : AL.get (fillDefaults defs m) k = some a) :
    ∃ d ∈ defs, d.name = k ∧ d.optional = false ∧ d.default = some a :=
  fillDefaults_written defs m k a h0 h

/-- `__post_init__` is idempotent -/
theorem fillDefaults_idem (defs : List AttrDef) (m : AL Nat Nat) :
    fillDefaults defs (fillDefaults defs m) = fillDefaults defs m := by
  apply fillDefaults_noop
  intro d hm hr v hd
  exact fillDefaults_present' defs m d hm hr v hd

/-- non-vacuity: `flag = prop_def(T, default_value=1)`, `plain = prop_def(T)`.  Constructed from
`{plain: 1}` it verifies with `flag` filled in; after `del op.properties["flag"]` it is rejected
and the accessor would raise `KeyError`. -/
def exDefaults : Def :=
  { props := [{ name := 0, optional := false, constr := .plain (.oneOf [1, 2]), default := some 1 },
              { name := 1, optional := false, constr := .plain (.oneOf [1, 2]) }] }

example :
    let o := construct exDefaults { props := [(1, 1)] }
    AL.get o.props 0 = some 1 ∧ tag (verifyOp exDefaults o) = 0 ∧
    tag (verifyOp exDefaults { o with props := AL.del o.props 0 }) = 1 ∧
    dictAccessor { name := 0, optional := false, constr := .plain .any, default := some 1 }
      (AL.del o.props 0) = .error .key := by
  decide

/-! ## storage of the segment-size arrays -/

/-- **what the constructor stores is what verification and the accessors read**: after the option
loop of `irdl_op_init`, the size array of every attribute-sized construct whose option is listed
is found in the dictionary that this option's own `as_property` flag names — for every order of
the options and every mix of storage kinds. -/
theorem readSize_storeSizes (d : Def) (sizes : Construct → SizeAttr) (order : List Construct)
    (raw : RawSizes) (c : Construct) (hc : (d.get c).opt = .attrSized) (hm : c ∈ order) :
    readSize (d.get c) c (storeSizes d sizes order raw) = sizes c := by
  have := get_container_storeSizes d sizes order raw c hc (Or.inl hm)
  simp only [readSize, hc, if_true]
  cases hp : (d.get c).asProp <;> simp only [hp, Bool.false_eq_true, if_false, if_true] at this ⊢ <;>
    rw [this]

/-- **the constructor never writes a property the definition does not declare**: the
undefined-property loop of `OpDef.verify` accepts the size entries of a built operation. -/
theorem storeSizes_declared (d : Def) (sizes : Construct → SizeAttr) (order : List Construct) :
    undefinedSizeProp d (storeSizes d sizes order {}) = false :=
  storeSizes_declared' d sizes order {} rfl

/-- **the whole-operation constructor is the four per-construct builds**, and each size array it
stores is read back by `view` (what `OpDef.verify` and the accessors see), whatever the storage
kinds and the order of the options. -/
theorem buildOp_spec (d : Def) (order : List Construct) (a : BuildArgs) (p q : AL Nat Nat)
    (o : Inst) (raw : RawSizes) (hord : ∀ c, (d.get c).opt = .attrSized → c ∈ order)
    (h : buildOp d order a p q = some (o, raw)) :
    ∃ xs : List Unit,
      build true d.operands.kinds d.operands.opt a.operands = some (o.operands, o.operandAttr) ∧
      build false d.results.kinds d.results.opt a.results = some (o.results, o.resultAttr) ∧
      build true d.regions.kinds d.regions.opt a.regions = some (o.regions, o.regionAttr) ∧
      build false d.successors.kinds d.successors.opt a.successors = some (xs, o.succAttr) ∧
      xs.length = o.successors ∧
      undefinedSizeProp d raw = false ∧ view d raw o = o ∧
      o.props = fillDefaults d.props p ∧ o.attrs = fillDefaults d.attrs q := by
  unfold buildOp at h
  split at h
  · rename_i xo ao xr ar xg ag xs as h1 h2 h3 h4
    simp only [Option.some.injEq, Prod.mk.injEq] at h
    obtain ⟨ho, hraw⟩ := h
    have rd : ∀ (c : Construct) (norm : Bool) (α : Type) (args : List (BArg α)) (ys : List α) (at' : SizeAttr),
        build norm (d.get c).kinds (d.get c).opt args = some (ys, at') →
        (∀ s : Construct → SizeAttr, s c = at' →
          readSize (d.get c) c (storeSizes d s order {}) = at') := by
      intro c norm α args ys at' hb s hs
      by_cases hc : (d.get c).opt = .attrSized
      · rw [readSize_storeSizes d s order {} c hc (hord c hc), hs]
      · rw [build_attr_missing norm _ _ args ys at' hb hc]
        simp [readSize, hc]
    have eO := rd .operand true _ a.operands xo ao h1
    have eR := rd .result false _ a.results xr ar h2
    have eG := rd .region true _ a.regions xg ag h3
    have eS := rd .successor false _ a.successors xs as h4
    subst hraw
    subst ho
    refine ⟨xs, ?_, ?_, ?_, ?_, rfl, storeSizes_declared d _ order, ?_, rfl, rfl⟩
    · simp only [view]; rw [h1]; congr 2; exact (eO _ rfl).symm
    · simp only [view]; rw [h2]; congr 2; exact (eR _ rfl).symm
    · simp only [view]; rw [h3]; congr 2; exact (eG _ rfl).symm
    · simp only [view]; rw [h4]; congr 2; exact (eS _ rfl).symm
    · simp only [view]
  · cases h

/-- **operations built through the generated constructor verify** (segment part, all four
constructs at once, any option order, any mix of `as_property` flags), and carry no undeclared
property. -/
theorem buildOp_verifies_sizes (d : Def) (order : List Construct) (a : BuildArgs) (p q : AL Nat Nat)
    (o : Inst) (raw : RawSizes) (wf : WfOp d) (hord : ∀ c, (d.get c).opt = .attrSized → c ∈ order)
    (h : buildOp d order a p q = some (o, raw)) :
    let v := view d raw o
    verifySizes d.operands.kinds d.operands.opt v.operands.length v.operandAttr = true ∧
    verifySizes d.results.kinds d.results.opt v.results.length v.resultAttr = true ∧
    verifySizes d.regions.kinds d.regions.opt v.regions.length v.regionAttr = true ∧
    verifySizes d.successors.kinds d.successors.opt v.successors v.succAttr = true ∧
    undefinedSizeProp d raw = false := by
  obtain ⟨xs, h1, h2, h3, h4, hl, hu, hv, -, -⟩ := buildOp_spec d order a p q o raw hord h
  obtain ⟨wO, wR, wG, wS⟩ := wf
  intro v
  have : v = o := hv
  rw [this]
  refine ⟨build_verifies _ _ _ _ _ _ wO h1, build_verifies _ _ _ _ _ _ wR h2,
    build_verifies _ _ _ _ _ _ wG h3, ?_, hu⟩
  rw [← hl]
  exact build_verifies _ _ _ _ _ _ wS h4

/-- **the accessors of a built operation return exactly the constructor's arguments**, read
through the container each option declares. -/
theorem buildOp_accessors (d : Def) (order : List Construct) (a : BuildArgs) (p q : AL Nat Nat)
    (o : Inst) (raw : RawSizes) (wf : WfOp d) (hord : ∀ c, (d.get c).opt = .attrSized → c ∈ order)
    (h : buildOp d order a p q = some (o, raw)) :
    let v := view d raw o
    (∀ i, i < d.operands.kinds.length →
      accessor d.operands.kinds d.operands.opt v.operandAttr v.operands i
        = .ok ((a.operands.map BArg.toList).getD i [])) ∧
    (∀ i, i < d.results.kinds.length →
      accessor d.results.kinds d.results.opt v.resultAttr v.results i
        = .ok ((a.results.map BArg.toList).getD i [])) ∧
    (∀ i, i < d.regions.kinds.length →
      accessor d.regions.kinds d.regions.opt v.regionAttr v.regions i
        = .ok ((a.regions.map BArg.toList).getD i [])) ∧
    (∃ xs : List Unit, xs.length = v.successors ∧ ∀ i, i < d.successors.kinds.length →
      accessor d.successors.kinds d.successors.opt v.succAttr xs i
        = .ok ((a.successors.map BArg.toList).getD i [])) := by
  obtain ⟨xs, h1, h2, h3, h4, hl, -, hv, -, -⟩ := buildOp_spec d order a p q o raw hord h
  obtain ⟨wO, wR, wG, wS⟩ := wf
  intro v
  have : v = o := hv
  rw [this]
  exact ⟨fun i hi => build_accessors _ _ _ _ _ _ wO h1 i hi,
    fun i hi => build_accessors _ _ _ _ _ _ wR h2 i hi,
    fun i hi => build_accessors _ _ _ _ _ _ wG h3 i hi,
    xs, hl, fun i hi => build_accessors _ _ _ _ _ _ wS h4 i hi⟩

/-- a size entry stored as a property that the definition does not declare makes the operation
fail verification; stored as an undeclared *attribute* it is simply not looked at -/
theorem verifyOpRaw_ok_iff (d : Def) (raw : RawSizes) (o : Inst) :
    verifyOpRaw d raw o = .ok () ↔
      verifyOp d (view d raw o) = .ok () ∧ undefinedSizeProp d raw = false := by
  unfold verifyOpRaw
  cases verifyOp d (view d raw o) with
  | error e => simp
  | ok u => cases undefinedSizeProp d raw <;> simp

/-- non-vacuity, the mixed-storage shape: operand sizes as a property, result sizes as an
attribute, options listed results-first.  The built operation verifies; had the result sizes gone
into the properties (the dictionary of the *first* option), it would be rejected. -/
def exMixed : Def :=
  { operands := { opt := .attrSized, asProp := true,
                  segs := [{ kind := .variadic }, { kind := .optional }] },
    results := { opt := .attrSized, asProp := false,
                 segs := [{ kind := .variadic }, { kind := .optional }] } }

example :
    (buildOp exMixed [.result, .operand]
        { operands := [.seq [1, 2], .none], results := [.seq [3], .one 4] } [] []).map
      (fun (o, raw) =>
        (tag (verifyOpRaw exMixed raw o), AL.get raw.props .operand, AL.get raw.attrs .result,
         tag (verifyOpRaw exMixed
           { props := (Construct.result, SizeAttr.dense true [1, 1]) :: raw.props, attrs := [] } o)))
      = some (0, some (.dense true [2, 0]), some (.dense true [1, 1]), 1) := by
  decide

end Xdsl.OpDef
