import XdslProofs.Lemmas.ArithFloatLogic
import XdslModel.Sem
/-!
# C15 (extension) — decision logic of the float kernels `minimumf`, `maximumf`, `cmpf`, `addf`, `subf`, `mulf`

The IEEE operations themselves are parameters (`FloatOps`, laws `FloatLaws`); what is proved is that
the *branching* of `ArithFunctions.run_minimumf/run_maximumf/run_cmpf` (hand model
`XdslModel/ArithFloatLogic.lean`, compared with the real functions on the float corpus by
`harness/props/c15.py`) implements IEEE-754-2019 minimum/maximum (NaN-propagating, −0 < +0) and
MLIR's 16-entry `arith.cmpf` predicate table.  No claim about the hardware float operations.
-/
namespace Xdsl.C15
open Xdsl.ArithFloatLogic
variable {F : Type}

/-- `arith.minimumf`: NaN if either operand is NaN, the smaller operand otherwise, `-0` below `+0`. -/
theorem run_minimumf_spec (O : FloatOps F) (L : FloatLaws O) (a b : F) :
    IsMinimum O a b (run_minimumf O a b) := by
  obtain ⟨pz1, pz2, pz3⟩ := L.pzero_spec
  obtain ⟨nz1, nz2, nz3⟩ := L.nzero_spec
  have ua := L.zero_unique a
  have ub := L.zero_unique b
  have as1 := L.lt_asymm a b
  have as2 := L.lt_asymm b a
  have zl1 := L.eq_not_lt a b
  have ze := L.zero_eq a b
  constructor
  · intro h
    simp [run_minimumf, h, L.nan_isNaN]
  all_goals
    intro hn
    simp only [run_minimumf, pyMin, below, hn]
    cases hza : O.isZero a <;> cases hzb : O.isZero b <;> cases hsa : O.signBit a <;>
      cases hsb : O.signBit b <;> cases hab : O.lt a b <;> cases hba : O.lt b a <;> simp_all

/-- `arith.maximumf`: NaN if either operand is NaN, the larger operand otherwise, `+0` above `-0`. -/
theorem run_maximumf_spec (O : FloatOps F) (L : FloatLaws O) (a b : F) :
    IsMaximum O a b (run_maximumf O a b) := by
  obtain ⟨pz1, pz2, pz3⟩ := L.pzero_spec
  obtain ⟨nz1, nz2, nz3⟩ := L.nzero_spec
  have ua := L.zero_unique a
  have ub := L.zero_unique b
  have as1 := L.lt_asymm a b
  have as2 := L.lt_asymm b a
  have zl1 := L.eq_not_lt a b
  have ze := L.zero_eq a b
  constructor
  · intro h
    simp [run_maximumf, h, L.nan_isNaN]
  all_goals
    intro hn
    simp only [run_maximumf, pyMax, below, hn]
    cases hza : O.isZero a <;> cases hzb : O.isZero b <;> cases hsa : O.signBit a <;>
      cases hsb : O.signBit b <;> cases hab : O.lt a b <;> cases hba : O.lt b a <;> simp_all

/-- `arith.cmpf`: for each of the 16 predicates the kernel returns the entry of MLIR's table
(`Sem.cmpfTable`: ordered predicates = relation holds; unordered predicates = relation holds or an
operand is NaN) computed from the three IEEE relations `x < y`, `x = y`, `x > y`; outside 0..15 both
are undefined (`InterpretationError`). -/
theorem run_cmpf_spec (O : FloatOps F) (L : FloatLaws O) (p : Int) (x y : F) :
    run_cmpf O p x y = Sem.cmpfTable p (O.lt x y) (O.eq x y) (O.lt y x) := by
  have l1 := L.nan_lt x y
  have l2 := L.nan_lt y x
  have l3 := L.nan_eq x y
  have l4 := L.tri x y
  have l5 := L.lt_asymm x y
  have l6 := L.eq_not_lt x y
  have d1 := L.le_def x y
  have d2 := L.le_def y x
  have l7 := L.eq_not_lt y x
  have l8 := L.nan_eq y x
  have l9 := L.tri y x
  -- the boolean content, once: `o`/`u` of the kernel vs. the table's `un`, and `!=`, `<=`, `>=`
  have hu : (O.isNaN x || O.isNaN y) = !(O.lt x y || O.eq x y || O.lt y x) := by
    cases hx : O.isNaN x <;> cases hy : O.isNaN y <;> cases hlt : O.lt x y <;> cases heq : O.eq x y <;>
      cases hgt : O.lt y x <;> simp_all
  have ho : (!O.isNaN x && !O.isNaN y) = (O.lt x y || O.eq x y || O.lt y x) := by
    cases hx : O.isNaN x <;> cases hy : O.isNaN y <;> cases hlt : O.lt x y <;> cases heq : O.eq x y <;>
      cases hgt : O.lt y x <;> simp_all
  have hqe : O.eq y x = O.eq x y := by
    cases hx : O.isNaN x <;> cases hy : O.isNaN y <;> cases hlt : O.lt x y <;> cases heq : O.eq x y <;>
      cases hgt : O.lt y x <;> cases hqe : O.eq y x <;> simp_all
  have excl : (O.lt x y && O.eq x y) = false ∧ (O.lt y x && O.eq x y) = false
      ∧ (O.lt x y && O.lt y x) = false := by
    cases hlt : O.lt x y <;> cases heq : O.eq x y <;> cases hgt : O.lt y x <;> simp_all
  simp only [run_cmpf, Sem.cmpfTable, d1, d2, hu, ho, hqe]
  clear l1 l2 l3 l4 l5 l6 l7 l8 l9 d1 d2 hu ho hqe
  revert excl
  generalize O.lt x y = lt
  generalize O.eq x y = eq
  generalize O.lt y x = gt
  intro excl
  by_cases hp : 0 ≤ p ∧ p ≤ 15
  · have : p = 0 ∨ p = 1 ∨ p = 2 ∨ p = 3 ∨ p = 4 ∨ p = 5 ∨ p = 6 ∨ p = 7 ∨ p = 8 ∨ p = 9 ∨ p = 10
        ∨ p = 11 ∨ p = 12 ∨ p = 13 ∨ p = 14 ∨ p = 15 := by omega
    rcases this with rfl | rfl | rfl | rfl | rfl | rfl | rfl | rfl | rfl | rfl | rfl | rfl | rfl | rfl
      | rfl | rfl <;> cases lt <;> cases eq <;> cases gt <;> simp_all
  · have h0 : p ≠ 0 ∧ p ≠ 1 ∧ p ≠ 2 ∧ p ≠ 3 ∧ p ≠ 4 ∧ p ≠ 5 ∧ p ≠ 6 ∧ p ≠ 7 ∧ p ≠ 8 ∧ p ≠ 9 ∧ p ≠ 10
        ∧ p ≠ 11 ∧ p ≠ 12 ∧ p ≠ 13 ∧ p ≠ 14 ∧ p ≠ 15 := by omega
    simp [h0]

/-- reading of the table: an *ordered* predicate (1..6) is false and an *unordered* one (8..13) true
as soon as an operand is NaN; `ord` (7) / `uno` (14) report exactly NaN-freeness. -/
theorem run_cmpf_nan (O : FloatOps F) (L : FloatLaws O) (p : Int) (x y : F)
    (h : (O.isNaN x || O.isNaN y) = true) :
    (1 ≤ p ∧ p ≤ 7 → run_cmpf O p x y = some false) ∧ (8 ≤ p ∧ p ≤ 14 → run_cmpf O p x y = some true) := by
  have l1 := L.nan_lt x y h
  have l2 := L.nan_lt y x (by simpa [Bool.or_comm] using h)
  have l3 := L.nan_eq x y h
  have l8 := L.nan_eq y x (by simpa [Bool.or_comm] using h)
  have d1 := L.le_def x y
  have d2 := L.le_def y x
  constructor
  · rintro ⟨h1, h2⟩
    have : p = 1 ∨ p = 2 ∨ p = 3 ∨ p = 4 ∨ p = 5 ∨ p = 6 ∨ p = 7 := by omega
    rcases this with rfl | rfl | rfl | rfl | rfl | rfl | rfl <;>
      cases hx : O.isNaN x <;> cases hy : O.isNaN y <;> simp_all [run_cmpf]
  · rintro ⟨h1, h2⟩
    have : p = 8 ∨ p = 9 ∨ p = 10 ∨ p = 11 ∨ p = 12 ∨ p = 13 ∨ p = 14 := by omega
    rcases this with rfl | rfl | rfl | rfl | rfl | rfl | rfl <;>
      cases hx : O.isNaN x <;> cases hy : O.isNaN y <;> simp_all [run_cmpf]

/-- non-vacuity: the laws are satisfiable (a five-element float type), and on it
`minimum(+0, -0) = -0`, `maximum(-0, +0) = +0`, `minimum(1, NaN) = NaN`, `une(NaN, 1)`. -/
example : FloatLaws toyOps := toyLaws
example : run_minimumf toyOps .pz .nz = .nz ∧ run_maximumf toyOps .nz .pz = .pz
    ∧ run_minimumf toyOps .p1 .nan = .nan ∧ run_cmpf toyOps 13 .nan .p1 = some true
    ∧ run_cmpf toyOps 1 .nz .pz = some true := by decide

/-! ### `addf`, `subf`, `mulf`: the result is rounded once to the result type

`rne ty x` is IEEE-754 roundTiesToEven of the binary64 value `x` into the format of `ty` (a
parameter, like the operations themselves; `RoundLaws` says how the packing primitives relate to it).
The statements: each kernel returns `rne ty` of the binary64 result of its operation — for a type
that binary64 does not exceed that is the binary64 result itself.  (That rounding the binary64
result equals rounding the exact result — innocuous double rounding for +, −, × when the target has
at most 25 significant bits — is a fact of IEEE arithmetic outside this model; the harness compares
with Lean's native `Float32` operations and an exact-integer rounding reference.) -/

variable {Ty : Type}

/-- `_round_to_float_type value ty = rne ty value` -/
theorem round_to_float_type_spec (R : RoundOps F Ty) (rne : Ty → F → F) (L : RoundLaws R rne)
    (value : F) (ty : Ty) : round_to_float_type R value ty = rne ty value := by
  unfold round_to_float_type
  cases hn : R.narrow ty with
  | false => simp [L.wide ty value hn]
  | true =>
    cases hp : R.repack ty value with
    | none => simp [L.repack_none ty value hn hp]
    | some r => simp [L.repack_some ty value r hn hp]

/-- `arith.addf`: the binary64 sum rounded to the result type. -/
theorem run_addf_rounds (R : RoundOps F Ty) (rne : Ty → F → F) (L : RoundLaws R rne) (ty : Ty) (a b : F) :
    run_addf R ty a b = rne ty (R.add a b) := round_to_float_type_spec R rne L _ ty

/-- `arith.subf`: the binary64 difference rounded to the result type. -/
theorem run_subf_rounds (R : RoundOps F Ty) (rne : Ty → F → F) (L : RoundLaws R rne) (ty : Ty) (a b : F) :
    run_subf R ty a b = rne ty (R.sub a b) := round_to_float_type_spec R rne L _ ty

/-- `arith.mulf`: the binary64 product rounded to the result type. -/
theorem run_mulf_rounds (R : RoundOps F Ty) (rne : Ty → F → F) (L : RoundLaws R rne) (ty : Ty) (a b : F) :
    run_mulf R ty a b = rne ty (R.mul a b) := round_to_float_type_spec R rne L _ ty

/-- on a type that is not narrower than binary64 (f64; also the index/integer-typed operands of the
pinned tests) the kernels return the Python result unchanged. -/
theorem run_addf_wide (R : RoundOps F Ty) (ty : Ty) (a b : F) (h : R.narrow ty = false) :
    run_addf R ty a b = R.add a b ∧ run_subf R ty a b = R.sub a b ∧ run_mulf R ty a b = R.mul a b := by
  simp [run_addf, run_subf, run_mulf, round_to_float_type, h]

/-- the result of a kernel on a narrow type is a value of that type or the overflow infinity: it is
never the unrounded binary64 result unless that is what re-packing returns (the repaired defect:
`addf 1.0, 16777216.0 : f32` returned 16777217.0). -/
theorem run_addf_narrow (R : RoundOps F Ty) (ty : Ty) (a b : F) (h : R.narrow ty = true) :
    R.repack ty (R.add a b) = some (run_addf R ty a b)
      ∨ (R.repack ty (R.add a b) = none ∧ run_addf R ty a b = R.copysignInf (R.add a b)) := by
  simp only [run_addf, round_to_float_type, h, if_true]
  cases R.repack ty (R.add a b) <;> simp

/-- non-vacuity: the laws are satisfiable, and on the toy instance a narrow sum beyond the range
overflows to the signed "infinity", an in-range one is kept, a wide one is untouched. -/
example : RoundLaws toyRound toyRne := toyRoundLaws
example : run_addf toyRound true 2 2 = 100 ∧ run_subf toyRound true (-2) 2 = -100
    ∧ run_mulf toyRound true 1 2 = 2 ∧ run_addf toyRound false 2 2 = 4 := by decide

end Xdsl.C15
