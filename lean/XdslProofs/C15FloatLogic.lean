import XdslProofs.Lemmas.ArithFloatLogic
import XdslModel.Sem
/-!
# C15 (extension) — decision logic of the float kernels `minimumf`, `maximumf`, `cmpf`

The IEEE operations themselves are parameters (`FloatOps`, laws `FloatLaws`); what is proved is that
the *branching* of `ArithFunctions.run_minimumf/run_maximumf/run_cmpf` (hand model
`XdslModel/ArithFloatLogic.lean`, compared with the real functions on the float corpus by
`harness/props/c15.py`) implements IEEE-754-2019 minimum/maximum (NaN-propagating, −0 < +0) and
MLIR's 16-entry `arith.cmpf` predicate table.  No claim about the hardware float operations.
-/
namespace Xdsl.C15
open Xdsl.ArithFloatLogic
variable {F : Type}

/-- `arith.minimumf`: NaN if either operand is NaN, the smaller operand otherwise, `-0` below `+0`. -/
theorem run_minimumf_spec (O : FloatOps F) (L : FloatLaws O) (a b : F) :
    IsMinimum O a b (run_minimumf O a b) := by
  obtain ⟨pz1, pz2, pz3⟩ := L.pzero_spec
  obtain ⟨nz1, nz2, nz3⟩ := L.nzero_spec
  have ua := L.zero_unique a
  have ub := L.zero_unique b
  have as1 := L.lt_asymm a b
  have as2 := L.lt_asymm b a
  have zl1 := L.eq_not_lt a b
  have ze := L.zero_eq a b
  constructor
  · intro h
    simp [run_minimumf, h, L.nan_isNaN]
  all_goals
    intro hn
    simp only [run_minimumf, pyMin, below, hn]
    cases hza : O.isZero a <;> cases hzb : O.isZero b <;> cases hsa : O.signBit a <;>
      cases hsb : O.signBit b <;> cases hab : O.lt a b <;> cases hba : O.lt b a <;> simp_all

/-- `arith.maximumf`: NaN if either operand is NaN, the larger operand otherwise, `+0` above `-0`. -/
theorem run_maximumf_spec (O : FloatOps F) (L : FloatLaws O) (a b : F) :
    IsMaximum O a b (run_maximumf O a b) := by
  obtain ⟨pz1, pz2, pz3⟩ := L.pzero_spec
  obtain ⟨nz1, nz2, nz3⟩ := L.nzero_spec
  have ua := L.zero_unique a
  have ub := L.zero_unique b
  have as1 := L.lt_asymm a b
  have as2 := L.lt_asymm b a
  have zl1 := L.eq_not_lt a b
  have ze := L.zero_eq a b
  constructor
  · intro h
    simp [run_maximumf, h, L.nan_isNaN]
  all_goals
    intro hn
    simp only [run_maximumf, pyMax, below, hn]
    cases hza : O.isZero a <;> cases hzb : O.isZero b <;> cases hsa : O.signBit a <;>
      cases hsb : O.signBit b <;> cases hab : O.lt a b <;> cases hba : O.lt b a <;> simp_all

/-- `arith.cmpf`: for each of the 16 predicates the kernel returns the entry of MLIR's table
(`Sem.cmpfTable`: ordered predicates = relation holds; unordered predicates = relation holds or an
operand is NaN) computed from the three IEEE relations `x < y`, `x = y`, `x > y`; outside 0..15 both
are undefined (`InterpretationError`). -/
theorem run_cmpf_spec (O : FloatOps F) (L : FloatLaws O) (p : Int) (x y : F) :
    run_cmpf O p x y = Sem.cmpfTable p (O.lt x y) (O.eq x y) (O.lt y x) := by
  have l1 := L.nan_lt x y
  have l2 := L.nan_lt y x
  have l3 := L.nan_eq x y
  have l4 := L.tri x y
  have l5 := L.lt_asymm x y
  have l6 := L.eq_not_lt x y
  have d1 := L.le_def x y
  have d2 := L.le_def y x
  have l7 := L.eq_not_lt y x
  have l8 := L.nan_eq y x
  have l9 := L.tri y x
  -- the boolean content, once: `o`/`u` of the kernel vs. the table's `un`, and `!=`, `<=`, `>=`
  have hu : (O.isNaN x || O.isNaN y) = !(O.lt x y || O.eq x y || O.lt y x) := by
    cases hx : O.isNaN x <;> cases hy : O.isNaN y <;> cases hlt : O.lt x y <;> cases heq : O.eq x y <;>
      cases hgt : O.lt y x <;> simp_all
  have ho : (!O.isNaN x && !O.isNaN y) = (O.lt x y || O.eq x y || O.lt y x) := by
    cases hx : O.isNaN x <;> cases hy : O.isNaN y <;> cases hlt : O.lt x y <;> cases heq : O.eq x y <;>
      cases hgt : O.lt y x <;> simp_all
  have hqe : O.eq y x = O.eq x y := by
    cases hx : O.isNaN x <;> cases hy : O.isNaN y <;> cases hlt : O.lt x y <;> cases heq : O.eq x y <;>
      cases hgt : O.lt y x <;> cases hqe : O.eq y x <;> simp_all
  have excl : (O.lt x y && O.eq x y) = false ∧ (O.lt y x && O.eq x y) = false
      ∧ (O.lt x y && O.lt y x) = false := by
    cases hlt : O.lt x y <;> cases heq : O.eq x y <;> cases hgt : O.lt y x <;> simp_all
  simp only [run_cmpf, Sem.cmpfTable, d1, d2, hu, ho, hqe]
  clear l1 l2 l3 l4 l5 l6 l7 l8 l9 d1 d2 hu ho hqe
  revert excl
  generalize O.lt x y = lt
  generalize O.eq x y = eq
  generalize O.lt y x = gt
  intro excl
  by_cases hp : 0 ≤ p ∧ p ≤ 15
  · have : p = 0 ∨ p = 1 ∨ p = 2 ∨ p = 3 ∨ p = 4 ∨ p = 5 ∨ p = 6 ∨ p = 7 ∨ p = 8 ∨ p = 9 ∨ p = 10
        ∨ p = 11 ∨ p = 12 ∨ p = 13 ∨ p = 14 ∨ p = 15 := by omega
    rcases this with rfl | rfl | rfl | rfl | rfl | rfl | rfl | rfl | rfl | rfl | rfl | rfl | rfl | rfl
      | rfl | rfl <;> cases lt <;> cases eq <;> cases gt <;> simp_all
  · have h0 : p ≠ 0 ∧ p ≠ 1 ∧ p ≠ 2 ∧ p ≠ 3 ∧ p ≠ 4 ∧ p ≠ 5 ∧ p ≠ 6 ∧ p ≠ 7 ∧ p ≠ 8 ∧ p ≠ 9 ∧ p ≠ 10
        ∧ p ≠ 11 ∧ p ≠ 12 ∧ p ≠ 13 ∧ p ≠ 14 ∧ p ≠ 15 := by omega
    simp [h0]

/-- reading of the table: an *ordered* predicate (1..6) is false and an *unordered* one (8..13) true
as soon as an operand is NaN; `ord` (7) / `uno` (14) report exactly NaN-freeness. -/
theorem run_cmpf_nan (O : FloatOps F) (L : FloatLaws O) (p : Int) (x y : F)
    (h : (O.isNaN x || O.isNaN y) = true) :
    (1 ≤ p ∧ p ≤ 7 → run_cmpf O p x y = some false) ∧ (8 ≤ p ∧ p ≤ 14 → run_cmpf O p x y = some true) := by
  have l1 := L.nan_lt x y h
  have l2 := L.nan_lt y x (by simpa [Bool.or_comm] using h)
  have l3 := L.nan_eq x y h
  have l8 := L.nan_eq y x (by simpa [Bool.or_comm] using h)
  have d1 := L.le_def x y
  have d2 := L.le_def y x
  constructor
  · rintro ⟨h1, h2⟩
    have : p = 1 ∨ p = 2 ∨ p = 3 ∨ p = 4 ∨ p = 5 ∨ p = 6 ∨ p = 7 := by omega
    rcases this with rfl | rfl | rfl | rfl | rfl | rfl | rfl <;>
      cases hx : O.isNaN x <;> cases hy : O.isNaN y <;> simp_all [run_cmpf]
  · rintro ⟨h1, h2⟩
    have : p = 8 ∨ p = 9 ∨ p = 10 ∨ p = 11 ∨ p = 12 ∨ p = 13 ∨ p = 14 := by omega
    rcases this with rfl | rfl | rfl | rfl | rfl | rfl | rfl <;>
      cases hx : O.isNaN x <;> cases hy : O.isNaN y <;> simp_all [run_cmpf]

/-- non-vacuity: the laws are satisfiable (a five-element float type), and on it
`minimum(+0, -0) = -0`, `maximum(-0, +0) = +0`, `minimum(1, NaN) = NaN`, `une(NaN, 1)`. -/
example : FloatLaws toyOps := toyLaws
example : run_minimumf toyOps .pz .nz = .nz ∧ run_maximumf toyOps .nz .pz = .pz
    ∧ run_minimumf toyOps .p1 .nan = .nan ∧ run_cmpf toyOps 13 .nan .p1 = some true
    ∧ run_cmpf toyOps 1 .nz .pz = some true := by decide

end Xdsl.C15
