import XdslModel.Loops
import XdslProofs.Lemmas.Loops
import XdslProofs.Lemmas.AL
/-!
C16 — "The semantics-preserving structural transformations (structured-to-unstructured control flow
conversion, affine lowering, loop range folding, flattening and unrolling, loop-invariant code
motion, control-flow hoisting and symref elimination) turn every valid program they accept into one
that returns the same results and performs the same effects, in the same order, for every input."

Theorems on the model `XdslModel/Loops.lean`.  A loop body is an arbitrary partial state
transformer `Int → σ → Option σ` (`σ` = loop-carried values + effect log, `none` = undefined), so
every equation below is "same results and same effects in the same order, or both undefined", for
all bounds, steps, bodies and initial states.  The passes as run are tied to these cores by
correspondence and by translation validation (harness/props/c16.py).
-/
namespace Xdsl.C16
open Xdsl.Loops

/-! ## `for` semantics = iteration over `tripCount` -/

/-- "loops with constant and symbolic bounds and steps (including zero-trip and negative ranges)":
the operational loop (test, body, increment — `Sem.runFor`) is the iteration of the body over the
first `tripCount lb ub step` induction values, for every amount of fuel that suffices. -/
theorem forRun_eq_forLoop {σ : Type} (ub step : Int) (hs : 0 < step) (body : Int → σ → Option σ) :
    ∀ (fuel : Nat) (lb : Int) (s : σ), tripCount lb ub step < fuel →
      forRun ub step body fuel lb s = forLoop lb ub step body s := by
  intro fuel
  induction fuel with
  | zero => intro lb s h; omega
  | succ f ih =>
    intro lb s h
    simp only [forRun]
    by_cases hlt : lb < ub
    · rw [if_pos hlt, forLoop_unfold hs hlt]
      congr 1; funext s'
      apply ih
      rw [tripCount_succ hs hlt] at h; omega
    · rw [if_neg hlt, forLoop_zero_trip hs hlt]

/-- zero-trip and negative ranges: nothing is executed -/
theorem for_zero_trip {σ : Type} (lb ub step : Int) (hs : 0 < step) (h : ub ≤ lb)
    (body : Int → σ → Option σ) (s : σ) : forLoop lb ub step body s = some s :=
  forLoop_zero_trip hs (by omega) body s

example : forLoop 0 5 2 logBody [] = some [0, 2, 4] := by decide
example : forLoop 3 (-2) 1 logBody [] = some [] := by decide
example : forRun 5 2 logBody 4 0 [] = some [0, 2, 4] := by decide

/-! ## range folding -/

theorem tripCount_add (lb ub step c : Int) : tripCount (lb + c) (ub + c) step = tripCount lb ub step := by
  unfold tripCount
  have e : ub + c - (lb + c) - 1 = ub - lb - 1 := by omega
  rw [e]
  by_cases h : lb < ub ∧ 0 < step
  · rw [if_pos h, if_pos ⟨by omega, h.2⟩]
  · rw [if_neg h, if_neg (fun hh => h ⟨by omega, hh.2⟩)]

/-- "loop range folding": `for i in [lb,ub) step s { body (i + c) }` = `for i in [lb+c, ub+c) step s
{ body i }`, for every `c` (constant or symbolic). -/
theorem range_fold_add {σ : Type} (lb ub step c : Int) (body : Int → σ → Option σ) (s : σ) :
    forLoop (lb + c) (ub + c) step body s = forLoop lb ub step (fun i => body (i + c)) s := by
  unfold forLoop
  split
  · rfl
  · rw [tripCount_add, ivs_add, iter_map]

theorem tripCount_mul (lb ub step c : Int) (hc : 0 < c) :
    tripCount (lb * c) (ub * c) (step * c) = tripCount lb ub step := by
  by_cases hs : 0 < step
  · have hsc : 0 < step * c := Int.mul_pos hs hc
    generalize hn : tripCount lb ub step = n
    induction n generalizing lb with
    | zero =>
      have : ¬ lb < ub := (tripCount_eq_zero_iff hs).1 hn
      apply tripCount_of_not_lt
      have : ub * c ≤ lb * c := Int.mul_le_mul_of_nonneg_right (by omega) (by omega)
      omega
    | succ n ih =>
      have hlt : lb < ub := by
        apply Classical.byContradiction; intro h
        rw [tripCount_of_not_lt h] at hn; omega
      have hlt' : lb * c < ub * c := Int.mul_lt_mul_of_pos_right hlt hc
      rw [tripCount_succ hsc hlt', ← Int.add_mul]
      rw [tripCount_succ hs hlt] at hn
      rw [ih (lb + step) (by omega)]
  · have : step * c ≤ 0 := Int.mul_nonpos_of_nonpos_of_nonneg (by omega) (by omega)
    rw [tripCount_of_step_nonpos this, tripCount_of_step_nonpos (by omega)]

/-- `range_fold_mul`: for a factor `c > 0`, `for i in [lb,ub) step s { body (i * c) }` =
`for i in [lb*c, ub*c) step s*c { body i }` (including step ≤ 0: both undefined). -/
theorem range_fold_mul {σ : Type} (lb ub step c : Int) (hc : 0 < c) (body : Int → σ → Option σ) (s : σ) :
    forLoop (lb * c) (ub * c) (step * c) body s = forLoop lb ub step (fun i => body (i * c)) s := by
  unfold forLoop
  by_cases hs : step ≤ 0
  · have : step * c ≤ 0 := Int.mul_nonpos_of_nonpos_of_nonneg hs (by omega)
    rw [if_pos this, if_pos hs]
  · have : ¬ step * c ≤ 0 := by
      have := Int.mul_pos (show 0 < step by omega) hc
      omega
    rw [if_neg this, if_neg hs, tripCount_mul _ _ _ _ hc, ivs_mul, iter_map]

/-- the sign hypothesis is needed: with `c = 0` the folded loop has step 0 (undefined) while the
source runs; with `c < 0` the folded loop has a negative step.  (What the unfixed pass did.) -/
theorem range_fold_mul_counterexample :
    forLoop (0 * 0) (3 * 0) (1 * 0) logBody [] ≠ forLoop 0 3 1 (fun i => logBody (i * 0)) []
    ∧ forLoop (0 * -1) (3 * -1) (1 * -1) logBody [] ≠ forLoop 0 3 1 (fun i => logBody (i * -1)) [] := by
  decide

/-- the pass step as modelled (`foldStep`, fixed code: `muli` only by a constant > 0; `addi` by any
loop-invariant value `v`): whenever it folds, the loop over the new bounds with the use replaced by
the induction variable behaves like the original loop. -/
theorem foldStep_sound {σ : Type} (op : FoldOp) (lb ub step : Int) (c : Option Int) (v : Int)
    (hv : ∀ k, c = some k → v = k) (lb' ub' step' : Int)
    (h : foldStep op lb ub step c v = some (lb', ub', step')) (body : Int → σ → Option σ) (s : σ) :
    forLoop lb' ub' step' body s = forLoop lb ub step (fun i => body (op.apply i v)) s := by
  cases op with
  | add =>
    simp only [foldStep, Option.some.injEq, Prod.mk.injEq] at h
    obtain ⟨rfl, rfl, rfl⟩ := h
    exact range_fold_add lb ub step v body s
  | mul =>
    cases c with
    | none => simp [foldStep] at h
    | some k =>
      have hk := hv k rfl
      subst hk
      simp only [foldStep] at h
      split at h
      · rename_i hpos
        simp only [Option.some.injEq, Prod.mk.injEq] at h
        obtain ⟨rfl, rfl, rfl⟩ := h
        exact range_fold_mul lb ub step v hpos body s
      · simp at h

example : foldStep .mul 1 5 2 (some 3) 3 = some (3, 15, 6) := by decide
example : foldStep .mul 1 5 2 (some 0) 0 = none := by decide
example : foldStep .mul 1 5 2 none 7 = none := by decide

/-! ## full unrolling -/

theorem pyRangeLen_eq_tripCount (lb ub step : Int) (hs : 0 < step) :
    pyRangeLen lb ub step = tripCount lb ub step := by
  unfold pyRangeLen tripCount
  rw [if_pos hs]
  by_cases h : lb < ub
  · rw [if_pos h, if_pos ⟨h, hs⟩]
  · rw [if_neg h, if_neg (fun hh => h hh.1)]

theorem seqRun_map {σ : Type} (body : Int → σ → Option σ) (l : List Int) (s : σ) :
    seqRun (l.map body) s = iter body l s := by
  induction l generalizing s with
  | nil => rfl
  | cons a r ih =>
    simp only [List.map, seqRun, iter]
    congr 1; funext s'; exact ih s'

/-- "unrolling": the sequence of body copies emitted for Python's `range(lb, ub, step)` (one per
element, induction variable replaced by the constant) behaves like the loop, for every positive
step — including the zero-trip case, where nothing is emitted. -/
theorem unroll_sound {σ : Type} (lb ub step : Int) (hs : 0 < step) (body : Int → σ → Option σ) (s : σ) :
    seqRun (unrolled lb ub step body) s = forLoop lb ub step body s := by
  unfold unrolled pyRange
  rw [seqRun_map, pyRangeLen_eq_tripCount _ _ _ hs, forLoop_pos hs]

theorem unroll_zero_trip {σ : Type} (lb ub step : Int) (hs : 0 < step) (h : ub ≤ lb)
    (body : Int → σ → Option σ) : unrolled lb ub step body = [] := by
  unfold unrolled pyRange
  rw [pyRangeLen_eq_tripCount _ _ _ hs, tripCount_of_not_lt (by omega)]; rfl

example : pyRange 0 7 3 = [0, 3, 6] := by decide
example : pyRange 4 4 1 = [] := by decide

/-! ## scf.for → cf -/

theorem cfRun_exit {σ : Type} (ub step : Int) (body : Int → σ → Option σ) (n : Nat) (i : Int) (s : σ) :
    cfRun ub step body n ⟨.exit, i, s⟩ = some ⟨.exit, i, s⟩ := by
  induction n with
  | zero => rfl
  | succ n ih => simp only [cfRun, cfStep, Option.bind_some]; exact ih

/-- "structured-to-unstructured control flow conversion": the header/body/exit CFG built by
`ForLowering` (header: compare and branch; body: loop body, increment, branch back) reaches its exit
block after `2 * tripCount + 1` steps — and stays there — with exactly the state the structured
loop produces; it is undefined exactly when the loop is.  Proved by the loop invariant
"at the header with induction value `lb + k*step` the state is that of the first `k` iterations". -/
theorem for_to_cf_sound {σ : Type} (ub step : Int) (hs : 0 < step) (body : Int → σ → Option σ) :
    ∀ (k : Nat) (lb : Int) (s : σ) (n : Nat), tripCount lb ub step = k → 2 * k + 1 ≤ n →
      (cfRun ub step body n ⟨.header, lb, s⟩).map (fun c => (c.pc, c.st))
        = (forLoop lb ub step body s).map (fun s' => (PC.exit, s')) := by
  intro k
  induction k with
  | zero =>
    intro lb s n hk hn
    have hlt : ¬ lb < ub := (tripCount_eq_zero_iff hs).1 hk
    obtain ⟨m, rfl⟩ : ∃ m, n = m + 1 := ⟨n - 1, by omega⟩
    rw [forLoop_zero_trip hs hlt]
    simp only [cfRun, cfStep, if_neg hlt, Option.bind_some, cfRun_exit, Option.map_some]
  | succ k ih =>
    intro lb s n hk hn
    have hlt : lb < ub := by
      apply Classical.byContradiction; intro h
      rw [tripCount_of_not_lt h] at hk; omega
    obtain ⟨m, rfl⟩ : ∃ m, n = m + 2 := ⟨n - 2, by omega⟩
    rw [forLoop_unfold hs hlt]
    simp only [cfRun, cfStep, if_pos hlt, Option.bind_some]
    cases hb : body lb s with
    | none => simp
    | some s' =>
      simp only [Option.map_some, Option.bind_some]
      apply ih
      · rw [tripCount_succ hs hlt] at hk; omega
      · omega

example : (cfRun 5 2 logBody 7 ⟨.header, 0, []⟩).map (fun c => (c.pc, c.st)) = some (.exit, [0, 2, 4]) := by decide

/-! ## loop-invariant code motion -/

/-- "loop-invariant code motion … loop-invariant and loop-variant operations": a side-effect-free
computation `e` on values defined outside the loop may be evaluated once in front of the loop if it
is total (speculatable, `e.isSome`) — then also for zero-trip loops — or if the loop runs at least
once.  `pre`/`post` are the (possibly effectful, loop-variant) parts of the body before and after. -/
theorem licm_sound {σ α : Type} (lb ub step : Int) (e : Option α) (pre : Int → σ → Option σ)
    (post : α → Int → σ → Option σ) (s : σ) (h : e.isSome ∨ 0 < tripCount lb ub step) :
    loopWithInv lb ub step e pre post s = loopHoisted lb ub step e pre post s := by
  unfold loopWithInv loopHoisted
  cases e with
  | some v => simp
  | none =>
    simp only [Option.bind_none]
    by_cases hs : step ≤ 0
    · exact forLoop_nonpos hs _ _
    · have hs' : 0 < step := by omega
      have hpos : 0 < tripCount lb ub step := by
        cases h with
        | inl h => simp at h
        | inr h => exact h
      have hlt : lb < ub := by
        apply Classical.byContradiction; intro hh
        rw [tripCount_of_not_lt hh] at hpos; omega
      rw [forLoop_unfold hs' hlt]
      cases pre lb s <;> rfl

/-- a computation that may be undefined (e.g. a division by a possibly-zero value: not
speculatable) must not be hoisted out of a zero-trip loop: the source is defined, the target is not. -/
theorem licm_counterexample :
    loopWithInv 0 0 1 (none : Option Int) (fun _ s => some s) (fun v i s => logBody (v + i) s) []
      ≠ loopHoisted 0 0 1 (none : Option Int) (fun _ s => some s) (fun v i s => logBody (v + i) s) [] := by
  decide

/-- nor may an effectful operation: hoisted out of a zero-trip loop its effect appears once instead
of never (and out of a two-trip loop once instead of twice). -/
theorem licm_effect_counterexample :
    forLoop 0 0 1 (fun _ s => logBody 7 s) [] ≠ (logBody 7 []).bind (forLoop 0 0 1 (fun _ s => some s))
    ∧ forLoop 0 2 1 (fun _ s => logBody 7 s) [] ≠ (logBody 7 []).bind (forLoop 0 2 1 (fun _ s => some s)) := by
  decide

/-! ## control-flow hoisting -/

/-- "control-flow hoisting": the side-effect-free computations of both branches may be evaluated in
front of the conditional when each is total on the path where it was not evaluated before
(speculatable ops: always). -/
theorem hoist_if_sound {σ α β : Type} (c : Bool) (e1 : Option α) (e2 : Option β) (k1 : α → σ → Option σ)
    (k2 : β → σ → Option σ) (s : σ) (h1 : c = false → e1.isSome) (h2 : c = true → e2.isSome) :
    ifWithOps c e1 e2 k1 k2 s = ifHoisted c e1 e2 k1 k2 s := by
  unfold ifWithOps ifHoisted
  cases c <;> cases e1 <;> cases e2 <;> simp_all

theorem hoist_if_counterexample :
    ifWithOps true (some 1) (none : Option Int) (fun v s => logBody v s) (fun v s => logBody v s) []
      ≠ ifHoisted true (some 1) (none : Option Int) (fun v s => logBody v s) (fun v s => logBody v s) [] := by
  decide

end Xdsl.C16
