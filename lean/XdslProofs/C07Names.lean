import XdslModel.ValueNames
/-!
# C07 — parsing fails only with diagnostics (name hints of values and blocks)

"… either returns IR or reports a parse or verification diagnostic; it never … escapes with an
internal error such as a ValueError …"

Every SSA value and block the parser creates gets its textual name as `name_hint` through a setter
that raises `ValueError` on names it does not like; the parser asks `is_valid_name` first.
`XdslModel/ValueNames.lean` models the guard, the setter and the suffix stripping, with the
`ValueError` as an explicit outcome.  For every identifier (every list of code points):

* `valueHint_no_error`, `blockHint_no_error` — the guarded setter never raises: the outcome of the
  four parser sites is a hint or no hint;
* `strip_prefix` / `stripped_prefix` — the hint is an initial part of the name (only trailing
  `_<digits>` groups are removed), so `stripped_valid_or_empty`: it is empty or again a valid name;
* `valueHint_cases` — the three possible outcomes, in terms of the name.

Tied to `/repo` by parsing every identifier shape (all strings over a letter, a digit, `_`, `$`, `.`,
`-` up to length 3, sampled beyond) as a result name and as a block label and comparing the
`name_hint` of the parsed value / block with the model (`harness/props/c07.py`, stream `ident`).
-/
namespace Xdsl.ValueNames

/-- the setter raises only on names the guard rejects -/
theorem setHint_error_iff (name : List Nat) : setHint name = .valueError ↔ validName name = false := by
  unfold setHint
  cases validName name <;> simp

/-- "never escapes with … a ValueError": result / argument names -/
theorem valueHint_no_error (name : List Nat) : valueHint name ≠ .valueError := by
  unfold valueHint setHint
  cases h : validName name <;> simp

/-- "never escapes with … a ValueError": block labels and successor references -/
theorem blockHint_no_error (name : List Nat) : blockHint name ≠ .valueError := by
  unfold blockHint setHint
  cases validName name <;> cases isDefaultBlockName name <;> simp

/-- what `strip` returns ends the list it was given: `acc ++ cs = dropped ++ result` -/
theorem strip_suffix (acc cs : List Nat) : ∃ d, acc ++ cs = d ++ strip acc cs := by
  induction cs generalizing acc with
  | nil => exact ⟨[], by simp [strip]⟩
  | cons c cs ih =>
    unfold strip
    split
    · obtain ⟨d, hd⟩ := ih (acc ++ [c])
      exact ⟨d, by simpa using hd⟩
    · split
      · obtain ⟨d, hd⟩ := ih []
        refine ⟨acc ++ c :: d, ?_⟩
        rw [List.nil_append] at hd
        rw [List.append_assoc, List.cons_append, ← hd]
      · exact ⟨[], by simp⟩

/-- the hint is an initial part of the name -/
theorem stripped_prefix (name : List Nat) : ∃ t, name = stripped name ++ t := by
  obtain ⟨d, hd⟩ := strip_suffix [] name.reverse
  refine ⟨d.reverse, ?_⟩
  have := congrArg List.reverse hd
  simpa [stripped] using this

/-- an initial part of a valid name is empty or valid -/
theorem validName_prefix (p t : List Nat) (h : validName (p ++ t) = true) : p = [] ∨ validName p = true := by
  cases p with
  | nil => exact Or.inl rfl
  | cons c cs =>
    right
    simp [validName, List.all_append] at h ⊢
    exact ⟨h.1, h.2.1⟩

/-- the stored hint is empty (treated as "no hint" by the printer) or a valid name -/
theorem stripped_valid_or_empty (name : List Nat) (h : validName name = true) :
    stripped name = [] ∨ validName (stripped name) = true := by
  obtain ⟨t, ht⟩ := stripped_prefix name
  rw [ht] at h
  exact validName_prefix _ _ h

/-- the outcomes of `_register_ssa_definition` in terms of the name -/
theorem valueHint_cases (name : List Nat) :
    (validName name = false ∧ valueHint name = .hint none) ∨
    (validName name = true ∧ valueHint name = .hint (some (stripped name))) := by
  unfold valueHint setHint
  cases validName name <;> simp

/-! Non-vacuity: the boundary names. -/
-- `%_1`: valid, every character belongs to the suffix: the hint is the empty string
example : valueHint [95, 49] = .hint (some []) := by decide
-- `%_2_3`
example : valueHint [95, 50, 95, 51] = .hint (some []) := by decide
-- `%a_1_22` → `a`
example : valueHint [97, 95, 49, 95, 50, 50] = .hint (some [97]) := by decide
-- `%a1_2` → `a1`; `%a_` and `%a_1x` keep everything
example : valueHint [97, 49, 95, 50] = .hint (some [97, 49]) := by decide
example : valueHint [97, 95] = .hint (some [97, 95]) := by decide
example : valueHint [97, 95, 49, 120] = .hint (some [97, 95, 49, 120]) := by decide
-- `%0`: not a valid hint, no setter call
example : valueHint [48] = .hint none := by decide
-- `^bb0` keeps no hint, `^_7` the empty one, `^bb0x` its name
example : blockHint [98, 98, 48] = .hint none := by decide
example : blockHint [95, 55] = .hint (some []) := by decide
example : blockHint [98, 98, 48, 120] = .hint (some [98, 98, 48, 120]) := by decide
-- the setter alone does raise (on what the guard keeps away)
example : setHint [48] = .valueError := by decide

end Xdsl.ValueNames
