import XdslProofs.C28
import XdslProofs.Lemmas.DisjointSet
/-!
# C28 — e-class merging on the union-find (`EqsatPDLInterpFunctions.eclass_union`)

`eclassUnion e a b` looks both class handles up in the `DisjointSet` (they may be *stale*: classes
that were replaced by an earlier merge); a constant class (`equivalence.const_class`) is always kept
and made the representative (`union_left`), two plain classes are united by size and the class that
the union-find made the new representative is kept; the other class is merged into the kept one.  Using the C12
theorems about `IntDisjointSet` (`find_spec`, `union_spec`): if the two handles have equal values —
what a sound rule establishes — the graph stays consistent whichever class is kept, and the
union-find keeps mapping every handle ever handed out to a class with the same value.
(Separate module because the C12 lemmas import Mathlib.)
-/
namespace Xdsl.EGraph
open Xdsl.DisjointSet

variable {V : Type}

/-- the union-find is a well-formed forest over exactly the registered class handles -/
structure EGInv (e : EG) : Prop where
  inv : Inv e.uf
  size : e.uf.size = e.vals.length

/-- every handle ever registered has the value of the class that currently represents it -/
def UFSound (e : EG) (ρ : Nat → V) : Prop :=
  ∀ i, i < e.vals.length → ρ (e.vals.getD i 0) = ρ (e.vals.getD (root e.uf i) 0)

theorem indexOf_spec {e : EG} {c i : Nat} (h : e.indexOf c = some i) :
    i < e.vals.length ∧ e.vals.getD i 0 = c := by
  unfold EG.indexOf at h
  obtain ⟨hi, hp, _⟩ := List.findIdx?_eq_some_iff_getElem.mp h
  refine ⟨hi, ?_⟩
  simp only [decide_eq_true_eq] at hp
  rw [List.getD_eq_getElem?_getD, List.getElem?_eq_getElem hi]
  exact hp

/-- `populate_known_ops` starts from singletons -/
theorem ofProg_inv (g : Prog) : EGInv (EG.ofProg g) ∧ ∀ ρ : Nat → V, UFSound (EG.ofProg g) ρ := by
  refine ⟨⟨init_inv _, by simp [EG.ofProg, init_size]⟩, ?_⟩
  intro ρ i _
  simp [EG.ofProg, init_root]

/-- **eclassUnion_preserves_consistency** — merging through the union-find, with possibly stale
handles `a`, `b` that have equal values: consistency, the values of the roots, the forest invariant
and the handle-to-class soundness are all preserved; the call never raises for registered handles. -/
theorem eclassUnion_preserves_consistency (I : Interp V) {env : List V} {ρ : Nat → V} {e : EG} {a b ia ib : Nat}
    (hi : EGInv e) (hs : UFSound e ρ) (hc : Consistent I e.prog env ρ)
    (ha : e.indexOf a = some ia) (hb : e.indexOf b = some ib) (hab : ρ a = ρ b) :
    ∃ e' r, eclassUnion e a b = some (e', r) ∧ Consistent I e'.prog env ρ
      ∧ e'.prog.ret.map ρ = e.prog.ret.map ρ ∧ EGInv e' ∧ UFSound e' ρ ∧ e'.vals = e.vals := by
  obtain ⟨hia, hva⟩ := indexOf_spec ha
  obtain ⟨hib, hvb⟩ := indexOf_spec hb
  have hia' : ia < e.uf.size := hi.size ▸ hia
  have hib' : ib < e.uf.size := hi.size ▸ hib
  obtain ⟨u1, e1, i1, s1, _, r1, _⟩ := find_spec e.uf hi.inv hia'
  obtain ⟨u2, e2, i2, s2, _, r2, _⟩ := find_spec u1 i1 (s1 ▸ hib')
  have hr2 : ∀ i, root u2 i = root e.uf i := fun i => (r2 i).trans (r1 i)
  have hs2 : u2.size = e.uf.size := s2.trans s1
  have hrb : root u1 ib = root e.uf ib := r1 ib
  -- values of the two representatives
  have hρa : ρ (e.vals.getD (root e.uf ia) 0) = ρ a := by rw [← hs ia hia, hva]
  have hρb : ρ (e.vals.getD (root e.uf ib) 0) = ρ b := by rw [← hs ib hib, hvb]
  unfold eclassUnion
  rw [ha, hb]
  simp only [e1, e2, hrb]
  by_cases heq : root e.uf ia = root e.uf ib
  · simp only [heq, if_true]
    refine ⟨_, false, rfl, hc, rfl, ⟨i2, hs2.trans hi.size⟩, ?_, rfl⟩
    intro i hi'
    show ρ (e.vals.getD i 0) = ρ (e.vals.getD (root u2 i) 0)
    rw [hr2]; exact hs i hi'
  · simp only [heq, if_false]
    have hra : root e.uf ia < u2.size := hs2 ▸ root_lt e.uf hi.inv hia'
    have hrb' : root e.uf ib < u2.size := hs2 ▸ root_lt e.uf hi.inv hib'
    have hrra : root u2 (root e.uf ia) = root e.uf ia := by rw [hr2, root_idem e.uf hi.inv]
    have hrrb : root u2 (root e.uf ib) = root e.uf ib := by rw [hr2, root_idem e.uf hi.inv]
    have hval : ρ (e.vals.getD (root e.uf ia) 0) = ρ (e.vals.getD (root e.uf ib) 0) := by
      rw [hρa, hρb, hab]
    -- the two orientations in which a representative absorbs the other class
    have keepA : ∀ u3, DisjointSet.Inv u3 → u3.size = u2.size →
        (∀ i, root u3 i = if root u2 i = root e.uf ib then root e.uf ia else root u2 i) →
        let e' : EG := { e with uf := u3, prog := mergeInto e.prog (e.vals.getD (root e.uf ia) 0) (e.vals.getD (root e.uf ib) 0) }
        Consistent I e'.prog env ρ ∧ e'.prog.ret.map ρ = e.prog.ret.map ρ ∧ EGInv e' ∧ UFSound e' ρ ∧ e'.vals = e.vals := by
      intro u3 i3 s3 r3
      obtain ⟨c', rr⟩ := mergeInto_keeps I (keep := e.vals.getD (root e.uf ia) 0)
        (repl := e.vals.getD (root e.uf ib) 0) hc hval
      refine ⟨c', rr, ⟨i3, (s3.trans hs2).trans hi.size⟩, ?_, rfl⟩
      intro i hi'
      show ρ (e.vals.getD i 0) = ρ (e.vals.getD (root u3 i) 0)
      rw [r3, hr2]
      split
      · rename_i h'; rw [hs i hi', h', hval]
      · exact hs i hi'
    have keepB : ∀ u3, DisjointSet.Inv u3 → u3.size = u2.size →
        (∀ i, root u3 i = if root u2 i = root e.uf ia then root e.uf ib else root u2 i) →
        let e' : EG := { e with uf := u3, prog := mergeInto e.prog (e.vals.getD (root e.uf ib) 0) (e.vals.getD (root e.uf ia) 0) }
        Consistent I e'.prog env ρ ∧ e'.prog.ret.map ρ = e.prog.ret.map ρ ∧ EGInv e' ∧ UFSound e' ρ ∧ e'.vals = e.vals := by
      intro u3 i3 s3 r3
      obtain ⟨c', rr⟩ := mergeInto_keeps I (keep := e.vals.getD (root e.uf ib) 0)
        (repl := e.vals.getD (root e.uf ia) 0) hc hval.symm
      refine ⟨c', rr, ⟨i3, (s3.trans hs2).trans hi.size⟩, ?_, rfl⟩
      intro i hi'
      show ρ (e.vals.getD i 0) = ρ (e.vals.getD (root u3 i) 0)
      rw [r3, hr2]
      split
      · rename_i h'; rw [hs i hi', h', hval]
      · exact hs i hi'
    split
    · -- `a`'s representative is a constant class: `union_left(a, b)`
      obtain ⟨u3, e3, i3, s3, r3, _⟩ := unionLeft_spec u2 i2 hra hrb'
      rw [hrra, hrrb] at e3 r3
      simp only [e3]
      exact ⟨_, true, rfl, keepA u3 i3 s3 r3⟩
    · split
      · -- `b`'s representative is a constant class: `union_left(b, a)`
        obtain ⟨u3, e3, i3, s3, r3, _⟩ := unionLeft_spec u2 i2 hrb' hra
        rw [hrra, hrrb] at e3 r3
        simp only [e3]
        exact ⟨_, true, rfl, keepB u3 i3 s3 r3⟩
      · -- two plain classes: union by size, the new representative is kept
        obtain ⟨u3, e3, i3, s3, r3, _⟩ := union_spec u2 i2 hra hrb'
        rw [hrra, hrrb] at e3 r3
        obtain ⟨u4, e4, i4, s4, _, r4, _⟩ := find_spec u3 i3 (s3 ▸ hra)
        simp only [e3, e4]
        rcases r3 with r3 | r3
        · have hk : root u3 (root e.uf ia) = root e.uf ia := by rw [r3, hrra, if_neg heq]
          simp only [hk, if_true]
          exact ⟨_, true, rfl, keepA u4 i4 (s4.trans s3) (fun i => (r4 i).trans (r3 i))⟩
        · have hk : root u3 (root e.uf ia) = root e.uf ib := by rw [r3, hrra, if_pos rfl]
          have hne : ¬ (root e.uf ib = root e.uf ia) := fun h' => heq h'.symm
          simp only [hk, hne, if_false]
          exact ⟨_, true, rfl, keepB u4 i4 (s4.trans s3) (fun i => (r4 i).trans (r3 i))⟩

end Xdsl.EGraph
