import XdslProofs.C15
import XdslProofs.Lemmas.SemInt
import XdslModel.Generated.ArithInterp
/-!
# C15 ↔ reference semantics: the interpreter kernels compute what the program-level oracle executes

`XdslProofs/C15.lean` states the meaning of every translated kernel `run_*` of
`xdsl/interpreters/arith.py` against `BitVec` operations written out in the theorem statements.  The
program-level checks (C13, C14, C16, C28) compare the real interpreter / real passes against
`Sem.run`, whose integer operations are `Sem.intBin` and `Sem.cmpi`.  This file proves that these are
the *same* definitions: for each of the 11 translated binary kernels, `Sem.intBin "<op>"` applied to
the bit patterns of the operands returns the bit pattern of the kernel's result (and classifies as
`ub` exactly the inputs excluded by the C15 theorems or more), and `Sem.cmpi` is C15's `bvcmp`.

`w` is the type's bit width, `a b` arbitrary Python ints (any representative of the operands).
-/
namespace Xdsl.C15Sem
open Xdsl.Generated.Comparisons Xdsl.Generated.ArithInterp Xdsl.Sem Xdsl.SemMeta Xdsl.C15

/-! ## kernels without undefined inputs -/

theorem intBin_addi_run (w : Nat) (a b : Int) :
    intBin "arith.addi" (BitVec.ofInt w a) (BitVec.ofInt w b) = .val (BitVec.ofInt w (run_addi w a b)) := by
  rw [intBin_addi, (run_addi_spec w a b).1]

theorem intBin_subi_run (w : Nat) (a b : Int) :
    intBin "arith.subi" (BitVec.ofInt w a) (BitVec.ofInt w b) = .val (BitVec.ofInt w (run_subi w a b)) := by
  rw [intBin_subi, (run_subi_spec w a b).1]

theorem intBin_muli_run (w : Nat) (a b : Int) :
    intBin "arith.muli" (BitVec.ofInt w a) (BitVec.ofInt w b) = .val (BitVec.ofInt w (run_muli w a b)) := by
  rw [intBin_muli, (run_muli_spec w a b).1]

theorem intBin_andi_run (w : Nat) (a b : Int) :
    intBin "arith.andi" (BitVec.ofInt w a) (BitVec.ofInt w b) = .val (BitVec.ofInt w (run_andi w a b)) := by
  rw [intBin_andi, (run_andi_spec w a b).1]

theorem intBin_ori_run (w : Nat) (a b : Int) :
    intBin "arith.ori" (BitVec.ofInt w a) (BitVec.ofInt w b) = .val (BitVec.ofInt w (run_ori w a b)) := by
  rw [intBin_ori, (run_ori_spec w a b).1]

theorem intBin_xori_run (w : Nat) (a b : Int) :
    intBin "arith.xori" (BitVec.ofInt w a) (BitVec.ofInt w b) = .val (BitVec.ofInt w (run_xori w a b)) := by
  rw [intBin_xori, (run_xori_spec w a b).1]

/-! ## shifts: `Sem` reports `ub` for a shift amount ≥ width, otherwise the kernel's value -/

theorem intBin_shli_run (w : Nat) (a b : Int) :
    intBin "arith.shli" (BitVec.ofInt w a) (BitVec.ofInt w b)
      = if (BitVec.ofInt w b).toNat ≥ w then .ub else .val (BitVec.ofInt w (run_shlsi w a b)) := by
  rw [intBin_shli, (run_shlsi_spec w a b).1]

theorem intBin_shrsi_run (w : Nat) (a b : Int) :
    intBin "arith.shrsi" (BitVec.ofInt w a) (BitVec.ofInt w b)
      = if (BitVec.ofInt w b).toNat ≥ w then .ub else .val (BitVec.ofInt w (run_shrsi w a b)) := by
  rw [intBin_shrsi, (run_shrsi_spec w a b).1]

/-! ## signed division family: outside `sdivUB` the kernel's `assert`s hold and its value is `Sem`'s -/

theorem not_sdivUB {w : Nat} {A B : BitVec w} (h : sdivUB A B = false) :
    B ≠ 0 ∧ (A ≠ BitVec.intMin w ∨ B ≠ -1#w) := by
  simp only [sdivUB, Bool.or_eq_false_iff, Bool.and_eq_false_iff, beq_eq_false_iff_ne, ne_eq] at h
  rw [BitVec.neg_one_eq_allOnes]
  exact ⟨by simpa using h.1, h.2⟩

theorem intBin_divsi_run (w : Nat) (a b : Int) :
    intBin "arith.divsi" (BitVec.ofInt w a) (BitVec.ofInt w b)
      = if sdivUB (BitVec.ofInt w a) (BitVec.ofInt w b) then .ub
        else .val (BitVec.ofInt w (run_divsi w a b)) := by
  rw [intBin_divsi]
  cases h : sdivUB (BitVec.ofInt w a) (BitVec.ofInt w b)
  · obtain ⟨hb, hov⟩ := not_sdivUB h
    simp only [Bool.false_eq_true, if_false, (run_divsi_spec w a b hb hov).2.1]
  · rfl

theorem intBin_remsi_run (w : Nat) (a b : Int) :
    intBin "arith.remsi" (BitVec.ofInt w a) (BitVec.ofInt w b)
      = if sdivUB (BitVec.ofInt w a) (BitVec.ofInt w b) then .ub
        else .val (BitVec.ofInt w (run_remsi w a b)) := by
  rw [intBin_remsi]
  cases h : sdivUB (BitVec.ofInt w a) (BitVec.ofInt w b)
  · obtain ⟨hb, _⟩ := not_sdivUB h
    simp only [Bool.false_eq_true, if_false, (run_remsi_range w a b hb).1]
  · rfl

theorem intBin_floordivsi_run (w : Nat) (a b : Int) :
    intBin "arith.floordivsi" (BitVec.ofInt w a) (BitVec.ofInt w b)
      = if sdivUB (BitVec.ofInt w a) (BitVec.ofInt w b) then .ub
        else .val (BitVec.ofInt w (run_floordivsi w a b)) := by
  rw [intBin_floordivsi]
  cases h : sdivUB (BitVec.ofInt w a) (BitVec.ofInt w b)
  · obtain ⟨hb, _⟩ := not_sdivUB h
    simp only [Bool.false_eq_true, if_false, (run_floordivsi_spec w a b hb).2.1]
  · rfl

/-- whenever `Sem` defines the division (returns a value), the Python `assert`s of the three kernels
are satisfied -/
theorem div_pre_of_sem_val (w : Nat) (a b : Int) (h : sdivUB (BitVec.ofInt w a) (BitVec.ofInt w b) = false) :
    run_divsi_pre w a b = true ∧ run_remsi_pre w a b = true ∧ run_floordivsi_pre w a b = true := by
  obtain ⟨hb, hov⟩ := not_sdivUB h
  exact ⟨(run_divsi_spec w a b hb hov).1, (run_remsi_spec w a b hb).1, (run_floordivsi_spec w a b hb).1⟩

/-! ## "the value `Sem.intBin` returns": one statement for all 11 kernels -/

/-- the translated kernel for an operation name -/
def kernel : String → Option (Int → Int → Int → Int)
  | "arith.addi" => some run_addi | "arith.subi" => some run_subi | "arith.muli" => some run_muli
  | "arith.andi" => some run_andi | "arith.ori" => some run_ori | "arith.xori" => some run_xori
  | "arith.shli" => some run_shlsi | "arith.shrsi" => some run_shrsi
  | "arith.divsi" => some run_divsi | "arith.remsi" => some run_remsi
  | "arith.floordivsi" => some run_floordivsi
  | _ => none

/-- the 11 operation names with a translated kernel -/
def kernelNames : List String :=
  ["arith.addi", "arith.subi", "arith.muli", "arith.andi", "arith.ori", "arith.xori", "arith.shli",
   "arith.shrsi", "arith.divsi", "arith.remsi", "arith.floordivsi"]

theorem kernel_isSome_iff (nm : String) : (kernel nm).isSome ↔ nm ∈ kernelNames := by
  constructor
  · intro h
    unfold kernel at h
    split at h <;> first | (simp [kernelNames]; done) | cases h
  · intro h
    simp only [kernelNames, List.mem_cons, List.not_mem_nil, or_false] at h
    rcases h with rfl | rfl | rfl | rfl | rfl | rfl | rfl | rfl | rfl | rfl | rfl <;> rfl

/-- **Every value the reference semantics returns for one of the 11 operations is the bit pattern of
the interpreter kernel's result**, for all widths and all representatives of the operands. -/
theorem intBin_val_eq_kernel (nm : String) (k : Int → Int → Int → Int) (hk : kernel nm = some k)
    (w : Nat) (a b : Int) (v : BitVec w)
    (hv : intBin nm (BitVec.ofInt w a) (BitVec.ofInt w b) = .val v) :
    BitVec.ofInt w (k w a b) = v := by
  unfold kernel at hk
  split at hk <;> cases hk
  · rw [intBin_addi_run] at hv; cases hv; rfl
  · rw [intBin_subi_run] at hv; cases hv; rfl
  · rw [intBin_muli_run] at hv; cases hv; rfl
  · rw [intBin_andi_run] at hv; cases hv; rfl
  · rw [intBin_ori_run] at hv; cases hv; rfl
  · rw [intBin_xori_run] at hv; cases hv; rfl
  · rw [intBin_shli_run] at hv; split at hv <;> cases hv; rfl
  · rw [intBin_shrsi_run] at hv; split at hv <;> cases hv; rfl
  · rw [intBin_divsi_run] at hv; split at hv <;> cases hv; rfl
  · rw [intBin_remsi_run] at hv; split at hv <;> cases hv; rfl
  · rw [intBin_floordivsi_run] at hv; split at hv <;> cases hv; rfl

/-- program level: when `Sem.pureOp` (what `Sem.runOp` executes for an `arith` operation) returns a
value for one of the 11 operations on integer operands, it is the kernel's result -/
theorem pureOp_val_eq_kernel (o : MiniIR.Op) (k : Int → Int → Int → Int) (hk : kernel o.name = some k)
    (w : Nat) (a b : Int) (rs : List Val)
    (hv : pureOp o [.int w (BitVec.ofInt w a), .int w (BitVec.ofInt w b)] = .ok rs) :
    rs = [.int w (BitVec.ofInt w (k w a b))] := by
  have hne : o.name ≠ "arith.cmpi" := by
    intro e; rw [e] at hk; cases hk
  rw [pureOp_int_bin o _ _ hne] at hv
  split at hv
  · rename_i v hi
    cases hv
    rw [intBin_val_eq_kernel o.name k hk w a b v hi]
  all_goals cases hv

/-! ## `arith.cmpi` -/

/-- `Sem.cmpi` is the predicate table the C15 theorems are stated against -/
theorem cmpi_eq_bvcmp {w : Nat} (p : Int) (x y : BitVec w) : cmpi p x y = bvcmp p x y := rfl

/-- `eq`, `ne` and the signed predicates: the interpreter kernel agrees with `Sem.cmpi` on the bit
patterns, for every representative of the operands -/
theorem run_cmpi_signed_sem (w : Nat) (p : Int) (hp : 0 ≤ p ∧ p ≤ 5) (a b : Int) :
    run_cmpi w p a b = cmpi p (BitVec.ofInt w a) (BitVec.ofInt w b) := by
  rw [cmpi_eq_bvcmp]; exact run_cmpi_signed_spec w p hp a b

/-- unsigned predicates — **partial** (see `C15.run_cmpi_unsigned_partial`): only for operands given
as their unsigned representatives -/
theorem run_cmpi_unsigned_sem_partial (w : Nat) (p : Int) (hp : 6 ≤ p ∧ p ≤ 9) (a b : Int)
    (ha : 0 ≤ a ∧ a < 2 ^ w) (hb : 0 ≤ b ∧ b < 2 ^ w) :
    run_cmpi w p a b = cmpi p (BitVec.ofInt w a) (BitVec.ofInt w b) := by
  rw [cmpi_eq_bvcmp]; exact run_cmpi_unsigned_partial w p hp a b ha hb

/-- the known disagreement, against `Sem.cmpi`: `ult(-1, 1) : i8` -/
theorem run_cmpi_unsigned_sem_counterexample :
    run_cmpi 8 6 (-1) 1 = some true ∧ cmpi 6 (BitVec.ofInt 8 (-1)) (BitVec.ofInt 8 1) = some false :=
  run_cmpi_unsigned_counterexample

/-- unknown predicates are rejected by both -/
theorem run_cmpi_bad_pred (w : Nat) (p : Int) (hp : p < 0 ∨ 9 < p) (a b : Int) :
    run_cmpi w p a b = none ∧ cmpi p (BitVec.ofInt w a) (BitVec.ofInt w b) = none := by
  have h : ∀ k : Int, 0 ≤ k → k ≤ 9 → p ≠ k := by intro k h0 h9 e; omega
  constructor
  · simp [run_cmpi, h 0, h 1, h 2, h 3, h 4, h 5, h 6, h 7, h 8, h 9]
  · simp [cmpi, h 0, h 1, h 2, h 3, h 4, h 5, h 6, h 7, h 8, h 9]

/-- non-vacuity: `7 / -2 : i4` is defined by `Sem`, and the values agree -/
example : sdivUB (BitVec.ofInt 4 7) (BitVec.ofInt 4 (-2)) = false := by decide

end Xdsl.C15Sem
