import XdslModel.RiscVFrameFloat
/-!
# C22 — `FuseMultiplyAddD`: contraction only where the fast-math flags licence it

Property clause: *"RISC-V canonicalization alone never changes results"* — for floating point: never beyond
what the fast-math flags of the rewritten operations allow.  `fmadd.d` rounds once, `fmul.d; fadd.d` twice;
replacing the pair by the fused operation is the transformation `contract` (and only `contract`) licenses, and
both operations take part in it, so both must carry the flag.

`fuseMultiplyAddD` (XdslModel/RiscVFrameFloat.lean) is the pattern as a rule on one `fadd.d`; the harness
compares it with the real pattern on every generated snippet (all pairs of single flags, `fast`, mixed sets;
products with one/two uses; allocated and unallocated registers).  The float arithmetic is abstract
(`FOps`: any `add`, `mul`, `fma`), so the theorems hold for IEEE binary64 in particular.

* `fuseMultiplyAddD_licensed`: whenever the rule fires, the sum and the product it consumed both carry `contract`,
  the product has a single use and its multiplicands are not yet allocated.
* `fuseMultiplyAddD_sound`: whenever the rule fires in a state where the product registers hold the products of
  the (still readable) multiplicands, the emitted `fmadd.d` writes the same register as the `fadd.d`, leaves all
  others alone, and the value it writes is one of the `licensed` values of the `fadd.d`.
* `licensed_strict_only`: without `contract` on the sum, or on the product, the only licensed value is the
  strict (twice rounded) sum.
* `fuse_reassoc_counterexample`: accepting `reassoc` in place of `contract` produces a value that is not licensed
  (for an arithmetic in which one rounding and two roundings differ).
* `fuse_stale_counterexample`: without the `_is_stable` guard, after register allocation the fused operation reads
  a multiplicand register that the product has overwritten — wrong even in exact arithmetic (the repaired defect).
-/
namespace Xdsl.RiscV.FloatRules

theorem filter_some {α : Type} {p : α → Bool} {o : Option α} {m : α} (h : o.filter p = some m) :
    o = some m ∧ p m = true := by
  cases o with
  | none => simp at h
  | some x =>
    simp only [Option.filter] at h
    by_cases hp : p x = true
    · simp [hp] at h; subst h; exact ⟨rfl, hp⟩
    · simp [hp] at h

theorem fusable_iff (m : MulDef) : m.fusable = true ↔
    hasContract m.flags = true ∧ m.uses = 1 ∧ stableF m.a = true ∧ stableF m.b = true := by
  simp [MulDef.fusable, and_assoc]

/-- what the rule emits, and from which operand -/
theorem fuse_cases {flags rd rs1 rs2 : Nat} {d1 d2 : Option MulDef} {out : FInstr}
    (h : fuseMultiplyAddD flags rd rs1 rs2 d1 d2 = some out) :
    hasContract flags = true ∧
    ((∃ m, d2 = some m ∧ m.fusable = true ∧ out = .fmadd rd m.a m.b rs1) ∨
     (∃ m, d1 = some m ∧ m.fusable = true ∧ out = .fmadd rd m.a m.b rs2)) := by
  unfold fuseMultiplyAddD at h
  by_cases hc : hasContract flags = true
  · simp only [hc, Bool.not_true, Bool.false_eq_true, if_false] at h
    refine ⟨hc, ?_⟩
    cases h2 : d2.filter MulDef.fusable with
    | some m =>
      rw [h2] at h
      obtain ⟨hd, hf⟩ := filter_some h2
      simp at h
      exact .inl ⟨m, hd, hf, h.symm⟩
    | none =>
      rw [h2] at h
      cases h1 : d1.filter MulDef.fusable with
      | some m =>
        rw [h1] at h
        obtain ⟨hd, hf⟩ := filter_some h1
        simp at h
        exact .inr ⟨m, hd, hf, h.symm⟩
      | none => rw [h1] at h; simp at h
  · simp [hc] at h

/-- **contraction needs `contract` on both operations** (and a single-use product with readable multiplicands) -/
theorem fuseMultiplyAddD_licensed {flags rd rs1 rs2 : Nat} {d1 d2 : Option MulDef} {out : FInstr}
    (h : fuseMultiplyAddD flags rd rs1 rs2 d1 d2 = some out) :
    hasContract flags = true ∧
    ∃ m, (d1 = some m ∨ d2 = some m) ∧ hasContract m.flags = true ∧ m.uses = 1 ∧
      stableF m.a = true ∧ stableF m.b = true := by
  obtain ⟨hc, h | h⟩ := fuse_cases h
  · obtain ⟨m, hd, hf, _⟩ := h
    exact ⟨hc, m, .inr hd, (fusable_iff m).mp hf⟩
  · obtain ⟨m, hd, hf, _⟩ := h
    exact ⟨hc, m, .inl hd, (fusable_iff m).mp hf⟩

/-- the facts the rule reads hold in `s`: a described operand holds the product of its multiplicands -/
def DefHolds {F : Type} (O : FOps F) (s : FSt F) (r : Nat) : Option MulDef → Prop
  | none => True
  | some m => s r = O.mul (s m.a) (s m.b)

/-- **the rewrite stays inside the licence.**  For every float arithmetic, every state in which the described
operands hold their products: the emitted instruction writes `rd` (as the `fadd.d` does), nothing else, and the
value is the strict sum or a fused multiply-add that the `contract` flags of sum and product allow. -/
theorem fuseMultiplyAddD_sound {F : Type} (O : FOps F) (s : FSt F) {flags rd rs1 rs2 : Nat}
    {d1 d2 : Option MulDef} {out : FInstr}
    (h : fuseMultiplyAddD flags rd rs1 rs2 d1 d2 = some out)
    (_h1 : DefHolds O s rs1 d1) (_h2 : DefHolds O s rs2 d2) :
    ∃ v, fexec1 O out s = s.set rd v ∧ v ∈ licensed O s flags rs1 rs2 d1 d2 := by
  obtain ⟨hc, h | h⟩ := fuse_cases h
  · obtain ⟨m, hd, hf, ho⟩ := h
    have hm := ((fusable_iff m).mp hf).1
    subst ho hd
    refine ⟨O.fma (s m.a) (s m.b) (s rs1), rfl, ?_⟩
    simp [licensed, hc, hm]
  · obtain ⟨m, hd, hf, ho⟩ := h
    have hm := ((fusable_iff m).mp hf).1
    subst ho hd
    refine ⟨O.fma (s m.a) (s m.b) (s rs2), rfl, ?_⟩
    simp [licensed, hc, hm]

/-- the `fadd.d` itself always produces a licensed value (the strict one) -/
theorem strict_licensed {F : Type} (O : FOps F) (s : FSt F) (flags rd rs1 rs2 : Nat) (d1 d2 : Option MulDef) :
    ∃ v, fexec1 O (.fadd rd rs1 rs2 flags) s = s.set rd v ∧ v ∈ licensed O s flags rs1 rs2 d1 d2 :=
  ⟨O.add (s rs1) (s rs2), rfl, by simp [licensed]⟩

/-- no `contract` on the sum, or on neither described product: only the strict sum is licensed -/
theorem licensed_strict_only {F : Type} (O : FOps F) (s : FSt F) (flags rs1 rs2 : Nat) (d1 d2 : Option MulDef)
    (h : hasContract flags = false ∨
         ((∀ m, d1 = some m → hasContract m.flags = false) ∧ (∀ m, d2 = some m → hasContract m.flags = false))) :
    licensed O s flags rs1 rs2 d1 d2 = [O.add (s rs1) (s rs2)] := by
  rcases h with h | ⟨h1, h2⟩
  · cases d1 <;> cases d2 <;> simp [licensed, h]
  · cases d1 with
    | none =>
      cases d2 with
      | none => simp [licensed]
      | some m2 => simp [licensed, h2 m2 rfl]
    | some m1 =>
      cases d2 with
      | none => simp [licensed, h1 m1 rfl]
      | some m2 => simp [licensed, h1 m1 rfl, h2 m2 rfl]

/-- the flag test reads bit 5 (`contract`) and nothing else: `reassoc` (1), `nnan` (2) … `afn` (64), and all of
them together without `contract` (95) do not pass; `contract` alone (32) and `fast` (127) do -/
example : ([0, 1, 2, 4, 8, 16, 64, 95].map hasContract, [32, 127, 33].map hasContract) =
    ([false, false, false, false, false, false, false, false], [true, true, true]) := by decide

/-! ## counterexamples -/

/-- a toy arithmetic on `Int` whose rounding keeps even numbers (round down to a multiple of 2): two roundings
and one rounding differ, as in IEEE arithmetic -/
def toyOps : FOps Int where
  add a b := 2 * ((a + b) / 2)
  mul a b := 2 * ((a * b) / 2)
  fma a b c := 2 * ((a * b + c) / 2)

/-- exact integer arithmetic: fused and unfused agree -/
def exactOps : FOps Int where
  add a b := a + b
  mul a b := a * b
  fma a b c := a * b + c

def REASSOC : Nat := 0

/-- the acceptance test "contract or reassoc" -/
def acceptsReassoc (m : Nat) : Bool := hasContract m || m.testBit REASSOC

/-- x = y = z = 1 in registers 32, 33, 35; the product register 34 holds `mul 1 1 = 0` -/
def cexState : FSt Int := fun r => if r = 34 then 0 else 1

def cexProduct : Option MulDef := some { a := 32, b := 33, flags := 1, uses := 1 }

/-- **`reassoc` is not `contract`.**  The rule with the acceptance test "contract or reassoc" fires on
`fmul.d [reassoc]; fadd.d [reassoc]` and writes 2, while the only licensed value of the sum is 0; the rule of
the code does not fire. -/
theorem fuse_reassoc_counterexample :
    fuseWith acceptsReassoc stableF 1 36 34 35 cexProduct none = some (.fmadd 36 32 33 35) ∧
    DefHolds toyOps cexState 34 cexProduct ∧
    fexec1 toyOps (.fmadd 36 32 33 35) cexState 36 = 2 ∧
    licensed toyOps cexState 1 34 35 cexProduct none = [0] ∧
    fuseMultiplyAddD 1 36 34 35 cexProduct none = none := by
  refine ⟨by decide, ?_, by decide, by decide, by decide⟩
  show cexState 34 = toyOps.mul (cexState 32) (cexState 33)
  decide

/-- f0 = 2, f1 = 3, f2 = 1 -/
def staleState : FSt Int := fun r => if r = 0 then 2 else if r = 1 then 3 else 1

def staleProduct : Option MulDef := some { a := 0, b := 1, flags := 32, uses := 1 }

/-- **the repaired defect: a multiplicand register reused before the sum.**  After register allocation
`fmul.d f0, f0, f1; fadd.d f0, f0, f2` (the product overwrites its first multiplicand): without the `_is_stable`
guard the rule emits `fmadd.d f0, f0, f1, f2`, which multiplies the PRODUCT by f1 again — 19 instead of 7 even
in exact arithmetic.  The guarded rule does not fire. -/
theorem fuse_stale_counterexample :
    fuseWith hasContract (fun _ => true) 32 0 0 2 staleProduct none = some (.fmadd 0 0 1 2) ∧
    fexec1 exactOps (.fadd 0 0 2 32) (fexec1 exactOps (.fmul 0 0 1 32) staleState) 0 = 7 ∧
    fexec1 exactOps (.fmadd 0 0 1 2) (fexec1 exactOps (.fmul 0 0 1 32) staleState) 0 = 19 ∧
    fuseMultiplyAddD 32 0 0 2 staleProduct none = none := by
  decide

/-- non-vacuity: the rule does fire, on `fmul.d [contract]; fadd.d [contract]` with unallocated registers, in
both operand orders, and prefers the product in rs2 -/
example :
    (fuseMultiplyAddD 32 36 34 35 (some { a := 32, b := 33, flags := 32, uses := 1 }) none,
     fuseMultiplyAddD 127 36 35 34 none (some { a := 32, b := 33, flags := 32, uses := 1 }),
     fuseMultiplyAddD 32 36 34 35 (some { a := 32, b := 33, flags := 32, uses := 1 })
       (some { a := 40, b := 41, flags := 127, uses := 1 }),
     fuseMultiplyAddD 32 36 34 35 (some { a := 32, b := 33, flags := 32, uses := 2 }) none) =
    (some (.fmadd 36 32 33 35), some (.fmadd 36 32 33 35), some (.fmadd 36 40 41 34), none) := by decide

end Xdsl.RiscV.FloatRules
