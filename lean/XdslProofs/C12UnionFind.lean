import XdslProofs.Lemmas.DisjointSet
/-!
# C12 — property theorems (union-find part)

"the union-find structure always represents exactly the partition induced by the unions performed,
returns a member of the element's class as representative, and left-biased union keeps the left
representative" — for every operation sequence (`add`, `find`, `union`, `union_left`, `connected`)
from `IntDisjointSet(size=n)`.

Vocabulary (definitions in `Lemmas/DisjointSet.lean`):
* `Inv s` — forest invariant: `_parent`/`_count` equally long, parents in range, acyclic (rank
  witness); `Counts s` — `_count[r]` of every root `r` is the number of elements of its class;
* `root s x = findRoot s s.size x` — what the first loop of `__getitem__` returns;
* `Spec` = number of elements + list of pairs unioned so far (a union that raises `KeyError` unions
  nothing), `Rel us` = `Relation.EqvGen` of those pairs, `Repr s σ` = "`s` is a well-formed forest
  over `σ.n` elements whose representatives induce exactly the partition `Rel σ.us`";
* `OutOK σ o out` — the results the abstract state allows for operation `o`.
-/
namespace Xdsl.DisjointSet

/-! ## 1. forest invariant: holds initially, preserved by every step -/

/-- `IntDisjointSet(size=n)` is a forest of `n` singleton trees with all counts `1`. -/
theorem inv_init (n : Nat) : Inv (init n) ∧ Counts (init n) := ⟨init_inv n, init_counts n⟩

/-! ## 2. the fuel of the model's two loops is never exhausted -/

/-- Under the invariant the first loop of `__getitem__`, run with fuel `len(_parent)`, stops at a
root (self-parent) that is reachable from `x` along parent edges, in range when `x` is. -/
theorem findRoot_returns_root (s : UF) (h : Inv s) (x : Nat) :
    s.par (findRoot s s.size x) = findRoot s s.size x
    ∧ (∃ k, k ≤ s.size ∧ findRoot s s.size x = s.par^[k] x)
    ∧ (x < s.size → findRoot s s.size x < s.size) :=
  ⟨root_is_root s h x, root_reachable s x, fun hx => root_lt s h hx⟩

/-- "Never exhausted": with any fuel `≥ len(_parent)` both loops compute exactly what they compute
with fuel `len(_parent)`, i.e. the fuel-indexed recursions of the model are the Python `while`
loops. -/
theorem fuel_never_exhausted (s : UF) (h : Inv s) (x fuel : Nat) (hf : s.size ≤ fuel) :
    findRoot s fuel x = findRoot s s.size x
    ∧ compress s.parent (root s x) fuel x = compress s.parent (root s x) s.size x :=
  ⟨findRoot_fuel_irrelevant s h x fuel hf, compress_fuel_irrelevant s h x fuel hf⟩

/-- Without the invariant the fuel *can* run out (the Python loop would not terminate): on the
2-cycle `_parent = [1, 0]` the fuel-bounded loop stops on a non-root. -/
example : let s : UF := { parent := [1, 0], count := [1, 1] }
    s.par (findRoot s s.size 0) ≠ findRoot s s.size 0 := by decide

/-- Path compression does not change the represented partition: `self[x]` returns the representative
of `x`, and afterwards every element has the representative it had before; the set of roots and the
counts are untouched and the structure is again a forest. -/
theorem find_preserves_roots (s : UF) (h : Inv s) (hc : Counts s) {x : Nat} (hx : x < s.size) :
    ∃ s', find s x = some (s', root s x) ∧ Inv s' ∧ Counts s' ∧ s'.size = s.size ∧
      (∀ i, root s' i = root s i) ∧ (∀ i, s'.par i = i ↔ s.par i = i) := by
  obtain ⟨s', e, hi, hs, hcnt, hr, hp⟩ := find_spec s h hx
  exact ⟨s', e, hi, find_counts s s' hc hs hcnt hr hp, hs, hr, hp⟩

/-- `find x` (for `x` in range) returns `root s x`. -/
theorem step_find_out (s : UF) (h : Inv s) {x : Nat} (hx : x < s.size) :
    (step s (.find x)).2 = .nat (root s x) := by
  obtain ⟨_, e, _⟩ := find_spec s h hx
  simp only [step, e]

/-! ## 3. every step refines the abstract partition -/

/-- One operation: the result is one the abstract state allows (`OutOK`: `add` returns the old size;
`find x` returns a member of `x`'s class; `connected a b` is true iff `a`,`b` are related by the
equivalence closure of the pairs unioned so far; `union`/`union_left` return true iff the classes
were distinct; `KeyError` exactly for indices out of range), and the new concrete state represents
the new abstract state (the unioned pair is added exactly when no `KeyError` is raised). This also
carries preservation of `Inv` and `Counts` (fields of `Repr`). -/
theorem step_refines (s : UF) (σ : Spec) (h : Repr s σ) (o : Op) :
    OutOK σ o (step s o).2 ∧ Repr (step s o).1 (σ.step o) := by
  have hn := h.size
  cases o with
  | add =>
    exact ⟨by simp [step, OutOK, hn], repr_add h⟩
  | find x =>
    by_cases hx : x < s.size
    · obtain ⟨s', e, hi, hs, hcnt, hr, hp⟩ := find_spec s h.inv hx
      simp only [step, e, OutOK, Spec.step]
      rw [if_pos (hn ▸ hx)]
      exact ⟨⟨root s x, rfl, hn ▸ root_lt s h.inv hx, h.complete x⟩,
        repr_of_root_eq h hi (find_counts s s' h.counts hs hcnt hr hp) hs hr⟩
    · simp only [step, find_none s (Nat.le_of_not_lt hx), OutOK, Spec.step]
      rw [if_neg (hn ▸ hx)]
      exact ⟨trivial, h⟩
  | union a b =>
    by_cases ha : a < s.size
    · by_cases hb : b < s.size
      · obtain ⟨s', e, hi, hs, hr, hc⟩ := union_spec s h.inv ha hb
        have hab : a < σ.n ∧ b < σ.n := ⟨hn ▸ ha, hn ▸ hb⟩
        simp only [step, e, OutOK, Spec.step]
        rw [if_pos hab, if_pos hab]
        refine ⟨⟨_, rfl, ?_⟩, ?_⟩
        · rw [← repr_iff h a b]; simp
        · rcases hr with hr | hr
          · exact repr_merge h b a hi (hc h.counts) hs hr _
              (fun q hq => List.mem_cons_of_mem _ hq)
              (fun q hq => by
                rcases List.mem_cons.mp hq with e | e
                · exact Or.inr (Or.inr e)
                · exact Or.inl e)
              (Relation.EqvGen.symm _ _ (Relation.EqvGen.rel _ _ List.mem_cons_self))
          · exact repr_merge h a b hi (hc h.counts) hs hr _
              (fun q hq => List.mem_cons_of_mem _ hq)
              (fun q hq => by
                rcases List.mem_cons.mp hq with e | e
                · exact Or.inr (Or.inl e)
                · exact Or.inl e)
              (Relation.EqvGen.rel _ _ List.mem_cons_self)
      · obtain ⟨s1, e1, h1, hs1, hr1, hc1⟩ := find_first_only s h.inv ha
        have hnone : union s a b = none := by
          simp [union, e1, find_none s1 (hs1 ▸ Nat.le_of_not_lt hb)]
        have hab : ¬ (a < σ.n ∧ b < σ.n) := fun c => hb (hn ▸ c.2)
        simp only [step, hnone, e1, OutOK, Spec.step]
        rw [if_neg hab, if_neg hab]
        exact ⟨trivial, repr_of_root_eq h h1 (hc1 h.counts) hs1 hr1⟩
    · have e1 := find_none s (Nat.le_of_not_lt ha)
      have hnone : union s a b = none := by simp [union, e1]
      have hab : ¬ (a < σ.n ∧ b < σ.n) := fun c => ha (hn ▸ c.1)
      simp only [step, hnone, e1, OutOK, Spec.step]
      rw [if_neg hab, if_neg hab]
      exact ⟨trivial, h⟩
  | unionLeft a b =>
    by_cases ha : a < s.size
    · by_cases hb : b < s.size
      · obtain ⟨s', e, hi, hs, hr, hc⟩ := unionLeft_spec s h.inv ha hb
        have hab : a < σ.n ∧ b < σ.n := ⟨hn ▸ ha, hn ▸ hb⟩
        simp only [step, e, OutOK, Spec.step]
        rw [if_pos hab, if_pos hab]
        refine ⟨⟨_, rfl, ?_⟩, ?_⟩
        · rw [← repr_iff h a b]; simp
        · exact repr_merge h b a hi (hc h.counts) hs hr _
            (fun q hq => List.mem_cons_of_mem _ hq)
            (fun q hq => by
              rcases List.mem_cons.mp hq with e | e
              · exact Or.inr (Or.inr e)
              · exact Or.inl e)
            (Relation.EqvGen.symm _ _ (Relation.EqvGen.rel _ _ List.mem_cons_self))
      · obtain ⟨s1, e1, h1, hs1, hr1, hc1⟩ := find_first_only s h.inv ha
        have hnone : unionLeft s a b = none := by
          simp [unionLeft, e1, find_none s1 (hs1 ▸ Nat.le_of_not_lt hb)]
        have hab : ¬ (a < σ.n ∧ b < σ.n) := fun c => hb (hn ▸ c.2)
        simp only [step, hnone, e1, OutOK, Spec.step]
        rw [if_neg hab, if_neg hab]
        exact ⟨trivial, repr_of_root_eq h h1 (hc1 h.counts) hs1 hr1⟩
    · have e1 := find_none s (Nat.le_of_not_lt ha)
      have hnone : unionLeft s a b = none := by simp [unionLeft, e1]
      have hab : ¬ (a < σ.n ∧ b < σ.n) := fun c => ha (hn ▸ c.1)
      simp only [step, hnone, e1, OutOK, Spec.step]
      rw [if_neg hab, if_neg hab]
      exact ⟨trivial, h⟩
  | connected a b =>
    by_cases ha : a < s.size
    · by_cases hb : b < s.size
      · obtain ⟨s', e, hi, hs, hr, hc⟩ := connected_spec s h.inv ha hb
        have hab : a < σ.n ∧ b < σ.n := ⟨hn ▸ ha, hn ▸ hb⟩
        simp only [step, e, OutOK, Spec.step]
        rw [if_pos hab]
        refine ⟨⟨_, rfl, ?_⟩, repr_of_root_eq h hi (hc h.counts) hs hr⟩
        rw [← repr_iff h a b]; simp
      · obtain ⟨s1, e1, h1, hs1, hr1, hc1⟩ := find_first_only s h.inv ha
        have hnone : connected s a b = none := by
          simp [connected, e1, find_none s1 (hs1 ▸ Nat.le_of_not_lt hb)]
        have hab : ¬ (a < σ.n ∧ b < σ.n) := fun c => hb (hn ▸ c.2)
        simp only [step, hnone, e1, OutOK, Spec.step]
        rw [if_neg hab]
        exact ⟨trivial, repr_of_root_eq h h1 (hc1 h.counts) hs1 hr1⟩
    · have e1 := find_none s (Nat.le_of_not_lt ha)
      have hnone : connected s a b = none := by simp [connected, e1]
      have hab : ¬ (a < σ.n ∧ b < σ.n) := fun c => ha (hn ▸ c.1)
      simp only [step, hnone, e1, OutOK, Spec.step]
      rw [if_neg hab]
      exact ⟨trivial, h⟩

/-- The invariant (forest + correct counts) is preserved by every `step`. -/
theorem step_preserves_inv (s : UF) (h : Inv s) (hc : Counts s) (o : Op) :
    Inv (step s o).1 ∧ Counts (step s o).1 := by
  -- any well-formed state represents *some* abstract state: its own partition
  have hr : Repr s { n := s.size, us := (List.range s.size).map (fun i => (i, root s i)) } := by
    refine ⟨h, hc, rfl, ?_, ?_⟩
    · intro q hq
      obtain ⟨i, _, rfl⟩ := List.mem_map.mp hq
      exact (root_idem s h i).symm
    · intro x
      by_cases hx : x < s.size
      · exact Relation.EqvGen.rel _ _ (List.mem_map.mpr ⟨x, List.mem_range.mpr hx, rfl⟩)
      · rw [root_of_size_le s (Nat.le_of_not_lt hx)]; exact Relation.EqvGen.refl x
  have := (step_refines s _ hr o).2
  exact ⟨this.inv, this.counts⟩

/-! ## 5. histories -/

/-- **Every history.** Running any operation list from a state that represents `σ`: every result is
one the abstract partition allows at that point of the history, and the final state represents the
final abstract state. -/
theorem run_refines (os : List Op) : ∀ (s : UF) (σ : Spec), Repr s σ →
    OutsOK σ os (run s os).2 ∧ Repr (run s os).1 (σ.run os) := by
  induction os with
  | nil => intro s σ h; exact ⟨trivial, h⟩
  | cons o os ih =>
    intro s σ h
    obtain ⟨h1, h2⟩ := step_refines s σ h o
    obtain ⟨h3, h4⟩ := ih (step s o).1 (σ.step o) h2
    exact ⟨⟨h1, h3⟩, h4⟩

/-- "For every sequence of operations the union-find structure always represents exactly the
partition induced by the unions performed": after any history from `IntDisjointSet(size=n)` the
structure is a forest with correct counts whose size is `n` + the number of `add`s, two elements
have the same representative iff they are related by the equivalence closure of the pairs
(successfully) unioned in the history, and all results along the way were the allowed ones. -/
theorem uf_history (n : Nat) (os : List Op) :
    let s := (run (init n) os).1
    let σ := Spec.run { n := n } os
    Inv s ∧ Counts s ∧ s.size = σ.n ∧ (∀ a b, root s a = root s b ↔ Rel σ.us a b)
      ∧ OutsOK { n := n } os (run (init n) os).2 := by
  obtain ⟨h1, h2⟩ := run_refines os (init n) { n := n } (repr_init n)
  exact ⟨h2.inv, h2.counts, h2.size, fun a b => repr_iff h2 a b, h1⟩

/-- The invariant along histories (item 1 lifted). -/
theorem run_preserves_inv (os : List Op) (s : UF) (h : Inv s) (hc : Counts s) :
    Inv (run s os).1 ∧ Counts (run s os).1 := by
  induction os generalizing s with
  | nil => exact ⟨h, hc⟩
  | cons o os ih =>
    obtain ⟨h1, h2⟩ := step_preserves_inv s h hc o
    exact ih (step s o).1 h1 h2

/-- `connected a b` after any history: true iff `a` and `b` are related by the equivalence closure
of the pairs unioned so far (and never `KeyError` for indices in range). -/
theorem uf_connected (n : Nat) (os : List Op) (a b : Nat)
    (ha : a < (Spec.run { n := n } os).n) (hb : b < (Spec.run { n := n } os).n) :
    ∃ c, (step (run (init n) os).1 (.connected a b)).2 = .bool c ∧
      (c = true ↔ Rel (Spec.run { n := n } os).us a b) := by
  obtain ⟨_, h2⟩ := run_refines os (init n) { n := n } (repr_init n)
  have := (step_refines _ _ h2 (.connected a b)).1
  simpa only [OutOK, if_pos (And.intro ha hb)] using this

/-- `find x` after any history returns a member of `x`'s class (in range). -/
theorem uf_find_member (n : Nat) (os : List Op) (x : Nat)
    (hx : x < (Spec.run { n := n } os).n) :
    ∃ r, (step (run (init n) os).1 (.find x)).2 = .nat r ∧ r < (Spec.run { n := n } os).n ∧
      Rel (Spec.run { n := n } os).us x r := by
  obtain ⟨_, h2⟩ := run_refines os (init n) { n := n } (repr_init n)
  have := (step_refines _ _ h2 (.find x)).1
  simpa only [OutOK, if_pos hx] using this

/-- The representative is canonical: in any reachable state `find x` and `find y` return the same
value iff `x` and `y` are in the same class. -/
theorem find_canonical (s : UF) (σ : Spec) (h : Repr s σ) (x y : Nat)
    (hx : x < σ.n) (hy : y < σ.n) :
    (step s (.find x)).2 = (step s (.find y)).2 ↔ Rel σ.us x y := by
  obtain ⟨_, ex, _⟩ := find_spec s h.inv (h.size ▸ hx)
  obtain ⟨_, ey, _⟩ := find_spec s h.inv (h.size ▸ hy)
  simp only [step, ex, ey, ← repr_iff h x y]
  constructor
  · intro e; injection e
  · intro e; rw [e]

/-! ## 4. return value of the unions; left-biased union keeps the left representative -/

/-- `union`/`union_left` return `True` iff the two classes were distinct, after any history. -/
theorem uf_union_returns (n : Nat) (os : List Op) (a b : Nat)
    (ha : a < (Spec.run { n := n } os).n) (hb : b < (Spec.run { n := n } os).n) :
    (∃ c, (step (run (init n) os).1 (.union a b)).2 = .bool c ∧
      (c = true ↔ ¬ Rel (Spec.run { n := n } os).us a b)) ∧
    (∃ c, (step (run (init n) os).1 (.unionLeft a b)).2 = .bool c ∧
      (c = true ↔ ¬ Rel (Spec.run { n := n } os).us a b)) := by
  obtain ⟨_, h2⟩ := run_refines os (init n) { n := n } (repr_init n)
  have h3 := (step_refines _ _ h2 (.union a b)).1
  have h4 := (step_refines _ _ h2 (.unionLeft a b)).1
  exact ⟨by simpa only [OutOK, if_pos (And.intro ha hb)] using h3,
    by simpa only [OutOK, if_pos (And.intro ha hb)] using h4⟩

/-- "Left-biased union keeps the left representative": after `union_left(a, b)` every element of
the merged class — in particular `a` and `b` — has as representative the representative `a` had
before, and all other elements keep theirs. -/
theorem unionLeft_keeps_left_rep (s : UF) (σ : Spec) (h : Repr s σ) (a b : Nat)
    (ha : a < σ.n) (hb : b < σ.n) :
    let s' := (step s (.unionLeft a b)).1
    (∀ y, Rel ((a, b) :: σ.us) y a → root s' y = root s a)
    ∧ (∀ y, ¬ Rel ((a, b) :: σ.us) y a → root s' y = root s y) := by
  obtain ⟨s', e, hi, hs, hr, hc⟩ := unionLeft_spec s h.inv (h.size ▸ ha) (h.size ▸ hb)
  have h' := (step_refines s σ h (.unionLeft a b)).2
  simp only [step, e, Spec.step, if_pos (And.intro ha hb)] at h' ⊢
  have haa : root s' a = root s a := by
    rw [hr]; split
    · rfl
    · rfl
  constructor
  · intro y hy
    rw [← haa]; exact (repr_iff h' y a).mpr hy
  · intro y hy
    rw [hr, if_neg]
    intro e'
    apply hy
    rw [← repr_iff h' y a, haa, hr, if_pos e']

/-- The same on observable results, after any history: `find` of any member of the merged class
right after `union_left(a, b)` returns what `find a` returned right before it. -/
theorem uf_union_left_rep (n : Nat) (os : List Op) (a b y : Nat)
    (ha : a < (Spec.run { n := n } os).n) (hb : b < (Spec.run { n := n } os).n)
    (hy : y = a ∨ y = b ∨ Rel (Spec.run { n := n } os).us y a
      ∨ Rel (Spec.run { n := n } os).us y b) :
    let s := (run (init n) os).1
    (step (step s (.unionLeft a b)).1 (.find y)).2 = (step s (.find a)).2 := by
  obtain ⟨_, h⟩ := run_refines os (init n) { n := n } (repr_init n)
  intro s
  have h' := (step_refines s _ h (.unionLeft a b)).2
  have hrep := (unionLeft_keeps_left_rep s _ h a b ha hb).1
  have hus : (Spec.step (Spec.run { n := n } os) (.unionLeft a b)).us
      = (a, b) :: (Spec.run { n := n } os).us := by
    simp only [Spec.step, if_pos (And.intro ha hb)]
  have hn' : (Spec.step (Spec.run { n := n } os) (.unionLeft a b)).n
      = (Spec.run { n := n } os).n := by
    simp only [Spec.step, if_pos (And.intro ha hb)]
  have hab : Rel ((a, b) :: (Spec.run { n := n } os).us) b a :=
    Relation.EqvGen.symm _ _ (Relation.EqvGen.rel _ _ List.mem_cons_self)
  have hm : ∀ {u v}, Rel (Spec.run { n := n } os).us u v →
      Rel ((a, b) :: (Spec.run { n := n } os).us) u v :=
    fun r => Rel.mono (fun q hq => List.mem_cons_of_mem _ hq) r
  have hya : Rel ((a, b) :: (Spec.run { n := n } os).us) y a := by
    rcases hy with rfl | rfl | r | r
    · exact Relation.EqvGen.refl _
    · exact hab
    · exact hm r
    · exact Relation.EqvGen.trans _ _ _ (hm r) hab
  have hyn : y < (Spec.run { n := n } os).n := by
    rcases hy with rfl | rfl | r | r
    · exact ha
    · exact hb
    · have := (repr_iff h y a).mpr r
      by_contra hc
      rw [root_of_size_le s (h.size ▸ Nat.le_of_not_lt hc)] at this
      have h2 := root_lt s h.inv (h.size ▸ ha)
      rw [← this, h.size] at h2; exact hc h2
    · have := (repr_iff h y b).mpr r
      by_contra hc
      rw [root_of_size_le s (h.size ▸ Nat.le_of_not_lt hc)] at this
      have h2 := root_lt s h.inv (h.size ▸ hb)
      rw [← this, h.size] at h2; exact hc h2
  rw [step_find_out _ h'.inv (x := y) (by rw [h'.size, hn']; exact hyn),
    step_find_out s h.inv (x := a) (by rw [h.size]; exact ha), hrep y hya]

/-! ## non-vacuity on concrete states -/

/-- a concrete history: results and final lists (`KeyError` for the out-of-range index, `add`
returns the old size, `union_left 3 0` makes `2` — the representative of `3` — the representative
of the merged class `{0,1,2,3}`) -/
example :
    (run (init 4) [.union 0 1, .unionLeft 2 3, .connected 0 1, .connected 1 2, .unionLeft 3 0,
        .find 1, .connected 1 2, .add, .find 4, .union 4 9, .union 0 1]).2
      = [.bool true, .bool true, .bool true, .bool false, .bool true,
          .nat 2, .bool true, .nat 4, .nat 4, .keyError, .bool false] := by decide

/-- a chain `3 → 2 → 1 → 0` built by left-biased unions is a reachable forest of depth 3; `find 3`
returns the root `0` and compresses the whole path; counts: the root carries the class size 4 -/
example :
    let s := (run (init 4) [.unionLeft 2 3, .unionLeft 1 2, .unionLeft 0 1]).1
    s.parent = [0, 0, 1, 2] ∧ s.count.getD 0 0 = 4 ∧
    (step s (.find 3)).2 = .nat 0 ∧ (step s (.find 3)).1.parent = [0, 0, 0, 0] := by decide

/-- the hypotheses of the refinement theorems are satisfiable: the chain state above represents
the abstract state "4 elements, pairs (0,1),(1,2),(2,3)" -/
example : Repr (run (init 4) [.unionLeft 2 3, .unionLeft 1 2, .unionLeft 0 1]).1
    { n := 4, us := [(0, 1), (1, 2), (2, 3)] } :=
  (run_refines [.unionLeft 2 3, .unionLeft 1 2, .unionLeft 0 1] (init 4) { n := 4 }
    (repr_init 4)).2

/-- union by size attaches the smaller tree below the larger one, `union_left` does not -/
example :
    (run (init 3) [.union 0 1, .union 2 0, .find 2]).2 = [.bool true, .bool true, .nat 0]
    ∧ (run (init 3) [.union 0 1, .unionLeft 2 0, .find 0]).2 = [.bool true, .bool true, .nat 2] := by
  decide

end Xdsl.DisjointSet
