import XdslProofs.Lemmas.LLVM
/-!
# C23 — the LLVM backend emits LLVM IR with the source semantics (the part a theorem can carry)

Property: *every valid llvm-dialect module that the LLVM backend translates yields LLVM IR that LLVM
accepts, and for integer and floating-point functions the compiled code returns, for every input, the
value the LLVM semantics of the source operations prescribe.*

PARTIAL by design (DESIGN.md §5 C23): "LLVM accepts" and "the compiled code returns" are verdicts of
LLVM itself and are observed per generated program by the harness (llvmlite parse + verify, MCJIT).
What is proved here, for every program of the modelled subset and every input:

* the mapping tables of `convert_op.py` (op class → mnemonic, overflow/exact/disjoint/nneg flags,
  icmp and fcmp predicates through llvmlite's spelling rules, cast kinds) preserve the meaning of the
  single operations at every bit width;
* `conv_sound`: the translation as a whole — constants substituted through `val_map`, block arguments
  turned into phi nodes whose incoming lists are filled while the branches are converted, `cond_br` with
  two identical successors merged by selects — preserves the result of every run of the source that is
  defined (no poison, no undefined behaviour), for arbitrary control flow including loops and memory.

`XdslModel/LLVM.lean` models the *repaired* `_convert_condbr` (see `condbr_same_successor_counterexample`).
-/
namespace Xdsl.LLVM

/-- "binary ops with overflow/exact flags": the instruction that `_convert_binop` emits for an op of
class `k` with properties `overflowFlags = ovf`, `isExact`, `isDisjoint` computes, at every width and
for all operands, exactly what the dialect op prescribes — including which operands give poison/UB. -/
theorem convBin_sound (k : DBin) (ovf : Nat) (exact disjoint : Bool) (fl : List IFlag)
    (h : convBinFlags k ovf exact disjoint = some fl) {w : Nat} (x y : BitVec w) :
    (convBin k).eval fl x y = k.eval ovf exact disjoint x y :=
  convBin_eval k ovf exact disjoint fl h x y

/-- "comparisons": predicate index `p` of `llvm.icmp` (through `ICmpPredicateFlag.from_int`,
`_ICMP_PRED_MAP` and llvmlite's `icmp_signed`/`icmp_unsigned`) becomes an LLVM condition code with the
same truth table, at every width. -/
theorem convICmp_sound (p : Nat) (q : IPred) (h : convICmpPred p = some q) {w : Nat} (x y : BitVec w) :
    dICmp p x y = some (q.eval x y) :=
  convICmp_eval p q h x y

/-- the same for `llvm.fcmp` (`_convert_fcmp`: ordered/unordered split on the first letter, llvmlite's
`fcmp_ordered`/`fcmp_unordered` spelling) for each of the four possible relations of two floats. -/
theorem convFCmp_sound (p : Nat) (q : IFPred) (h : convFCmpPred p = some q) (r : FRel) :
    dFCmp p r = some (q.eval r) :=
  convFCmp_eval p q h r

/-- the fcmp predicates `_false` (0) and `_true` (15) are *not translated*: llvmlite rejects the
spelling `_convert_fcmp` produces (`ValueError`), all others are translated. -/
theorem convFCmp_translated (p : Nat) : (convFCmpPred p).isSome = (decide (1 ≤ p ∧ p ≤ 14)) := by
  by_cases hp : p < 16
  · have : ∀ x : Fin 16, (convFCmpPred x.val).isSome = (decide (1 ≤ x.val ∧ x.val ≤ 14)) := by decide
    exact this ⟨p, hp⟩
  · have hn : fcmpFlagName p = none := by
      unfold fcmpFlagName
      apply List.getElem?_eq_none
      simp; omega
    have hd : decide (1 ≤ p ∧ p ≤ 14) = false := by simp; omega
    simp [convFCmpPred, hn, hd]

/-- "casts": `_convert_cast` keeps the cast kind and the `nsw`/`nuw` (trunc) and `nneg` (zext) flags. -/
theorem convCast_sound (k : DCast) (ovf : Nat) (nneg : Bool) (fl : List IFlag)
    (h : convCastFlags k ovf nneg = some fl) (toTy : Ty) (a : Val) :
    castCore (convCast k).kind toTy a (convCast k = .trunc && fl.contains .nsw)
        (convCast k = .trunc && fl.contains .nuw) (convCast k = .zext && fl.contains .nneg)
      = castCore k.kind toTy a (k = .TruncOp && bit ovf 0) (k = .TruncOp && bit ovf 1) (k = .ZExtOp && nneg) :=
  convCast_core k ovf nneg fl h toTy a

/-- **Main theorem** ("returns, for every input, the value the LLVM semantics of the source operations
prescribe", on the model): if `conv` translates the function `f` to `q`, then for every fuel and every
argument list on which the run of the source is defined (it produces no poison and executes no
undefined behaviour — the inputs the property excludes), the translated function run with the same
fuel returns the same result (the same value, or both runs are still unfinished).  All programs of the
subset: any number of blocks, branches with block arguments, loops, allocas/loads/stores. -/
theorem conv_sound (f : DFunc) (q : IFunc) (h : conv f = some q) (fuel : Nat) (args : List Val)
    (hdef : semD f fuel args ≠ .ub) : semI q fuel args = semD f fuel args := by
  obtain ⟨cs, hc⟩ := conv_unpack h
  obtain ⟨e, rest, hb, hq⟩ := hc.entry
  unfold semI semD at *
  refine run_sim hc fuel 0 args [] _ {} 0 ?_ hdef
  intro blk bindsD hblk hbind
  have hbe : blk = e := by rw [hb] at hblk; simpa using hblk.symm
  subst hbe
  obtain ⟨rfl, _⟩ := bindArgs_zip _ _ _ hbind
  refine ⟨[], by simp [phisOf, evalPhis, allSome], ?_⟩
  have hmem : blk ∈ f.blocks := by rw [hb]; exact List.mem_cons_self
  have := Rel_zip (defs_wf f) (blk.args.map (·.1)) args (eD := []) (eI := []) (fun id hid => by
    simp only [List.mem_map] at hid
    obtain ⟨a, ha, rfl⟩ := hid
    exact AL_get_of_mem _ _ _ hc.distinct (mem_defs_arg f blk hmem a ha)) (fun _ _ _ _ h => by simp [AL.get] at h)
  simpa [hq, List.map_map, Function.comp_def] using this

/-- corollary in the form the harness uses: a defined result of the source is the result of the translation -/
theorem conv_sound_val (f : DFunc) (q : IFunc) (h : conv f = some q) (fuel : Nat) (args : List Val) (v : Val)
    (hv : semD f fuel args = .ok v) : semI q fuel args = .ok v := by
  rw [← hv]; exact conv_sound f q h fuel args (by rw [hv]; simp)

/-! ## the defect that was repaired -/

/-- `f(c : i1, a : i32, b : i32)`: `cond_br c, ^1(a), ^1(b)`; `^1(x)`: `return x` -/
def sameSuccFunc : DFunc :=
  ⟨.int 32,
   [⟨[(0, .int 1), (1, .int 32), (2, .int 32)], [], .condbr 0 1 [1] 1 [2]⟩,
    ⟨[(3, .int 32)], [], .ret (.int 32) 3⟩]⟩

/-- what the pinned `_convert_condbr` emitted for it (re-read from the text): one phi with two different
entries for the single predecessor -/
def sameSuccOldOutput : IFunc :=
  ⟨.int 32, [(0, .int 1), (1, .int 32), (2, .int 32)],
   [⟨[], [], .condbr (.reg (.v 0)) 1 1⟩,
    ⟨[⟨.v 3, .int 32, [(.reg (.v 1), 0), (.reg (.v 2), 0)]⟩], [], .ret (.int 32) (.reg (.v 3))⟩]⟩

/-- LLVM's verifier rejects that phi ("multiple entries for the same basic block with different incoming
values"); and no reading of it can be right for both edges: taking the first entry returns `a` where the
source returns `b`.  The repaired translation merges the operands with `select c, a, b`. -/
theorem condbr_same_successor_counterexample :
    semD sameSuccFunc 5 [.int 1 0, .int 32 10, .int 32 20] = .ok (.int 32 20) ∧
    semI sameSuccOldOutput 5 [.int 1 0, .int 32 10, .int 32 20] = .ok (.int 32 10) ∧
    (conv sameSuccFunc).map (fun q => semI q 5 [.int 1 0, .int 32 10, .int 32 20]) = some (.ok (.int 32 20)) := by
  decide

/-! ## float formats (the float rows of `convert_type`) -/

/-- "the compiled code returns the value the LLVM semantics of the source operations prescribe" needs every
float value to keep its format: the LLVM type names of two different builtin float formats differ, so the
type named in the emitted text determines the format (what the harness' text oracle relies on). -/
theorem FloatFmt.llvmName_injective (a b : FloatFmt) (h : a.llvmName = b.llvmName) : a = b := by
  cases a <;> cases b <;> first | rfl | (revert h; decide)

/-- whenever `convert_type` translates a float type, the emitted LLVM type is the one of the same format -/
theorem convFloatTy_format (a : FloatFmt) (n : String) (h : convFloatTy a = some n) : n = a.llvmName := by
  cases a <;> simp [convFloatTy] at h <;> simp [h, FloatFmt.llvmName]

/-- hence no two float formats are translated to one LLVM type (translated = format preserved, or rejected) -/
theorem convFloatTy_injective (a b : FloatFmt) (n : String) (ha : convFloatTy a = some n)
    (hb : convFloatTy b = some n) : a = b :=
  FloatFmt.llvmName_injective a b ((convFloatTy_format a n ha).symm.trans (convFloatTy_format b n hb))

/-- the storage width does not determine the format (`f16` and `bf16` are both 16 bits wide with different
precision): a table keyed by width cannot satisfy `convFloatTy_format`. -/
theorem floatFmt_width_not_injective_counterexample :
    FloatFmt.f16.bits = FloatFmt.bf16.bits ∧ FloatFmt.f16.precision ≠ FloatFmt.bf16.precision ∧
    FloatFmt.f16.llvmName ≠ FloatFmt.bf16.llvmName := by decide

/-! ## non-vacuity -/

/-- `f(c : i1, a : i8, b : i8)`: `cond_br c, ^1(a), ^1(b)`; `^1(x)`: `x + (-1) nsw`, compare `ult a`,
branch back while true (a loop with a phi, an inline constant and a doubled successor). -/
def exampleFunc : DFunc :=
  ⟨.int 8,
   [⟨[(0, .int 1), (1, .int 8), (2, .int 8)], [], .condbr 0 1 [1] 1 [2]⟩,
    ⟨[(3, .int 8)], [.const 4 8 (-1), .bin .AddOp 5 8 3 4 1 false false, .icmp 6 6 8 5 1],
      .condbr 6 1 [5] 2 [5]⟩,
    ⟨[(7, .int 8)], [], .ret (.int 8) 7⟩]⟩

/-- the translation exists: the hypotheses of `conv_sound` are satisfiable, with a select for the doubled
successor, phis with two and three incoming entries and the `nsw` flag -/
example : (conv exampleFunc).isSome = true := by decide

example : (conv exampleFunc).map (fun q => q.blocks.map fun b => (b.phis.map fun φ => φ.incoming.length, b.instrs.length))
    = some [([], 1), ([3], 2), ([1], 0)] := by decide

/-- a defined run through the loop: `f(false, 9, 3)` counts 3, 2, 1, 0, 255 and leaves the loop with 255, on both sides -/
example : semD exampleFunc 10 [.int 1 0, .int 8 9, .int 8 3] = .ok (.int 8 255) := by decide
example : (conv exampleFunc).map (fun q => semI q 10 [.int 1 0, .int 8 9, .int 8 3]) = some (.ok (.int 8 255)) := by
  decide

/-- an excluded input: `-128 + (-1)` overflows `nsw`, the source run is poison (`ub`) -/
example : semD exampleFunc 10 [.int 1 0, .int 8 9, .int 8 128] = .ub := by decide

/-- the table theorems are not vacuous: e.g. `add` with both flags, `ult` -/
example : convBinFlags .AddOp 3 false false = some [.nsw, .nuw] := rfl
example : convICmpPred 6 = some .ult := rfl
example : convFCmpPred 9 = some .ugt := by decide
example : convFloatTy .f16 = some "half" ∧ convFloatTy .bf16 = none := by decide

end Xdsl.LLVM
