import XdslProofs.C12UnionFind
import XdslProofs.Lemmas.DisjointSetGeneric
/-!
# C12 — the generic `DisjointSet` wrapper (values ↔ indices)

`DisjointSet(values)` keeps `_values`, `_index_by_value` and an `IntDisjointSet` `_base`.  Under the
documented contract — the initial values are pairwise distinct and `add` is given a *new* value —
every wrapper operation is the `IntDisjointSet` operation on the indices of its arguments
(`gstep_eq_uf`, `gds_simulates`), raises `KeyError` exactly for absent values, and therefore inherits
the partition theorems of `C12UnionFind` on values (`gstep_refines`, `gds_history`, …).

Vocabulary (`Lemmas/DisjointSetGeneric.lean`): `GWF g` — wrapper invariant (`_values` duplicate free,
`_base` has one node per value, `_index_by_value[v] = i ↔ _values[i] = v`); `toOp vals o` — the index
operation `o` stands for (`none` if a value is absent); `Fresh`/`Contract` — the contract of `add`;
`GSpec` = values + value pairs unioned so far, `GOutOK` — results the value partition allows,
`GRepr g γ` — `g` represents `γ`.
-/
namespace Xdsl.DisjointSet

/-! ## 1. the wrapper invariant -/

/-- `DisjointSet(vs)` for pairwise distinct `vs` satisfies the wrapper invariant, over the forest of
`len(vs)` singletons. -/
theorem ginit_inv (vs : List Nat) (h : vs.Nodup) :
    GWF (ginit vs) ∧ (ginit vs).base = init vs.length ∧ (ginit vs).values = vs :=
  ⟨ginit_wf vs h, rfl, rfl⟩

/-- Under the invariant the dict lookup succeeds exactly for present values and yields the position
of the value in `_values`: "KeyError exactly for absent values". -/
theorem index_lookup (g : GDS) (h : GWF g) (v : Nat) :
    g.index.get v = if v ∈ g.values then some (g.values.idxOf v) else none := by
  split
  · rename_i hv; exact h.get_of_mem hv
  · rename_i hv; exact h.get_of_not_mem hv

/-- size of the forest after one `IntDisjointSet` step -/
theorem step_size (s : UF) (h : Inv s) (hc : Counts s) (o : Op) :
    (step s o).1.size = if o = .add then s.size + 1 else s.size := by
  have hr := (step_refines s _ (repr_self s h hc) o).2.size
  rw [hr]
  cases o <;> simp only [Spec.step, reduceCtorEq, if_false, if_true] <;> split <;> rfl

/-! ## 2. every wrapper operation is the `UF` operation on indices -/

/-- **Operation-wise.** Under the invariant and the `add` contract: the new `_values` are the old
ones (plus the added value), the invariant is kept, and
* if all value arguments are present, `_base` afterwards is `_base` after the `IntDisjointSet`
  operation on the indices of the arguments, and the result is that operation's result (`find`: read
  through `_values`);
* otherwise the call raises `KeyError` and changes nothing. -/
theorem gstep_eq_uf (g : GDS) (h : GWF g) (hi : Inv g.base) (hc : Counts g.base) (o : GOp)
    (hf : Fresh g.values o) :
    GWF (gstep g o).1 ∧ (gstep g o).1.values = valsStep g.values o ∧
    match toOp g.values o with
    | some o' => (gstep g o).1.base = (step g.base o').1 ∧
        (gstep g o).2 = liftOut g.values (isFind o) (step g.base o').2
    | none => gstep g o = (g, .keyError) := by
  have keep : ∀ o' : Op, o' ≠ .add → ∀ b, GWF (g.lift b (step g.base o')).1 := by
    intro o' ho' b
    refine ⟨h.nodup, ?_, h.index⟩
    have := step_size g.base hi hc o'
    rw [if_neg ho'] at this
    exact this.trans h.size
  cases o with
  | add v =>
    refine ⟨gwf_add h hf, rfl, rfl, rfl⟩
  | find v =>
    by_cases hv : v ∈ g.values
    · simp only [gstep, toOp, h.get_of_mem hv, if_pos hv]
      exact ⟨keep _ (by simp) _, rfl, rfl, rfl⟩
    · simp only [gstep, toOp, h.get_of_not_mem hv, if_neg hv]
      exact ⟨h, rfl, trivial⟩
  | union a b =>
    by_cases hab : a ∈ g.values ∧ b ∈ g.values
    · simp only [gstep, toOp, h.get_of_mem hab.1, h.get_of_mem hab.2, if_pos hab]
      exact ⟨keep _ (by simp) _, rfl, rfl, rfl⟩
    · by_cases ha : a ∈ g.values
      · have hb : b ∉ g.values := fun c => hab ⟨ha, c⟩
        simp only [gstep, toOp, h.get_of_mem ha, h.get_of_not_mem hb, if_neg hab]
        exact ⟨h, rfl, trivial⟩
      · simp only [gstep, toOp, h.get_of_not_mem ha, if_neg hab]
        exact ⟨h, rfl, trivial⟩
  | unionLeft a b =>
    by_cases hab : a ∈ g.values ∧ b ∈ g.values
    · simp only [gstep, toOp, h.get_of_mem hab.1, h.get_of_mem hab.2, if_pos hab]
      exact ⟨keep _ (by simp) _, rfl, rfl, rfl⟩
    · by_cases ha : a ∈ g.values
      · have hb : b ∉ g.values := fun c => hab ⟨ha, c⟩
        simp only [gstep, toOp, h.get_of_mem ha, h.get_of_not_mem hb, if_neg hab]
        exact ⟨h, rfl, trivial⟩
      · simp only [gstep, toOp, h.get_of_not_mem ha, if_neg hab]
        exact ⟨h, rfl, trivial⟩
  | connected a b =>
    by_cases hab : a ∈ g.values ∧ b ∈ g.values
    · simp only [gstep, toOp, h.get_of_mem hab.1, h.get_of_mem hab.2, if_pos hab]
      exact ⟨keep _ (by simp) _, rfl, rfl, rfl⟩
    · by_cases ha : a ∈ g.values
      · have hb : b ∉ g.values := fun c => hab ⟨ha, c⟩
        simp only [gstep, toOp, h.get_of_mem ha, h.get_of_not_mem hb, if_neg hab]
        exact ⟨h, rfl, trivial⟩
      · simp only [gstep, toOp, h.get_of_not_mem ha, if_neg hab]
        exact ⟨h, rfl, trivial⟩

/-- `_base` stays a forest with correct counts along wrapper steps. -/
theorem gstep_base_inv (g : GDS) (h : GWF g) (hi : Inv g.base) (hc : Counts g.base) (o : GOp)
    (hf : Fresh g.values o) : Inv (gstep g o).1.base ∧ Counts (gstep g o).1.base := by
  have := (gstep_eq_uf g h hi hc o hf).2.2
  cases e : toOp g.values o with
  | some o' => rw [e] at this; rw [this.1]; exact step_preserves_inv g.base hi hc o'
  | none => rw [e] at this; rw [this]; exact ⟨hi, hc⟩

/-- **Histories.** Under the contract, `_base` after a wrapper history is `_base` after the translated
index history `transOps` (the calls whose values are all present, on their indices). -/
theorem gds_simulates (os : List GOp) : ∀ (g : GDS), GWF g → Inv g.base → Counts g.base →
    Contract g.values os →
    (grun g os).1.base = (run g.base (transOps g.values os)).1
      ∧ GWF (grun g os).1 ∧ Inv (grun g os).1.base ∧ Counts (grun g os).1.base := by
  induction os with
  | nil => intro g h hi hc _; exact ⟨rfl, h, hi, hc⟩
  | cons o os ih =>
    intro g h hi hc hcon
    obtain ⟨hw, hv, hm⟩ := gstep_eq_uf g h hi hc o hcon.1
    obtain ⟨hi', hc'⟩ := gstep_base_inv g h hi hc o hcon.1
    obtain ⟨e1, e2⟩ := ih (gstep g o).1 hw hi' hc' (hv ▸ hcon.2)
    refine ⟨?_, e2⟩
    show (grun (gstep g o).1 os).1.base = _
    rw [e1, hv, transOps]
    cases e : toOp g.values o with
    | some o' => rw [e] at hm; rw [hm.1]; rfl
    | none => rw [e] at hm; rw [hm]; rfl

/-! ## 3. the partition theorems on values -/

theorem gspec_step_values (γ : GSpec) (o : GOp) : (γ.step o).values = valsStep γ.values o := by
  cases o <;> simp only [GSpec.step, valsStep] <;> split <;> rfl

/-- transport of relatedness between indices and values -/
theorem grepr_rel {g : GDS} (h : GWF g) {σ : Spec} (hn : g.base.size = σ.n)
    (hrange : ∀ q ∈ σ.us, q.1 < σ.n ∧ q.2 < σ.n) {a b : Nat}
    (ha : a ∈ g.values) (hb : b ∈ g.values) :
    Rel σ.us (g.values.idxOf a) (g.values.idxOf b) ↔
      Rel (σ.us.map (Prod.map (valF g.values) (valF g.values))) a b := by
  constructor
  · intro r
    have := rel_map (valF g.values) r
    rwa [valF_idxOf ha, valF_idxOf hb] at this
  · intro r
    refine rel_unmap (valF g.values) (g.values.idxOf ·) ?_ r
    intro q hq
    have := hrange q hq
    rw [← hn, h.size] at this
    exact ⟨h.idxOf_valF this.1, h.idxOf_valF this.2⟩

/-- **One wrapper call refines the value partition.** Under the `add` contract the result is one the
abstract value state allows (`GOutOK`: `find v` returns a value of `v`'s class; `connected a b` is
true iff `a`,`b` are related by the equivalence closure of the value pairs unioned so far;
`union`/`union_left` return true iff the classes were distinct; `KeyError` exactly when a value is
absent) and the new state represents the new abstract state. -/
theorem gstep_refines (g : GDS) (γ : GSpec) (h : GRepr g γ) (o : GOp) (hf : Fresh g.values o) :
    GOutOK γ o (gstep g o).2 ∧ GRepr (gstep g o).1 (γ.step o) := by
  obtain ⟨hw, hvals, σ, hr, hrange, hvus⟩ := h
  obtain ⟨hw', hv', hm⟩ := gstep_eq_uf g hw hr.inv hr.counts o hf
  have hsz : g.values.length = σ.n := hw.size.symm.trans hr.size
  cases o with
  | add v =>
    simp only [toOp] at hm
    refine ⟨by rw [hm.2]; rfl, hw', by rw [hv', hvals, gspec_step_values], ?_⟩
    refine ⟨σ.step .add, ?_, ?_, ?_⟩
    · rw [hm.1]; exact (step_refines g.base σ hr .add).2
    · intro q hq
      have := hrange q hq
      simp only [Spec.step]; omega
    · show γ.vus = _
      rw [hvus, hv']
      apply List.map_congr_left
      intro q hq
      have := hrange q hq
      simp only [valsStep, Prod.map]
      rw [valF_append v (by omega), valF_append v (by omega)]
  | find x =>
    by_cases hx : x ∈ g.values
    · simp only [toOp, if_pos hx] at hm
      have hx' : g.values.idxOf x < σ.n := hsz ▸ List.idxOf_lt_length_iff.mpr hx
      obtain ⟨ho, hr'⟩ := step_refines g.base σ hr (.find (g.values.idxOf x))
      simp only [OutOK, if_pos hx'] at ho
      obtain ⟨r, er, hrn, hrel⟩ := ho
      constructor
      · simp only [GOutOK, ← hvals, if_pos hx]
        refine ⟨valF g.values r, ?_, valF_mem (hsz ▸ hrn), ?_⟩
        · rw [hm.2, er]
          simp [liftOut, isFind, valF, List.getD_eq_getElem?_getD,
            List.getElem?_eq_getElem (hsz ▸ hrn : r < g.values.length)]
        · rw [hvus]
          have := rel_map (valF g.values) hrel
          rwa [valF_idxOf hx] at this
      · refine ⟨hw', by rw [hv', hvals, gspec_step_values], σ, ?_, hrange, by rw [hv']; exact hvus⟩
        rw [hm.1]; simpa only [Spec.step] using hr'
    · simp only [toOp, if_neg hx] at hm
      rw [hm]
      exact ⟨by simp only [GOutOK, ← hvals, if_neg hx],
        ⟨hw, hvals, σ, hr, hrange, hvus⟩⟩
  | union a b =>
    by_cases hab : a ∈ g.values ∧ b ∈ g.values
    · simp only [toOp, if_pos hab] at hm
      have hab' : g.values.idxOf a < σ.n ∧ g.values.idxOf b < σ.n :=
        ⟨hsz ▸ List.idxOf_lt_length_iff.mpr hab.1, hsz ▸ List.idxOf_lt_length_iff.mpr hab.2⟩
      obtain ⟨ho, hr'⟩ := step_refines g.base σ hr (.union (g.values.idxOf a) (g.values.idxOf b))
      simp only [OutOK, if_pos hab'] at ho
      simp only [Spec.step, if_pos hab'] at hr'
      obtain ⟨c, ec, hcr⟩ := ho
      constructor
      · simp only [GOutOK, ← hvals, if_pos hab]
        refine ⟨c, by rw [hm.2, ec]; rfl, ?_⟩
        rw [hcr, hvus, grepr_rel hw hr.size hrange hab.1 hab.2]
      · refine ⟨hw', by rw [hv', hvals, gspec_step_values], _, by rw [hm.1]; exact hr', ?_, ?_⟩
        · intro q hq
          rcases List.mem_cons.mp hq with e | e
          · rw [e]; exact hab'
          · exact hrange q e
        · simp only [GSpec.step, ← hvals, if_pos hab, hv', valsStep, List.map_cons, Prod.map,
            valF_idxOf hab.1, valF_idxOf hab.2, hvus]
    · simp only [toOp, if_neg hab] at hm
      rw [hm]
      exact ⟨by simp only [GOutOK, ← hvals, if_neg hab],
        by simp only [GSpec.step, ← hvals, if_neg hab]; exact ⟨hw, hvals, σ, hr, hrange, hvus⟩⟩
  | unionLeft a b =>
    by_cases hab : a ∈ g.values ∧ b ∈ g.values
    · simp only [toOp, if_pos hab] at hm
      have hab' : g.values.idxOf a < σ.n ∧ g.values.idxOf b < σ.n :=
        ⟨hsz ▸ List.idxOf_lt_length_iff.mpr hab.1, hsz ▸ List.idxOf_lt_length_iff.mpr hab.2⟩
      obtain ⟨ho, hr'⟩ :=
        step_refines g.base σ hr (.unionLeft (g.values.idxOf a) (g.values.idxOf b))
      simp only [OutOK, if_pos hab'] at ho
      simp only [Spec.step, if_pos hab'] at hr'
      obtain ⟨c, ec, hcr⟩ := ho
      constructor
      · simp only [GOutOK, ← hvals, if_pos hab]
        refine ⟨c, by rw [hm.2, ec]; rfl, ?_⟩
        rw [hcr, hvus, grepr_rel hw hr.size hrange hab.1 hab.2]
      · refine ⟨hw', by rw [hv', hvals, gspec_step_values], _, by rw [hm.1]; exact hr', ?_, ?_⟩
        · intro q hq
          rcases List.mem_cons.mp hq with e | e
          · rw [e]; exact hab'
          · exact hrange q e
        · simp only [GSpec.step, ← hvals, if_pos hab, hv', valsStep, List.map_cons, Prod.map,
            valF_idxOf hab.1, valF_idxOf hab.2, hvus]
    · simp only [toOp, if_neg hab] at hm
      rw [hm]
      exact ⟨by simp only [GOutOK, ← hvals, if_neg hab],
        by simp only [GSpec.step, ← hvals, if_neg hab]; exact ⟨hw, hvals, σ, hr, hrange, hvus⟩⟩
  | connected a b =>
    by_cases hab : a ∈ g.values ∧ b ∈ g.values
    · simp only [toOp, if_pos hab] at hm
      have hab' : g.values.idxOf a < σ.n ∧ g.values.idxOf b < σ.n :=
        ⟨hsz ▸ List.idxOf_lt_length_iff.mpr hab.1, hsz ▸ List.idxOf_lt_length_iff.mpr hab.2⟩
      obtain ⟨ho, hr'⟩ :=
        step_refines g.base σ hr (.connected (g.values.idxOf a) (g.values.idxOf b))
      simp only [OutOK, if_pos hab'] at ho
      obtain ⟨c, ec, hcr⟩ := ho
      constructor
      · simp only [GOutOK, ← hvals, if_pos hab]
        refine ⟨c, by rw [hm.2, ec]; rfl, ?_⟩
        rw [hcr, hvus, grepr_rel hw hr.size hrange hab.1 hab.2]
      · refine ⟨hw', by rw [hv', hvals, gspec_step_values], σ, ?_, hrange, by rw [hv']; exact hvus⟩
        rw [hm.1]; simpa only [Spec.step] using hr'
    · simp only [toOp, if_neg hab] at hm
      rw [hm]
      exact ⟨by simp only [GOutOK, ← hvals, if_neg hab],
        ⟨hw, hvals, σ, hr, hrange, hvus⟩⟩

/-- `DisjointSet(vs)` represents "values `vs`, nothing unioned". -/
theorem grepr_init (vs : List Nat) (h : vs.Nodup) : GRepr (ginit vs) { values := vs } :=
  ⟨ginit_wf vs h, rfl, { n := vs.length }, repr_init _, (fun _ hq => by cases hq), rfl⟩

/-- **Every history under the contract**: all results are the ones the value partition allows at that
point, and the final state represents the final abstract state. -/
theorem grun_refines (os : List GOp) : ∀ (g : GDS) (γ : GSpec), GRepr g γ → Contract g.values os →
    GOutsOK γ os (grun g os).2 ∧ GRepr (grun g os).1 (γ.run os) := by
  induction os with
  | nil => intro g γ h _; exact ⟨trivial, h⟩
  | cons o os ih =>
    intro g γ h hc
    obtain ⟨h1, h2⟩ := gstep_refines g γ h o hc.1
    have hv := (gstep_eq_uf g h.wf (h.base.choose_spec.1.inv) (h.base.choose_spec.1.counts) o hc.1).2.1
    obtain ⟨h3, h4⟩ := ih (gstep g o).1 (γ.step o) h2 (hv ▸ hc.2)
    exact ⟨⟨h1, h3⟩, h4⟩

/-- After any history from `DisjointSet(vs)` (distinct `vs`, fresh `add`s): the wrapper invariant
holds, `_values` are the initial values followed by the added ones, `_base` is the forest reached by
the translated index history, and all results along the way were those of the value partition. -/
theorem gds_history (vs : List Nat) (hnd : vs.Nodup) (os : List GOp) (hc : Contract vs os) :
    let g := (grun (ginit vs) os).1
    let γ := GSpec.run { values := vs } os
    GWF g ∧ g.values = γ.values
      ∧ g.base = (run (init vs.length) (transOps vs os)).1
      ∧ GOutsOK { values := vs } os (grun (ginit vs) os).2 := by
  obtain ⟨h1, h2⟩ := grun_refines os (ginit vs) { values := vs } (grepr_init vs hnd) hc
  have h3 := gds_simulates os (ginit vs) (ginit_wf vs hnd) (init_inv _) (init_counts _) hc
  exact ⟨h2.wf, h2.values, h3.1, h1⟩

/-- `find v` in a state that represents `γ`: a present value's representative is a present value of
its class; an absent value raises `KeyError` and nothing changes. -/
theorem find_member_of_repr (g : GDS) (γ : GSpec) (h : GRepr g γ) (v : Nat) :
    if v ∈ g.values then ∃ r, (gstep g (.find v)).2 = .val r ∧ r ∈ g.values ∧ Rel γ.vus v r
    else gstep g (.find v) = (g, .keyError) := by
  have h3 := (gstep_refines g γ h (.find v) trivial).1
  simp only [GOutOK, ← h.values] at h3
  split
  · rename_i hv; simpa only [if_pos hv] using h3
  · rename_i hv
    have := (gstep_eq_uf g h.wf h.base.choose_spec.1.inv h.base.choose_spec.1.counts
      (.find v) trivial).2.2
    simpa only [toOp, if_neg hv] using this

/-- `find v` after any history under the contract (see `find_member_of_repr`). -/
theorem gds_find_member (vs : List Nat) (hnd : vs.Nodup) (os : List GOp) (hc : Contract vs os)
    (v : Nat) :
    let g := (grun (ginit vs) os).1
    let γ := GSpec.run { values := vs } os
    if v ∈ g.values then ∃ r, (gstep g (.find v)).2 = .val r ∧ r ∈ g.values ∧ Rel γ.vus v r
    else gstep g (.find v) = (g, .keyError) := by
  obtain ⟨_, h2⟩ := grun_refines os (ginit vs) { values := vs } (grepr_init vs hnd) hc
  intro g γ
  exact find_member_of_repr g γ h2 v

/-- `connected`, `union`, `union_left` after any history, for present values: `connected` answers
the equivalence closure of the value pairs unioned so far, the unions return true iff the classes
were distinct. -/
theorem gds_connected_union (vs : List Nat) (hnd : vs.Nodup) (os : List GOp) (hc : Contract vs os)
    (a b : Nat) :
    let g := (grun (ginit vs) os).1
    let γ := GSpec.run { values := vs } os
    a ∈ g.values → b ∈ g.values →
    (∃ c, (gstep g (.connected a b)).2 = .bool c ∧ (c = true ↔ Rel γ.vus a b))
    ∧ (∃ c, (gstep g (.union a b)).2 = .bool c ∧ (c = true ↔ ¬ Rel γ.vus a b))
    ∧ (∃ c, (gstep g (.unionLeft a b)).2 = .bool c ∧ (c = true ↔ ¬ Rel γ.vus a b)) := by
  obtain ⟨_, h2⟩ := grun_refines os (ginit vs) { values := vs } (grepr_init vs hnd) hc
  intro g γ ha hb
  have hab : a ∈ γ.values ∧ b ∈ γ.values := by rw [← h2.values]; exact ⟨ha, hb⟩
  have h3 := (gstep_refines g γ h2 (.connected a b) trivial).1
  have h4 := (gstep_refines g γ h2 (.union a b) trivial).1
  have h5 := (gstep_refines g γ h2 (.unionLeft a b) trivial).1
  simp only [GOutOK, if_pos hab] at h3 h4 h5
  exact ⟨h3, h4, h5⟩

/-- "KeyError exactly for absent values": a call raises `KeyError` iff one of its value arguments is
not in `_values` (and then it has no effect). -/
theorem gds_keyError_iff (g : GDS) (γ : GSpec) (h : GRepr g γ) (o : GOp) (hf : Fresh g.values o) :
    (gstep g o).2 = .keyError ↔ toOp g.values o = none := by
  have h1 := (gstep_refines g γ h o hf).1
  cases o with
  | add v => simp only [GOutOK] at h1; simp [h1, toOp]
  | find x =>
    simp only [GOutOK, ← h.values, toOp] at h1 ⊢
    split at h1
    · obtain ⟨r, e, _⟩ := h1; simp [*]
    · simp [*]
  | union a b =>
    simp only [GOutOK, ← h.values, toOp] at h1 ⊢
    split at h1
    · obtain ⟨r, e, _⟩ := h1; simp [*]
    · simp [*]
  | unionLeft a b =>
    simp only [GOutOK, ← h.values, toOp] at h1 ⊢
    split at h1
    · obtain ⟨r, e, _⟩ := h1; simp [*]
    · simp [*]
  | connected a b =>
    simp only [GOutOK, ← h.values, toOp] at h1 ⊢
    split at h1
    · obtain ⟨r, e, _⟩ := h1; simp [*]
    · simp [*]

/-- "Left-biased union keeps the left representative", on values: right after `union_left(a, b)`
`find` of any value of the merged class (in particular `a` and `b`) returns what `find a` returned
right before it. -/
theorem g_union_left_rep (g : GDS) (γ : GSpec) (h : GRepr g γ) (a b y : Nat)
    (ha : a ∈ g.values) (hb : b ∈ g.values) (hy : y ∈ g.values)
    (hrel : Rel ((a, b) :: γ.vus) y a) :
    (gstep (gstep g (.unionLeft a b)).1 (.find y)).2 = (gstep g (.find a)).2 := by
  obtain ⟨hw, hvals, σ, hr, hrange, hvus⟩ := h
  have hsz : g.values.length = σ.n := hw.size.symm.trans hr.size
  have hlt : ∀ {v}, v ∈ g.values → g.values.idxOf v < σ.n :=
    fun hv => hsz ▸ List.idxOf_lt_length_iff.mpr hv
  obtain ⟨hw1, hv1, hm1⟩ := gstep_eq_uf g hw hr.inv hr.counts (.unionLeft a b) trivial
  obtain ⟨hi1, hc1⟩ := gstep_base_inv g hw hr.inv hr.counts (.unionLeft a b) trivial
  have hm2 := (gstep_eq_uf _ hw1 hi1 hc1 (.find y) trivial).2.2
  have hm3 := (gstep_eq_uf g hw hr.inv hr.counts (.find a) trivial).2.2
  simp only [valsStep] at hv1
  simp only [toOp, if_pos (And.intro ha hb)] at hm1
  simp only [toOp, hv1, if_pos hy] at hm2
  simp only [toOp, if_pos ha] at hm3
  have hr1 := (step_refines g.base σ hr
    (.unionLeft (g.values.idxOf a) (g.values.idxOf b))).2
  rw [hm2.2, hm3.2, hm1.1,
    step_find_out _ hr1.inv (x := g.values.idxOf y) (by
      rw [hr1.size]; simp only [Spec.step, if_pos (And.intro (hlt ha) (hlt hb))]; exact hlt hy),
    step_find_out _ hr.inv (x := g.values.idxOf a) (by rw [hr.size]; exact hlt ha)]
  have key : Rel ((g.values.idxOf a, g.values.idxOf b) :: σ.us) (g.values.idxOf y)
      (g.values.idxOf a) := by
    refine rel_unmap (valF g.values) (g.values.idxOf ·) ?_ ?_
    · intro q hq
      rcases List.mem_cons.mp hq with e | e
      · rw [e]
        exact ⟨hw.idxOf_valF (hsz ▸ hlt ha), hw.idxOf_valF (hsz ▸ hlt hb)⟩
      · have := hrange q e
        rw [← hsz] at this
        exact ⟨hw.idxOf_valF this.1, hw.idxOf_valF this.2⟩
    · simpa only [List.map_cons, Prod.map, valF_idxOf ha, valF_idxOf hb, ← hvus] using hrel
  rw [(unionLeft_keeps_left_rep g.base σ hr _ _ (hlt ha) (hlt hb)).1 _ key]
  rfl

/-! ## non-vacuity -/

/-- a concrete wrapper history over values `7, 3, 9` (indices 0, 1, 2), with a `KeyError` for the
absent value `5`, an `add 5`, and `union_left 5 7` making `5` the representative of `{7, 3, 5}` -/
example :
    (grun (ginit [7, 3, 9]) [.union 7 3, .connected 3 7, .connected 3 9, .find 5, .add 5,
        .unionLeft 5 7, .find 3, .find 9]).2
      = [.bool true, .bool true, .bool false, .keyError, .unit, .bool true, .val 5, .val 9] := by
  decide

/-- outside the contract (duplicate initial value) the index map is not the inverse of `_values`:
position 0 is unreachable -/
example : (ginit [4, 4]).index.get 4 = some 1 ∧ ¬ GWF (ginit [4, 4]) := by
  refine ⟨by decide, fun h => ?_⟩
  have := h.nodup
  simp [ginit] at this

end Xdsl.DisjointSet
