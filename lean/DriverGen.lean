import XdslModel.Generated.Dispatch
import XdslModel.Prelude
/-!
Driver for the *generated* kernels (translator output).  Protocol: one call per line
`<Module.function> <int> <int> …` → `int r` | `bool b` | `pair a b` | `none` | `bad-op`.
Kept separate from `driver` so that a translation that no longer compiles cannot take the
hand-written models' driver down with it.
-/
open Xdsl

def parseInt? (s : String) : Option Int := s.toInt?

def handle (line : String) : String :=
  match words line with
  | name :: rest =>
    match rest.mapM parseInt? with
    | some args => (Generated.call name args).getD "bad-op"
    | none => "bad-op"
  | [] => "bad-op"

partial def loop (h : IO.FS.Stream) (out : IO.FS.Stream) : IO Unit := do
  let line ← h.getLine
  if line.isEmpty then return ()
  out.putStrLn (handle (line.trimAsciiEnd).toString)
  loop h out

def main : IO UInt32 := do
  loop (← IO.getStdin) (← IO.getStdout)
  return 0
