import XdslModel
/-!
Line-protocol driver.  First line: `MODEL <name>`.  Every following line is one operation; exactly
one output line is printed per input line.  `XdslModel.Registry` maps names to steppers.
-/
open Xdsl

partial def loop {σ : Type} (h : IO.FS.Stream) (out : IO.FS.Stream) (step : σ → String → σ × String)
    (s : σ) : IO Unit := do
  let line ← h.getLine
  if line.isEmpty then return ()
  let line := (line.trimAsciiEnd).toString
  let (s', o) := step s line
  out.putStrLn o
  loop h out step s'

def main : IO UInt32 := do
  let stdin ← IO.getStdin
  let stdout ← IO.getStdout
  let hdr ← stdin.getLine
  match words (hdr.trimAsciiEnd).toString with
  | ["MODEL", name] =>
    match Registry.run? name with
    | some k => k (fun step s => loop stdin stdout step s); stdout.flush; return 0
    | none => IO.eprintln s!"unknown model {name}"; return 2
  | _ => IO.eprintln "expected: MODEL <name>"; return 2
