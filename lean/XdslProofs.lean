import XdslProofs.C12
import XdslProofs.C12Worklist
import XdslProofs.C15
import XdslProofs.C12UnionFind
