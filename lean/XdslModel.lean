import XdslModel.Registry
