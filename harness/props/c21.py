"""C21 — x86 backend code computes the source results and honours the SysV ABI."""
from __future__ import annotations

import hashlib
import io
import json
import re
from typing import Any, Sequence

from vp import core

from props import c21_native, c21_rules

META = {
    "title": "x86 backend code computes the source results and honours the SysV ABI",
    "category": "translation_validation",
    "design_ref": "DESIGN.md §5 C21",
    "lean_modules": ["XdslProofs.C21", "XdslProofs.C21Prologue", "XdslProofs.C21Rules"],
    "text": (
        "Lean: an x86-64 subset machine (16 GPRs as BitVec 64, qword-granular memory; mov r,r / r,imm / "
        "r,[rsp+k] / [rsp+k],r, add, sub, imul, and, or, xor, push, pop, ret, labels; 64/32/16/8-bit operand "
        "sizes) and a symbolic-execution validator over integer polynomials. validate_sound: "
        "validate src asm = true ⇒ for EVERY entry state the machine reaches ret and the low w bits of rax "
        "equal the MLIR value of the source function on the SysV arguments found in that state (registers "
        "rdi,rsi,rdx,rcx,r8,r9 and stack slots [rsp+8(j+1)]). frame_sound: frameOk asm = true (label* push* "
        "body pop* ret with pops mirroring the pushes and a body that neither touches rsp/memory nor writes "
        "an unsaved callee-saved register) ⇒ for EVERY entry state rbx,rbp,r12–r15 are restored, rsp = entry "
        "rsp + 8 and memory outside the pushed slots is unchanged. abi_sound combines both. The prologue/epilogue "
        "insertion itself (repaired code) is modelled (insertPrologue: callee-saved registers by index in order "
        "of first definition, entry-rsp-relative loads rebased by the bytes pushed) and proved correct for EVERY "
        "register-allocated body: insertPrologue_frameOk/_restores (frame obligations) and "
        "insertPrologue_preserves (no register outside the callee-saved set, in particular rax, changes); the "
        "model's output is compared with the real pass output on every compiled function. The ∀-inputs part "
        "is a theorem; the ∀-programs part is enumeration: every program the real pipeline compiles in this "
        "run is parsed from the emitted x86-asm text and certified by the Lean validator, assembled with the "
        "system assembler, linked with a C/assembly trampoline and called natively on boundary + random "
        "argument vectors (result vs. an xDSL-independent Python evaluation of the expression, callee-saved "
        "registers and rsp snapshot before/after). The Lean machine itself is cross-checked against the CPU "
        "on the same calls and on random instruction sequences. "
        "RULES leg (XdslModel/X86Rules.lean, XdslProofs/C21Rules.lean): the scalar-integer lowering patterns themselves "
        "(ArithConstantToX86, ArithBinaryToX86 addi/muli, LowerFuncOp entry sequence, LowerReturnOp, PtrAddToX86, "
        "PtrLoadToX86/PtrStoreToX86 on non-vector values) and the four patterns of canonicalization_patterns/x86.py "
        "are modelled as rules and proved sound once and for all: for ALL operand values and EVERY machine state "
        "satisfying the rule's register precondition the emitted sequence leaves the MLIR result (Sem.intBin) in the "
        "destination at the operand size of the type (64/32/16/8) and changes no other register or memory "
        "(lower{Constant,Binary,FuncEntry,Return,PtrAdd,PtrLoad,PtrStore}_sound, *_ok_iff for what the pattern "
        "rejects, x86_canon_sound for the canonicalization rules). The rule model is tied to the real patterns by "
        "running the real pass / pattern on single-operation inputs over operation x type x immediate x operand "
        "shape and comparing the emitted instruction list with the rule's; the emitted list is also executed on the "
        "Lean machine (and a sample on the CPU) against an independent Python evaluation; generated functions "
        "through the two lowering passes must give lowerSrc's code (lowerSrc_sound), and the pipeline's canonicalize "
        "after register allocation is checked before/after on the machine and against the canonicalization rules."
    ),
    "technique": (
        "translation validation with a validator proved sound in Lean 4 + native execution of the assembled "
        "output + model-vs-CPU differential test of the Lean x86 machine"
    ),
    "level_note": (
        "Quantifier: programs are enumerated (generated i64/index/i32/i16/i8 functions), inputs are universally "
        "quantified in the theorems. Pipeline exceptions (OutOfRegisters, immediates outside si32, "
        "unsupported arith ops) mean 'does not compile' and are outside the statement (counted). Integer "
        "results narrower than 64 bits are compared on their low w bits (SysV leaves the rest of rax "
        "undefined) and narrow arguments are passed with random upper bits. Trusted: Lean kernel; the "
        "hand-written machine XdslModel/X86.lean (tied to the CPU by differential execution only); the "
        "asm-text parser in this file (every emitted line must parse, the parsed program is re-run natively "
        "and on the model); GNU as / gcc / the CPU; the trampoline. Programs whose polynomial exceeds the "
        "validator's size guard are checked natively and on the Lean machine only (counted as toobig). "
        "Rules leg: the rule theorems are universal over operand values and machine states; what ties a rule to "
        "the real pattern is the enumerated comparison of emitted sequences (virtual registers: sources 100.., new "
        "temporaries 200..). Register preconditions (destination of an in-place update differs from the other "
        "operand's register; new registers of the entry sequence are distinct and not argument registers still to "
        "be read) are hypotheses the register allocator has to establish - they hold for distinct SSA values before "
        "allocation (entryOk_virtual) and are checked per program by the validator after allocation. Not modelled: "
        "float rows of the arith table, vector patterns, flags. Memory of the extended machine is qword-granular "
        "(narrow stores replace the low bits of a slot). The canonicalization theorems assume that the facts read "
        "off the defining operations hold when the instruction executes; for register-allocated code this is not "
        "implied by SSA (dmConstantOffset_clobbered_counterexample). What the C21 sentence needs of them is judged: "
        "the canonicalize that the documented pipeline runs after x86-allocate-registers on code lowered from "
        "func/arith functions (register parameters, stack-parameter loads, constants, add/imul) is compared "
        "before/after on the Lean machine on all 16 registers at the function's width and with the rules' prediction "
        "(rules.pipeline_canon.*), as are the mov/add snippet shapes. OUTSIDE the quantifier and therefore only "
        "observed (counted under rules.outside_pipeline_shapes, compared with the Lean rule for correspondence, never "
        "reported as a failure): the ptr_xdsl lowering patterns and every {DM,MS}_Operation_ConstantOffset snippet "
        "whose memory operand is computed by x86.rs.add - the func/arith pipeline only addresses memory through the "
        "rsp block argument. Observation: on the pinned tree the ConstantOffset patterns rewrite the "
        "'alloc-clobber' shapes (copy already in a register, source register overwritten before the access) "
        "unsoundly (rules.outside_pipeline_shapes.rewritten_unsoundly: all of them, 24 per quick run); this is not a "
        "violation of C21."
    ),
    "rule": (
        "streams: regression seeds (minimal inputs of the three defects found), systematic families "
        "(sum/product/Horner/many-live over 0..10 arguments × 5 types), random straight-line functions "
        "(0..10 args, 0..14 ops, boundary and random constants, chain/reuse/many-live operand profiles, rare "
        "unsupported ops), random instruction sequences for the machine model; rules leg: pattern x type "
        "(i64,i32,i16,i8,index,ptr + rejected i1,i7,i24,i128,float,vector,tensor,memref) x boundary/random "
        "immediates x operand shape (distinct/same/swapped/constant/chained operands; 0..12 parameters of mixed "
        "types; allocated/unallocated/pre-allocated/clobbered registers for the canonicalization snippets), "
        "non-trivial = a pattern fired and produced code (distinct = distinct input x emitted sequence). A compiled program is "
        "non-trivial when its assembly has ≥2 arithmetic instructions or reads a stack argument or "
        "pushes a callee-saved register; distinct = distinct assembly text."
    ),
    "trusted_base": [
        "harness/props/c21.py (generator, asm-text parser, Python expression evaluator, comparison)",
        "harness/props/c21_rules.py (IR-to-instruction extraction of the rules leg, Python semantics of addi/muli/constant)",
        "harness/props/c21_native.py (C harness + assembly trampoline), GNU as, gcc, the CPU",
        "hand-written Lean x86 machine XdslModel/X86.lean (differentially tested against the CPU each run)",
    ],
    "budget": {"quick": 75, "thorough": 900},
}

PIPELINE = (
    "convert-func-to-x86-func,convert-arith-to-x86,reconcile-unrealized-casts,canonicalize,"
    "x86-regalloc-legalize,x86-allocate-registers,canonicalize,x86-prologue-epilogue-insertion"
)

TYPES = {"i64": 64, "index": 64, "i32": 32, "i16": 16, "i8": 8}
OPNAMES = {"a": "arith.addi", "m": "arith.muli", "s": "arith.subi", "n": "arith.andi", "o": "arith.ori", "x": "arith.xori"}
M64 = (1 << 64) - 1

CS_NAMES = ["rbx", "rbp", "r12", "r13", "r14", "r15"]
CS_IDX = [3, 5, 12, 13, 14, 15]

# ---------------------------------------------------------------------------------------------
# cases → MLIR text, direct evaluation
# ---------------------------------------------------------------------------------------------


def case_to_mlir(case: dict, name: str) -> str:
    ty = case["ty"]
    n = case["nargs"]
    args = ", ".join(f"%a{i}: {ty}" for i in range(n))
    names = [f"%a{i}" for i in range(n)]
    body = []
    for k, op in enumerate(case["ops"]):
        r = f"%v{k}"
        if op[0] == "c":
            body.append(f"  {r} = arith.constant {op[1]} : {ty}")
        else:
            body.append(f"  {r} = {OPNAMES[op[0]]} {names[op[1]]}, {names[op[2]]} : {ty}")
        names.append(r)
    body.append(f"  func.return {names[case['ret']]} : {ty}")
    return f"func.func @{name}({args}) -> {ty} {{\n" + "\n".join(body) + "\n}\n"


def py_eval(case: dict, args: Sequence[int]) -> int:
    """MLIR integer semantics of the generated expression, independent of xDSL: everything modulo 2^w."""
    w = TYPES[case["ty"]]
    mask = (1 << w) - 1
    vals = [a & mask for a in args[: case["nargs"]]]
    for op in case["ops"]:
        k = op[0]
        if k == "c":
            v = op[1]
        else:
            x, y = vals[op[1]], vals[op[2]]
            v = {"a": x + y, "m": x * y, "s": x - y, "n": x & y, "o": x | y, "x": x ^ y}[k]
        vals.append(v & mask)
    return vals[case["ret"]]


def poly_size(case: dict, cap: int = 400) -> int | None:
    """number of monomials of the polynomial of the returned value (None: above cap / not polynomial)"""
    polys: list[dict[tuple[int, ...], int]] = [{(i,): 1} for i in range(case["nargs"])]
    for op in case["ops"]:
        if op[0] == "c":
            p = {(): op[1]} if op[1] else {}
        elif op[0] in "as":
            p = dict(polys[op[1]])
            sign = 1 if op[0] == "a" else -1
            for m, c in polys[op[2]].items():
                p[m] = p.get(m, 0) + sign * c
            p = {m: c for m, c in p.items() if c}
        elif op[0] == "m":
            x, y = polys[op[1]], polys[op[2]]
            if len(x) * len(y) > 40 * cap:
                return None
            p = {}
            for m1, c1 in x.items():
                for m2, c2 in y.items():
                    m = tuple(sorted(m1 + m2))
                    p[m] = p.get(m, 0) + c1 * c2
            p = {m: c for m, c in p.items() if c}
        else:
            return None
        if len(p) > cap:
            return None
        polys.append(p)
    return len(polys[case["ret"]])


# ---------------------------------------------------------------------------------------------
# real pipeline
# ---------------------------------------------------------------------------------------------

_PIPE: Any = None
_PRE: dict[str, str] = {}


def _pipeline() -> Any:
    """the documented pipeline; a callback keeps the assembly as it is just before the last pass
    (prologue/epilogue insertion) in `_PRE["asm"]`"""
    global _PIPE
    if _PIPE is None:
        from xdsl.dialects.x86.ops import X86AsmTarget
        from xdsl.passes import PassPipeline
        from xdsl.transforms import get_all_passes

        def between(prev: Any, module: Any, nxt: Any) -> None:
            if nxt is not None and nxt.name == "x86-prologue-epilogue-insertion":
                out = io.StringIO()
                try:
                    X86AsmTarget().emit(None, module, out)  # type: ignore[arg-type]
                    _PRE["asm"] = out.getvalue()
                except Exception:  # noqa: BLE001
                    _PRE.pop("asm", None)

        _PIPE = PassPipeline.parse_spec(get_all_passes(), PIPELINE, between)
    return _PIPE


def compile_text(mlir: str) -> tuple[str, str]:
    """('ok', x86-asm text) or ('raise', exception class name [+ short message])"""
    _PRE.pop("asm", None)
    from xdsl.context import Context
    from xdsl.dialects import get_all_dialects
    from xdsl.dialects.x86.ops import X86AsmTarget
    from xdsl.parser import Parser

    ctx = Context()
    for n, f in get_all_dialects().items():
        ctx.register_dialect(n, f)
    try:
        module = Parser(ctx, mlir).parse_module()
    except Exception as e:  # noqa: BLE001
        raise core.InfraError(f"generated MLIR does not parse: {e}\n{mlir}")
    import contextlib

    try:
        with contextlib.redirect_stdout(io.StringIO()), contextlib.redirect_stderr(io.StringIO()):
            _pipeline().apply(ctx, module)
            out = io.StringIO()
            X86AsmTarget().emit(ctx, module, out)
    except Exception as e:  # noqa: BLE001
        return "raise", core.exc_name(e)
    return "ok", out.getvalue()


# ---------------------------------------------------------------------------------------------
# asm text → instruction tokens of the Lean model
# ---------------------------------------------------------------------------------------------

R64 = ["rax", "rcx", "rdx", "rbx", "rsp", "rbp", "rsi", "rdi"] + [f"r{i}" for i in range(8, 16)]
R32 = ["eax", "ecx", "edx", "ebx", "esp", "ebp", "esi", "edi"] + [f"r{i}d" for i in range(8, 16)]
R16 = ["ax", "cx", "dx", "bx", "sp", "bp", "si", "di"] + [f"r{i}w" for i in range(8, 16)]
R8 = ["al", "cl", "dl", "bl", "spl", "bpl", "sil", "dil"] + [f"r{i}b" for i in range(8, 16)]
REGS: dict[str, tuple[int, str]] = {}
for _names, _sz in ((R64, "q"), (R32, "d"), (R16, "w"), (R8, "b")):
    for _i, _n in enumerate(_names):
        REGS[_n] = (_i, _sz)

_MEM = re.compile(r"^\[rsp(?:([+-]\d+))?\]$")
_INT = re.compile(r"^-?\d+$")


def parse_asm(text: str) -> tuple[list[str] | None, str]:
    """Returns (tokens, '') or (None, offending line).  One token string per instruction, in the
    Lean protocol: mov/movi/ld/st/alu/push/pop/ret/label."""
    out: list[str] = []
    for raw in text.splitlines():
        line = raw.split("#", 1)[0].strip()
        if not line or line in (".intel_syntax noprefix", ".text"):
            continue
        if re.fullmatch(r"[A-Za-z_.$][\w.$]*:", line):
            out.append("label")
            continue
        m = re.fullmatch(r"(\w+)(?:\s+(.*))?", line)
        if not m:
            return None, raw
        mn, rest = m.group(1), (m.group(2) or "")
        ops = [o.strip() for o in rest.split(",")] if rest else []
        if mn == "ret" and not ops:
            out.append("ret")
        elif mn in ("push", "pop") and len(ops) == 1 and ops[0] in REGS and REGS[ops[0]][1] == "q":
            out.append(f"{mn} {REGS[ops[0]][0]}")
        elif mn == "mov" and len(ops) == 2:
            d, s = ops
            if d in REGS and s in REGS and REGS[d][1] == REGS[s][1]:
                out.append(f"mov {REGS[d][1]} {REGS[d][0]} {REGS[s][0]}")
            elif d in REGS and _INT.match(s):
                out.append(f"movi {REGS[d][1]} {REGS[d][0]} {int(s)}")
            elif d in REGS and _MEM.match(s):
                out.append(f"ld {REGS[d][1]} {REGS[d][0]} {int(_MEM.match(s).group(1) or 0)}")  # type: ignore[union-attr]
            elif s in REGS and REGS[s][1] == "q" and _MEM.match(d):
                out.append(f"st {int(_MEM.match(d).group(1) or 0)} {REGS[s][0]}")  # type: ignore[union-attr]
            else:
                return None, raw
        elif mn in ("add", "sub", "imul", "and", "or", "xor") and len(ops) == 2 and ops[0] in REGS and ops[1] in REGS \
                and REGS[ops[0]][1] == REGS[ops[1]][1]:
            out.append(f"alu {mn} {REGS[ops[0]][1]} {REGS[ops[0]][0]} {REGS[ops[1]][0]}")
        else:
            return None, raw
    return out, ""


def live_values(case: dict) -> set[int]:
    """value indices the returned value depends on"""
    n = case["nargs"]
    live = {case["ret"]}
    for k in reversed(range(len(case["ops"]))):
        op = case["ops"][k]
        if n + k in live and op[0] != "c":
            live.update((op[1], op[2]))
    return live


def lean_src(case: dict) -> str | None:
    """source program in the Lean protocol; an op outside {const, addi, muli} is replaced by a
    placeholder constant when the result does not depend on it, otherwise the case is not expressible"""
    toks = []
    live = live_values(case)
    for k, op in enumerate(case["ops"]):
        if op[0] == "c":
            toks.append(f"c {op[1]}")
        elif op[0] in "am":
            toks.append(f"{op[0]} {op[1]} {op[2]}")
        elif case["nargs"] + k not in live:
            toks.append("c 0")
        else:
            return None
    return " ; ".join(toks)


def lean_supported(tokens: Sequence[str]) -> bool:
    """every operand size of the parsed subset (q, d, w, b) is modelled"""
    return True


SZ_LETTER = {64: "q", 32: "d", 16: "w", 8: "b"}


# ---------------------------------------------------------------------------------------------
# generators
# ---------------------------------------------------------------------------------------------

BOUNDARY_CONSTS = [0, 1, -1, 2, -2, 3, 7, 127, 128, 255, 256, -128, -129, 32767, 32768, 65535, 65536,
                   2**31 - 1, -(2**31), 2**31 - 2, -(2**31) + 1]
OUT_OF_IMM_CONSTS = [2**31, 2**32 - 1, 2**32, -(2**31) - 1, 2**63 - 1, -(2**63), 5000000000]


def gen_const(rng: Any, ty: str) -> int:
    w = TYPES[ty]
    lo, hi = -(1 << (w - 1)), (1 << (w - 1)) - 1
    r = rng.random()
    if r < 0.45:
        c = rng.choice(BOUNDARY_CONSTS)
    elif r < 0.75:
        c = rng.randint(-20, 20)
    elif r < 0.95:
        c = rng.randint(max(lo, -(2**31)), min(hi, 2**31 - 1))
    else:
        c = rng.choice(OUT_OF_IMM_CONSTS)
    # arith.constant of type iN accepts [-2^(N-1), 2^N); keep to the signed range so that it parses
    if c < lo or c > hi:
        c = ((c - lo) % (1 << w)) + lo
    return c


def gen_live_case(rng: Any, ty: str) -> dict:
    """k values that are all live at once (register pressure around the size of the pool: 12 minus the
    argument registers in use), then folded together starting with the youngest"""
    nargs = rng.randint(1, 8)
    k = rng.randint(3, 14 - min(nargs, 6))
    ops: list[list[Any]] = []
    prod: list[int] = []
    for _ in range(k):
        r = rng.random()
        if r < 0.25:
            ops.append(["c", gen_const(rng, ty)])
        else:
            ops.append(["a" if r < 0.7 else "m", rng.randrange(nargs), rng.randrange(nargs + len(ops))])
        prod.append(nargs + len(ops) - 1)
    acc = prod[-1]
    for v in reversed(prod[:-1]):
        ops.append(["a" if rng.random() < 0.8 else "m", acc, v])
        acc = nargs + len(ops) - 1
    case = {"ty": ty, "nargs": nargs, "ops": ops, "ret": acc}
    if poly_size(case, 150) is None:
        case["ops"] = [o if o[0] != "m" else ["a", o[1], o[2]] for o in ops]
    return case


def gen_case(rng: Any, ty: str, profile: str, max_poly: int | None) -> dict:
    if profile == "live":
        return gen_live_case(rng, ty)
    nargs = rng.choice([0, 1, 1, 2, 2, 3, 3, 4, 5, 6, 6, 7, 8, 9, 10])
    if profile == "stack":
        nargs = rng.randint(7, 10)
    nops = rng.randint(0, 14)
    ops: list[list[Any]] = []
    nvals = nargs

    def pick() -> int:
        if profile == "chain" and nvals > 0 and rng.random() < 0.7:
            return nvals - 1
        return rng.randrange(nvals)

    for k in range(nops):
        r = rng.random()
        if nvals == 0 or r < 0.18:
            op = ["c", gen_const(rng, ty)]
        else:
            kind = "a" if r < 0.62 else "m"
            if rng.random() < 0.012:
                kind = rng.choice("snox")
            op = [kind, pick(), pick()]
        cand = {"ty": ty, "nargs": nargs, "ops": ops + [op], "ret": nvals}
        if max_poly is not None and op[0] == "m" and poly_size(cand, max_poly) is None:
            op = ["a", op[1], op[2]]
        ops.append(op)
        nvals += 1
    if nvals == 0:
        ops.append(["c", gen_const(rng, ty)])
        nvals = 1
    ret = nvals - 1 if rng.random() < 0.85 else rng.randrange(nvals)
    return {"ty": ty, "nargs": nargs, "ops": ops, "ret": ret}


def systematic_cases() -> list[dict]:
    cases: list[dict] = []
    for ty in TYPES:
        for n in range(0, 11):
            if n == 0:
                cases.append({"ty": ty, "nargs": 0, "ops": [["c", -1]], "ret": 0})
                continue
            # sum of all arguments, left to right
            ops: list[list[Any]] = []
            acc = 0
            for i in range(1, n):
                ops.append(["a", acc, i])
                acc = n + len(ops) - 1
            cases.append({"ty": ty, "nargs": n, "ops": ops, "ret": acc})
            # product of (a_i + 1) — Horner-like chain with a constant
            ops = [["c", 1]]
            acc = None
            for i in range(n):
                ops.append(["a", i, n])
                t = n + len(ops) - 1
                if acc is None:
                    acc = t
                else:
                    ops.append(["m", acc, t])
                    acc = n + len(ops) - 1
            if n <= 6:
                cases.append({"ty": ty, "nargs": n, "ops": ops, "ret": acc})
            # last argument only (a stack argument when n > 6), and first + last
            cases.append({"ty": ty, "nargs": n, "ops": [], "ret": n - 1})
            cases.append({"ty": ty, "nargs": n, "ops": [["m", 0, n - 1], ["a", n, n - 1]], "ret": n + 1})
    # k values live at once: squares of one argument plus constants, then summed backwards
    for ty in ("i64", "i32"):
        for k in range(2, 13):
            ops = []
            for j in range(k):
                ops.append(["c", j + 2])
            for j in range(k):
                ops.append(["m", 0, 1 + j])
            acc = 1 + k            # value index of the first product (nargs = 1)
            for j in range(1, k):
                ops.append(["a", acc, 1 + k + j])
                acc = 1 + len(ops) - 1
            cases.append({"ty": ty, "nargs": 1, "ops": ops, "ret": acc})
    return cases


# the minimal inputs of the defects this check found (kept in the enumeration for ever)
REGRESSION_CASES: list[dict] = [
    # stack argument read after the prologue pushed a callee-saved register
    {"ty": "i64", "nargs": 7, "ops": [["a", 0, 1], ["a", 7, 2], ["a", 8, 3], ["a", 9, 4], ["a", 10, 5], ["a", 11, 6]], "ret": 12},
    # callee-saved register written through its 32-bit name
    {"ty": "i32", "nargs": 6, "ops": [["a", 0, 1], ["a", 6, 2], ["a", 7, 3], ["a", 8, 4], ["a", 9, 5]], "ret": 10},
    # 8-bit multiplication
    {"ty": "i8", "nargs": 2, "ops": [["m", 0, 1]], "ret": 2},
]

BOUNDARY_ARGS = [0, 1, M64, 2**63, 2**63 - 1, 2**32, 2**32 - 1, 2**31, 2**31 - 1, 2, 3, 0xFFFF, 0x10000, 0xFF, 0x100,
                 0x8000000080000000, 0xFFFFFFFF00000000, 0x00000000FFFFFFFF, 0xAAAAAAAAAAAAAAAA, 0x5555555555555555]


def gen_vectors(rng: Any, nargs: int, k: int) -> list[list[int]]:
    vs = []
    for j in range(k):
        if j == 0:
            vs.append([rng.choice(BOUNDARY_ARGS) for _ in range(nargs)])
        elif j == 1:
            vs.append([rng.choice(BOUNDARY_ARGS) if rng.random() < 0.5 else rng.getrandbits(64) for _ in range(nargs)])
        else:
            vs.append([rng.getrandbits(64) for _ in range(nargs)])
    return vs


# ---------------------------------------------------------------------------------------------
# random instruction sequences (Lean machine vs CPU)
# ---------------------------------------------------------------------------------------------

def gen_rand_asm(rng: Any, name: str) -> tuple[str, int]:
    """A random, stack-safe program over the modelled subset.  Returns (asm text, number of arguments)."""
    nargs = rng.randint(0, 9)
    nstack = max(0, nargs - 6)
    lines = [".intel_syntax noprefix", ".text", f"{name}:"]
    depth = 0
    dsts = [r for r in range(16) if r != 4]
    for _ in range(rng.randint(3, 30)):
        sz = rng.choice("qqqqqddddwwb")
        names = {"q": R64, "d": R32, "w": R16, "b": R8}[sz]
        r = rng.random()
        d = rng.choice(dsts)
        s = rng.choice(dsts)
        if r < 0.2:
            lines.append(f"    mov {names[d]}, {names[s]}")
        elif r < 0.32:
            imm = rng.choice(BOUNDARY_CONSTS) if rng.random() < 0.5 else rng.randint(-(2**31), 2**31 - 1)
            bits = {"q": 32, "d": 32, "w": 16, "b": 8}[sz]
            imm = ((imm + (1 << (bits - 1))) % (1 << bits)) - (1 << (bits - 1))
            lines.append(f"    mov {names[d]}, {imm}")
        elif r < 0.72:
            op = rng.choice(["add", "add", "imul", "imul", "sub", "and", "or", "xor"])
            if sz == "b" and op == "imul":
                op = "add"
            lines.append(f"    {op} {names[d]}, {names[s]}")
        elif r < 0.82 and depth < 12:
            lines.append(f"    push {R64[s]}")
            depth += 1
        elif r < 0.88 and depth > 0:
            lines.append(f"    pop {R64[d]}")
            depth -= 1
        elif r < 0.95:
            slots = [8 * i for i in range(depth)] + [8 * (depth + 1 + j) for j in range(nstack)]
            if slots:
                k = rng.choice(slots)
                lines.append(f"    mov {names[d]}, [rsp{k:+d}]" if k else f"    mov {names[d]}, [rsp]")
        elif depth > 0:
            k = 8 * rng.randrange(depth)
            lines.append(f"    mov [rsp{k:+d}], {R64[s]}" if k else f"    mov [rsp], {R64[s]}")
    while depth > 0:
        lines.append(f"    pop {R64[rng.choice(dsts)]}")
        depth -= 1
    lines.append("    ret")
    return "\n".join(lines) + "\n", nargs


# ---------------------------------------------------------------------------------------------
# one batch: compile, parse, certify in Lean, assemble, run natively, compare
# ---------------------------------------------------------------------------------------------

def trunc(w: int, v: int) -> int:
    return v & ((1 << w) - 1)


def classify(kind: str, case: dict, tokens: Sequence[str] | None, detail: str = "",
             pre_ok: bool | None = None) -> tuple[str, str]:
    """(call_site, signature) of a failing case"""
    w = TYPES[case["ty"]]
    pro = "xdsl.backend.x86.prologue_epilogue_insertion.X86PrologueEpilogueInsertion._process_function"
    if kind == "assemble":
        m = re.search(r"for `(\w+)'", detail)
        return ("xdsl.backend.x86.lowering.convert_arith_to_x86.ArithBinaryToX86.match_and_rewrite",
                f"emitted instruction does not assemble: {m.group(1) if m else 'unknown'} at {w} bits")
    if kind == "callee-saved":
        pushed = {int(t.split()[1]) for t in tokens or [] if t.startswith("push")}
        written = {int(t.split()[3 if t.startswith("alu") else 2]) for t in tokens or []
                   if t.split()[0] in ("mov", "movi", "ld", "alu")}
        if w < 64 and any(r in written and r not in pushed for r in CS_IDX):
            return pro, "callee-saved register written through a sub-64-bit name is not saved"
        return pro, "callee-saved register not restored"
    if kind == "rsp":
        return pro, "stack pointer not restored / call did not return"
    if kind == "wrong-result":
        if pre_ok:
            # the code before prologue/epilogue insertion computes the right value
            if any(t.startswith("ld") for t in tokens or []):
                return pro, "stack argument read relative to rsp after the prologue moved rsp"
            return pro, "result changed by prologue/epilogue insertion"
        return "xdsl.backend.x86", "wrong result (value computed by the emitted code differs from the source)"
    return "xdsl.backend.x86", kind


class Item:
    """one generated function through the pipeline"""

    def __init__(self, case: dict, stream: str):
        self.case = case
        self.stream = stream
        self.status = ""          # ok | raise
        self.asm = ""
        self.exc = ""
        self.tokens: list[str] | None = None
        self.unparsed = ""
        self.pre_tokens: list[str] | None = None   # assembly before prologue/epilogue insertion
        self.pre_asm = ""
        self.sym = ""
        self.pre_ok: bool | None = None            # wrong result: is the code before frame insertion right?
        self.lean_prologue = ""
        self.vectors: list[list[int]] = []
        self.sentinels: list[list[int]] = []
        self.native: list[Any] = []
        self.as_error: str | None = None
        self.lean_check = ""
        self.lean_runs: list[str] = []
        self.problems: list[tuple[str, str, Any, Any]] = []   # (kind, description, observed, expected)


def process(ctx: core.Ctx, native: c21_native.Native, items: list[Item], nvec: int, rand_asm: int = 0,
            use_lean: bool = True) -> None:
    """Runs the whole check for a batch of items; fills item.problems; reports correspondence
    mismatches (model vs CPU, Lean eval vs Python eval, validator verdict vs native outcome)."""
    rng = ctx.rng
    # 1. real pipeline
    for j, it in enumerate(items):
        it.sym = f"fn_{j}"
        it.status, res = compile_text(case_to_mlir(it.case, it.sym))
        if it.status == "ok":
            it.asm = res
            it.tokens, it.unparsed = parse_asm(res)
            it.pre_asm = _PRE.get("asm", "")
            it.pre_tokens = parse_asm(it.pre_asm)[0] if it.pre_asm else None
            it.vectors = gen_vectors(rng, it.case["nargs"], nvec)
            it.sentinels = [[rng.getrandbits(64) for _ in range(6)] for _ in it.vectors]
        else:
            it.exc = res
    compiled = [j for j, it in enumerate(items) if it.status == "ok"]
    # random instruction sequences ride in the same object file
    rnd: list[tuple[str, int, list[str], list[list[int]], list[list[int]]]] = []
    for r in range(rand_asm):
        text, nargs = gen_rand_asm(rng, f"rnd_{r}")
        toks, bad = parse_asm(text)
        if toks is None:
            raise core.InfraError(f"random asm does not parse: {bad}")
        vecs = gen_vectors(rng, nargs, 2)
        rnd.append((text, nargs, toks, vecs, [[rng.getrandbits(64) for _ in range(6)] for _ in vecs]))
    # 2. assemble + link + run
    texts = [items[j].asm for j in compiled] + [t[0] for t in rnd]
    syms = [f"fn_{j}" for j in compiled] + [f"rnd_{r}" for r in range(len(rnd))]
    rnd_native: list[list[Any]] = [[] for _ in rnd]
    if texts:
        exe, good, bad = native.build(texts, syms)
        for k, msg in bad.items():
            if k < len(compiled):
                items[compiled[k]].as_error = msg or "assembler error"
            else:
                raise core.InfraError(f"random asm does not assemble: {msg}\n{texts[k]}")
        calls: list[tuple[int, Sequence[int], Sequence[int]]] = []
        owner: list[tuple[str, int, int]] = []
        for tab, k in enumerate(good):
            if k < len(compiled):
                it = items[compiled[k]]
                for v, (vec, cs) in enumerate(zip(it.vectors, it.sentinels)):
                    calls.append((tab, cs, vec))
                    owner.append(("fn", compiled[k], v))
            else:
                _, _, _, vecs, css = rnd[k - len(compiled)]
                for v, (vec, cs) in enumerate(zip(vecs, css)):
                    calls.append((tab, cs, vec))
                    owner.append(("rnd", k - len(compiled), v))
        if exe is not None and calls:
            results = native.run(exe, calls)
            for (kind, j, v), res in zip(owner, results):
                if kind == "fn":
                    items[j].native.append(res)
                else:
                    rnd_native[j].append(res)
    # 3. Lean: certify + run the machine on the same calls
    lines: list[str] = []
    where: list[tuple[str, int, int]] = []
    if use_lean:
        for j in compiled:
            it = items[j]
            src = lean_src(it.case)
            if it.tokens is None or not lean_supported(it.tokens) or src is None:
                continue
            sz = SZ_LETTER[TYPES[it.case["ty"]]]
            lines.append(f"check {sz} {it.case['nargs']} {it.case['ret']} | {src} | {' ; '.join(it.tokens)}")
            where.append(("check", j, 0))
            for v, (vec, cs) in enumerate(zip(it.vectors, it.sentinels)):
                lines.append(f"run {' '.join(map(str, cs))} | {' '.join(map(str, vec))}")
                where.append(("run", j, v))
            pre = it.pre_tokens
            if pre is not None and lean_supported(pre) and len(pre) >= 2 and pre[0] == "label" and pre[-1] == "ret":
                lines.append("prologue " + " ; ".join(pre[1:-1]))
                where.append(("prologue", j, 0))
        for r, (text, nargs, toks, vecs, css) in enumerate(rnd):
            lines.append(f"check q {nargs} 0 | | {' ; '.join(toks)}")
            where.append(("rcheck", r, 0))
            for v, (vec, cs) in enumerate(zip(vecs, css)):
                lines.append(f"run {' '.join(map(str, cs))} | {' '.join(map(str, vec))}")
                where.append(("rrun", r, v))
    out = ctx.model("x86", lines) if lines else []
    rnd_lean: list[list[str]] = [[] for _ in rnd]
    for (kind, j, v), o in zip(where, out):
        if kind == "check":
            items[j].lean_check = o
        elif kind == "run":
            items[j].lean_runs.append(o)
        elif kind == "prologue":
            items[j].lean_prologue = o
        elif kind == "rrun":
            rnd_lean[j].append(o)
    # 3b. the private source semantics of this check vs the shared MLIR reference semantics (`sem`)
    if use_lean:
        sem_crosscheck(ctx, [items[j] for j in compiled][:: max(1, len(compiled) // 25)])
    # 4. judge
    for j, it in enumerate(items):
        judge(ctx, it)
    bisect_last_pass(native, [it for it in items if it.problems and it.problems[0][0] == "wrong-result"])
    for r, (text, nargs, toks, vecs, css) in enumerate(rnd):
        ctx.count("machine.random_programs")
        for v, (nat, lo) in enumerate(zip(rnd_native[r], rnd_lean[r])):
            ctx.ev()
            ctx.count("machine.random_calls")
            want = lean_run_line(nat, 64)
            got = lo.split(" eval=")[0]
            if want != got:
                ctx.mismatch("correspondence:C21/x86-machine",
                             {"asm": text, "args": vecs[v], "callee_saved_in": css[v]}, want, got,
                             "Lean x86 machine and the CPU disagree on a random instruction sequence")


def sem_crosscheck(ctx: core.Ctx, items: Sequence[Item]) -> None:
    """py_eval (the oracle of this check) against the Lean reference semantics XdslModel/Sem.lean on
    the MiniIR serialisation of the same source module"""
    from vp import miniir, proggen

    lines: list[str] = []
    expect: list[tuple[Item, list[int] | None, str]] = []
    for it in items:
        case = it.case
        ty = case["ty"]
        w = TYPES[ty]
        try:
            sexp = miniir.serialize(proggen.parse_module(case_to_mlir(case, "f")))
        except Exception:  # noqa: BLE001
            ctx.count("sem.not_serialisable")
            continue
        lines.append("prog " + sexp)
        expect.append((it, None, "ok"))
        for vec in it.vectors[:2]:
            signed = [((v & ((1 << w) - 1)) ^ (1 << (w - 1))) - (1 << (w - 1)) for v in vec]
            lines.append("run 100000 f " + " ".join(miniir.arg_text(ty, v) for v in signed))
            expect.append((it, vec, "ok [" + miniir.show_val(ty, py_eval(case, vec)) + "] effects []"))
    if not lines:
        return
    for (it, vec, want), got in zip(expect, ctx.model("sem", lines)):
        if vec is None:
            if got != "ok":
                raise core.InfraError("MiniIR serialisation rejected by the Lean parser: " + case_to_mlir(it.case, "f"))
            continue
        ctx.count("sem.compared")
        if got != want:
            ctx.mismatch("correspondence:C21/src-eval-vs-sem", {"case": it.case, "args": vec}, want, got,
                         "the Python evaluation used as oracle and the Lean MLIR reference semantics disagree")


def bisect_last_pass(native: c21_native.Native, wrong: Sequence[Item]) -> None:
    """For programs with a wrong native result: run the assembly as it was before prologue/epilogue
    insertion (it may clobber callee-saved registers; the trampoline tolerates that) on the same
    arguments.  If that code is right, the last pass introduced the error."""
    wrong = [it for it in wrong if it.pre_asm and re.search(rf"^{it.sym}:", it.pre_asm, re.M)]
    if not wrong:
        return
    texts = [re.sub(rf"^{it.sym}:", f"pre_{k}:", it.pre_asm, flags=re.M) for k, it in enumerate(wrong)]
    try:
        exe, good, _ = native.build(texts, [f"pre_{k}" for k in range(len(wrong))])
    except core.InfraError:
        return
    if exe is None:
        return
    calls = [(tab, cs, vec) for tab, k in enumerate(good) for vec, cs in zip(wrong[k].vectors, wrong[k].sentinels)]
    owner = [k for k in good for _ in wrong[k].vectors]
    ok = {k: True for k in good}
    pos: dict[int, int] = {}
    for k, res in zip(owner, native.run(exe, calls)):
        it = wrong[k]
        v = pos.get(k, 0)
        pos[k] = v + 1
        if "crash" in res or trunc(TYPES[it.case["ty"]], res["rax"]) != py_eval(it.case, it.vectors[v]):
            ok[k] = False
    for k, val in ok.items():
        wrong[k].pre_ok = val


def lean_run_line(nat: Any, w: int) -> str:
    """what the Lean `run` line must print (before ` eval=`) for a native observation"""
    if "crash" in nat:
        return "crash"
    return f"rax={trunc(w, nat['rax'])} cs={' '.join(map(str, nat['cs']))} rspdelta={nat['rspdelta'] + 8}"


def judge(ctx: core.Ctx, it: Item) -> None:
    case = it.case
    w = TYPES[case["ty"]]
    ctx.ev()
    ctx.count(f"programs.{it.stream}")
    ctx.count(f"type.{case['ty']}")
    ctx.count(f"nargs.{case['nargs']:02d}")
    if it.status != "ok":
        ctx.count("does_not_compile." + it.exc)
        return
    ctx.count("compiled")
    ctx.programs += 1
    toks = it.tokens
    if toks is not None:
        arith = sum(1 for t in toks if t.startswith("alu"))
        if arith >= 2 or any(t.startswith("ld") for t in toks) or any(t.startswith("push") for t in toks):
            ctx.nt(hashlib.sha1(re.sub(r"fn_\d+", "f", it.asm).encode()).hexdigest())
        ctx.count("asm.with_push", int(any(t.startswith("push") for t in toks)))
        ctx.count("asm.with_stack_load", int(any(t.startswith("ld") for t in toks)))
    else:
        ctx.count("asm.unparsed")
        ctx.mismatch("correspondence:C21/asm-parser", {"case": case, "line": it.unparsed}, it.unparsed, "no rule",
                     "emitted assembly line outside the parsed subset")
    # (1) assembles
    if it.as_error is not None:
        it.problems.append(("assemble", "the emitted text is refused by the system assembler", it.as_error, "exit status 0"))
        return
    # (2) native execution vs direct evaluation; callee-saved registers and rsp
    native_ok = True
    for vec, cs, nat in zip(it.vectors, it.sentinels, it.native):
        ctx.disagreements_checked += 1
        if "crash" in nat:
            it.problems.append(("rsp", "the call did not return", nat["crash"], "normal return"))
            native_ok = False
            break
        want = py_eval(case, vec)
        if trunc(w, nat["rax"]) != want:
            it.problems.append(("wrong-result", f"native result differs from the source semantics on args {vec}",
                                trunc(w, nat["rax"]), want))
            native_ok = False
        if nat["cs"] != list(cs):
            changed = [CS_NAMES[i] for i in range(6) if nat["cs"][i] != cs[i]]
            it.problems.append(("callee-saved", f"callee-saved registers {changed} not restored", nat["cs"], list(cs)))
            native_ok = False
        if nat["rspdelta"] != 0:
            it.problems.append(("rsp", "rsp after the call differs", nat["rspdelta"], 0))
            native_ok = False
        if not native_ok:
            break
    # (3) Lean verdicts and machine correspondence
    if it.lean_check:
        ctx.count("lean.checked")
        m = re.fullmatch(r"validate=(\S+) frame=(\S+)", it.lean_check)
        if not m:
            raise core.InfraError(f"unexpected Lean answer {it.lean_check!r}")
        val, frame = m.groups()
        ctx.count("lean.validate." + val.split("@")[0])
        ctx.count("lean.frame." + frame)
        for vec, nat, lo in zip(it.vectors, it.native, it.lean_runs):
            got, _, ev = lo.partition(" eval=")
            if ev != str(py_eval(case, vec)):
                ctx.mismatch("correspondence:C21/src-eval", {"case": case, "args": vec}, py_eval(case, vec), ev,
                             "Lean source semantics and the Python evaluation of the expression disagree")
            want = lean_run_line(nat, w)
            if want != "crash" and want != got:
                ctx.mismatch("correspondence:C21/x86-machine", {"case": case, "asm": it.asm, "args": vec}, want, got,
                             "Lean x86 machine and the CPU disagree on a pipeline output")
        certified = val == "ok" and frame == "ok"
        if certified and not native_ok:
            ctx.mismatch("correspondence:C21/x86-validate", {"case": case, "asm": it.asm}, it.problems[0][1], it.lean_check,
                         "the proved validator accepted a program that misbehaves natively (machine model wrong?)")
        if native_ok and not certified and not val.startswith("reject:toobig"):
            ctx.mismatch("correspondence:C21/x86-validate", {"case": case, "asm": it.asm}, "native run fine", it.lean_check,
                         "the validator cannot certify a pipeline output that behaves correctly on the sampled inputs")
        if certified:
            ctx.count("lean.certified")
        if it.lean_prologue:
            ctx.count("lean.prologue_model_compared")
            hyps, _, model_out = it.lean_prologue.partition(" | ")
            if hyps == "plain=true pre=true" and model_out == " ; ".join(toks or []):
                ctx.count("lean.covered_by_prologue_pass_correct")
            if model_out != " ; ".join(toks or []):
                ctx.mismatch("correspondence:C21/prologue", {"case": case, "before": it.pre_tokens},
                             " ; ".join(toks or []), model_out,
                             "real prologue/epilogue insertion and the Lean model insertPrologue differ")
    else:
        ctx.count("lean.not_applicable")


def report(ctx: core.Ctx, native: c21_native.Native, it: Item, shrink: bool = True) -> None:
    if not it.problems:
        return
    kind, desc, obs, exp = it.problems[0]
    detail = str(obs) if kind == "assemble" else ""
    site, sig = classify(kind, it.case, it.tokens, detail, it.pre_ok)
    case = it.case
    if shrink:
        case = shrink_case(ctx, native, it.case, site, sig)
    small = Item(case, it.stream)
    if case is not it.case:
        process_quiet(ctx, native, [small])
        if not small.problems:
            small = it
    else:
        small = it
    kind, desc, obs, exp = small.problems[0]
    ctx.fail(site, sig, {"case": small.case, "pipeline": PIPELINE}, desc,
             {"observed": obs, "asm": small.asm.splitlines()}, {"expected": exp})


class _Quiet:
    """context stand-in used while shrinking: same rng/model access, no bookkeeping"""

    def __init__(self, ctx: core.Ctx):
        self.rng = ctx.rng
        self._ctx = ctx
        self.programs = 0
        self.disagreements_checked = 0
        self.mismatches: list[Any] = []

    def ev(self, n: int = 1) -> None: ...
    def nt(self, key: Any) -> None: ...
    def count(self, key: str, n: int = 1) -> None: ...
    def sample(self, obj: Any, cap: int = 6) -> None: ...

    def mismatch(self, *a: Any, **k: Any) -> None:
        self.mismatches.append(a)

    def model(self, name: str, lines: Sequence[str]) -> list[str]:
        return self._ctx.model(name, lines)

    def time_left(self) -> float:
        return self._ctx.time_left()


def process_quiet(ctx: core.Ctx, native: c21_native.Native, items: list[Item], use_lean: bool = False) -> _Quiet:
    q = _Quiet(ctx)
    process(q, native, items, 3, 0, use_lean)  # type: ignore[arg-type]
    return q


def still_fails(ctx: core.Ctx, native: c21_native.Native, case: dict, site: str, sig: str) -> bool:
    it = Item(case, "shrink")
    try:
        process_quiet(ctx, native, [it])
    except core.InfraError:
        return False
    if not it.problems:
        return False
    kind, _, obs, _ = it.problems[0]
    return classify(kind, case, it.tokens, str(obs) if kind == "assemble" else "", it.pre_ok) == (site, sig)


def drop_op(case: dict, k: int) -> dict:
    """remove op k; its uses are redirected to its first operand (or value 0)"""
    n = case["nargs"]
    idx = n + k
    op = case["ops"][k]
    repl = op[1] if op[0] != "c" else None

    def fix(i: int) -> int | None:
        if i == idx:
            return repl
        return i - 1 if i > idx else i

    ops = []
    for j, o in enumerate(case["ops"]):
        if j == k:
            continue
        if o[0] == "c":
            ops.append(list(o))
        else:
            a, b = fix(o[1]), fix(o[2])
            if a is None or b is None:
                return {}
            ops.append([o[0], a, b])
    ret = fix(case["ret"])
    if ret is None:
        return {}
    return {"ty": case["ty"], "nargs": n, "ops": ops, "ret": ret}


def drop_arg(case: dict, a: int) -> dict:
    n = case["nargs"]
    if any(o[0] != "c" and a in (o[1], o[2]) for o in case["ops"]) or case["ret"] == a:
        return {}
    f = lambda i: i - 1 if i > a else i  # noqa: E731
    ops = [list(o) if o[0] == "c" else [o[0], f(o[1]), f(o[2])] for o in case["ops"]]
    return {"ty": case["ty"], "nargs": n - 1, "ops": ops, "ret": f(case["ret"])}


def shrink_case(ctx: core.Ctx, native: c21_native.Native, case: dict, site: str, sig: str, budget: int = 60) -> dict:
    cur = case
    steps = 0
    progress = True
    while progress and steps < budget:
        progress = False
        cands = [drop_op(cur, k) for k in reversed(range(len(cur["ops"])))]
        cands += [drop_arg(cur, a) for a in reversed(range(cur["nargs"]))]
        cands += [dict(cur, ops=[o if j != k else ["c", 1] for j, o in enumerate(cur["ops"])])
                  for k, o in enumerate(cur["ops"]) if o[0] == "c" and o[1] != 1]
        for c in cands:
            if not c or steps >= budget:
                continue
            steps += 1
            if still_fails(ctx, native, c, site, sig):
                cur = c
                progress = True
                break
    return cur


# ---------------------------------------------------------------------------------------------
# run / replay
# ---------------------------------------------------------------------------------------------

def run(ctx: core.Ctx) -> None:
    ctx.lean()
    quick = ctx.tier == "quick"
    native = c21_native.Native()
    try:
        # rules leg: the lowering / canonicalization patterns against their Lean rule model
        c21_rules.run(ctx, native)
        nvec = 4 if quick else 8
        batches: list[list[Item]] = []
        first = [Item(c, "regression") for c in REGRESSION_CASES]
        sysc = systematic_cases()
        if quick:
            # a seed-dependent third of the systematic family in quick runs
            sysc = [c for i, c in enumerate(sysc) if (i + ctx.seed) % 3 == 0]
        first += [Item(c, "systematic") for c in sysc]
        batches.append(first)
        failing: list[Item] = []
        nrandom = 780 if quick else 60000
        per_batch = 130 if quick else 250
        produced = 0
        done_first = False
        while True:
            if not done_first:
                items = batches[0]
                done_first = True
                rand_asm = 40 if quick else 150
            else:
                if produced >= nrandom or ctx.time_left() < (35 if quick else 90):
                    break
                items = []
                for _ in range(per_batch):
                    r = ctx.rng.random()
                    ty = "i64" if r < 0.5 else "i32" if r < 0.75 else "index" if r < 0.85 else "i16" if r < 0.93 else "i8"
                    profile = ctx.rng.choice(["mix", "mix", "chain", "live", "stack"])
                    max_poly = None if ctx.rng.random() < 0.08 else 120
                    items.append(Item(gen_case(ctx.rng, ty, profile, max_poly), "random." + profile))
                produced += len(items)
                rand_asm = 40 if quick else 100
            process(ctx, native, items, nvec, rand_asm)
            for it in items:
                if it.problems:
                    failing.append(it)
            for it in items[:: max(1, len(items) // 2)]:
                if it.status == "ok" and not it.problems:
                    ctx.sample({"case": it.case, "asm": it.asm.splitlines(), "lean": it.lean_check,
                                "args": it.vectors[0] if it.vectors else [], "native": it.native[0] if it.native else None})
        # report one (shrunk) representative per defect class
        seen: set[tuple[str, str]] = set()
        ctx.count("failing_programs", len(failing))
        for it in sorted(failing, key=lambda i: len(json.dumps(i.case))):
            kind, _, obs, _ = it.problems[0]
            key = classify(kind, it.case, it.tokens, str(obs) if kind == "assemble" else "", it.pre_ok)
            if key in seen:
                continue
            seen.add(key)
            report(ctx, native, it, shrink=ctx.time_left() > 5)
    finally:
        native.close()


def replay(ctx: core.Ctx, body: dict) -> int:
    ctx.lean()
    case = body["case"]
    if isinstance(case, dict) and any(k in case for k in ("rules_case", "snippet", "rules_program", "rules_pipeline")):
        return c21_rules.replay(ctx, case)
    native = c21_native.Native()
    try:
        if "asm" in case and "case" not in case:
            # machine-model correspondence replay: run the given text on the CPU and on the Lean machine
            toks, bad = parse_asm(case["asm"])
            print("asm:\n" + case["asm"])
            if toks is None:
                print("unparsed line:", bad)
                return 1
            sym = re.search(r"^(\w+):", case["asm"], re.M).group(1)  # type: ignore[union-attr]
            exe, good, badm = native.build([case["asm"]], [sym])
            cs = case.get("callee_saved_in", [1, 2, 3, 4, 5, 6])
            nat = native.run(exe, [(0, cs, case["args"])])[0] if exe else {"crash": str(badm)}
            out = ctx.model("x86", [f"check q {len(case['args'])} 0 | | {' ; '.join(toks)}",
                                    f"run {' '.join(map(str, cs))} | {' '.join(map(str, case['args']))}"])
            print("native:", lean_run_line(nat, 64))
            print("lean  :", out[1])
            bad_ = lean_run_line(nat, 64) != out[1].split(" eval=")[0]
            print("machine model", "DISAGREES with" if bad_ else "agrees with", "the CPU on this case")
            return 1 if bad_ else 0
        src_case = case["case"] if "case" in case else case
        it = Item(src_case, "replay")
        process(ctx, native, [it], 6, 0)
        print("case:", json.dumps(src_case))
        print("source:\n" + case_to_mlir(src_case, "fn_0"))
        print("pipeline:", PIPELINE, "-t x86-asm")
        if it.status != "ok":
            print("does not compile:", it.exc)
            print("property holds vacuously on this case")
            return 0
        print("emitted assembly:\n" + it.asm)
        print("lean:", it.lean_check or "(not applicable)")
        for vec, nat, lo in zip(it.vectors, it.native, it.lean_runs or [""] * len(it.vectors)):
            print("  args", vec, "-> native", nat, "| expected", py_eval(src_case, vec), "| lean", lo)
        if it.as_error:
            print("assembler:", it.as_error)
        for p in it.problems:
            print("oracle:", p[0], "-", p[1], "observed", p[2], "expected", p[3])
        print("property", "FAILS" if it.problems else "holds", "on this case")
        return 1 if it.problems else 0
    finally:
        native.close()
