"""C10 — IRDL operation verification matches the operation definition."""
from __future__ import annotations

import itertools
import traceback
from functools import lru_cache
from typing import Any

from vp import core

META = {
    "title": "IRDL operation verification matches the operation definition",
    "category": "proof",
    "design_ref": "DESIGN.md §5 C10",
    "lean_modules": ["XdslProofs.C10", "XdslProofs.C10Constraints", "XdslProofs.C10VerifyOp", "XdslProofs.C10Storage"],
    "text": (
        "Lean theorems over XdslModel/OpDef.lean (model of verify_variadic_size, the ten accessor classes, "
        "irdl_build_arg_list/irdl_op_init and OpDef.verify's loops with one shared ConstraintContext, with the "
        "two C10 repairs applied): verify_iff_segmentation (size verification succeeds exactly when a valid "
        "segmentation exists: non-negative sizes matching each kind, equal for same-size, equal to the "
        "attribute for attribute-sized, summing to the list length), segmentation_unique, accessor_eq_segment/"
        "accessors_partition (on such a list every accessor returns exactly its declared segment, the segments "
        "concatenate to the list and have the declared sizes), verify_no_python_error, build_verifies/"
        "build_accessors (constructor output verifies and the accessors return the arguments), "
        "verifyPieces_iff_assignment (sequential checking with one shared context = existence of one consistent "
        "variable assignment), verifyArgList_iff/verifyRegions_iff and verifyOp_iff_assignment (the whole "
        "OpDef.verify passes exactly when all four lists split into declared segments, structural side "
        "conditions hold and one assignment satisfies every piece, property and attribute), "
        "verifyOp_error_is_verify; C10Storage: verifyOp_ignores_default / verifyOp_required_present / "
        "deleted_required_prop_rejected / deleted_required_attr_rejected (a declared default_value never "
        "relaxes verification: a non-optional property or attribute must be present, also after it was removed "
        "from a constructed operation), verified_dict_accessors (the dictionary accessors never raise on a "
        "verified operation), fillDefaults_present/_keeps/_only_defaults/_idem (__post_init__), "
        "readSize_storeSizes / storeSizes_declared / buildOp_spec / buildOp_verifies_sizes / buildOp_accessors "
        "(the constructor writes each segment-size array into the dictionary named by that option's own "
        "as_property flag, which is where verification and the accessors read it, for every mix of storage "
        "kinds and every option order; a built operation carries no undeclared property). "
        "The model is tied to /repo by generating IRDL operation classes at run time "
        "with irdl_op_definition and comparing verify_()/accessor/build observations of the real classes with "
        "the Lean driver line by line, and with an independent brute-force segmenter and a declarative "
        "constraint oracle written from the property sentence; IRDL operations parsed from tests/**/*.mlir are "
        "checked the same way (segment part). Operation objects are observed after a HISTORY (construction, "
        "which fills in default values, then deletions of dictionary entries) and judged on the state they "
        "have at verification time; whole definitions are also built through the generated constructor with "
        "every combination of options, per-option storage kinds and option orders."
    ),
    "technique": "Lean 4 proofs about a hand model + bounded-exhaustive/random differential correspondence with run-time generated IRDL operation classes + independent reference segmenter",
    "level_note": (
        "Trusted: Lean kernel; hand-written model XdslModel/OpDef.lean (tied by correspondence only); the "
        "reference segmenter in harness/props/c10.py. Verification is observed through the generated "
        "verify_() (= OpDef.verify); the definition-independent checks of Operation.verify (terminators, "
        "successor placement, nested regions), traits and hand-written verify_ bodies are outside the "
        "property. Constraint language covered: AnyAttr/EqAttrConstraint/AttrSetConstraint/BaseAttr, "
        "VarConstraint over those, SingleOf/RangeOf/RangeVarConstraint; every variable name is declared "
        "with one base constraint (as with a shared ClassVar). Definitions declaring BOTH SameVariadic…Size "
        "and AttrSized…Segments for the same construct are excluded (the sentence does not say which wins). "
        "A failing verification raising something other than VerifyException is not counted as a violation "
        "of 'passes exactly when'. A default_value is read as 'the constructor supplies it when the entry is "
        "not given'; it does not make the definition optional. On an operation that verifies, the generated "
        "property/attribute accessors are required to return the stored value (absent optional entry: the "
        "declared default or None) -- the dictionary counterpart of 'accessors return exactly the declared "
        "segments'. The model keeps the four segment-size entries (RawSizes) apart from the numbered "
        "properties/attributes of the two dictionaries."
    ),
    "rule": (
        "seg: every kind list over {single,optional,variadic} up to the length bound × option × construct × "
        "list length × segment-size attribute (all integer vectors over a small range incl. negative, wrong "
        "length, missing, non-dense, i64), non-trivial = at least one variable segment and (for attr) a "
        "present dense attribute; build: every argument shape vector over {None, value, list of 0..3}, "
        "non-trivial = at least one variable segment; full: random definitions with constraints/variables/"
        "properties/attributes (each optional or not, with or without default_value)/regions, options in random "
        "order with a random as_property flag each × random valid and mutated instances (mutations include "
        "deleting any declared or undeclared dictionary entry or size array after construction, and a size array "
        "in the wrong dictionary) + constructor calls on the same definitions, non-trivial = a constraint "
        "variable used at ≥2 sites or a segment-size attribute present or a deletion step; dict: every "
        "{property, attribute} × {required, optional} × default {none, satisfying, violating} × {plain, variable "
        "shared with a second entry} × constructor value {absent, satisfying, others} × {kept, deleted after "
        "construction}; buildop: every assignment of {no option, same-size, attribute-sized as attribute, "
        "attribute-sized as property} to the four constructs × option orders (quick: identity, reverse, one "
        "random; thorough: all permutations) × two argument vectors; corpus: IRDL ops parsed from "
        "tests/**/*.mlir with ≥1 variable segment. Distinct = distinct (definition, instance) key."
    ),
    "trusted_base": [
        "correspondence harness harness/props/c10.py (differential, bounded-exhaustive + random)",
        "hand-written Lean model XdslModel/OpDef.lean of xdsl/irdl/operations.py (segment sizes, accessors, builder, OpDef.verify loop, __post_init__ defaults, per-option storage of the size arrays)",
        "reference segmenter / declarative constraint oracle in harness/props/c10.py",
    ],
    "budget": {"quick": 100, "thorough": 1100},
}

CONSTRUCTS = ("operand", "result", "region", "successor")
PREFIX = {"operand": "o", "result": "r", "region": "g", "successor": "s"}
NTYPES = 5

# ---------------------------------------------------------------------------------------------
# independent reference, written from the property sentence
# ---------------------------------------------------------------------------------------------

def kind_allows(kind: str, size: int) -> bool:
    if size < 0:
        return False
    if kind == "s":
        return size == 1
    if kind == "o":
        return size in (0, 1)
    return True


@lru_cache(maxsize=None)
def _search_segmentations(kinds: str, same: bool, n: int) -> tuple[tuple[int, ...], ...]:
    """all size vectors that match every kind, are equal on the variable segments when `same`, and
    sum to n (brute force)"""
    cands = []
    for k in kinds:
        cands.append((1,) if k == "s" else (0, 1) if k == "o" else tuple(range(n + 1)))
    out = []
    for sizes in itertools.product(*cands):
        if sum(sizes) != n:
            continue
        if same and len({s for k, s in zip(kinds, sizes) if k != "s"}) > 1:
            continue
        out.append(sizes)
    return tuple(out)


def ref_segmentation(kinds: str, opt: str, n: int, sattr: list) -> tuple[int, ...] | None | str:
    """The declared split of a list of length n, None when there is none, 'ambiguous' when the
    definition does not determine it (only possible for ill-formed definitions)."""
    if opt == "attr":
        if sattr[0] != "i32":
            return None
        sizes = tuple(sattr[1])
        if len(sizes) != len(kinds):
            return None
        if not all(kind_allows(k, s) for k, s in zip(kinds, sizes)):
            return None
        if sum(sizes) != n:
            return None
        return sizes
    sols = _search_segmentations(kinds, opt == "same", n)
    if not sols:
        return None
    if len(sols) > 1:
        return "ambiguous"
    return sols[0]


def ref_wf(kinds: str, opt: str) -> bool:
    return not (opt == "none" and sum(k != "s" for k in kinds) >= 2)


def split(xs: list, sizes) -> list[list]:
    out, pos = [], 0
    for s in sizes:
        out.append(list(xs[pos: pos + s]))
        pos += s
    return out


def show_segments(kinds: str, segs: list[list[int]]) -> str:
    if not kinds:
        return "-"
    out = []
    for k, seg in zip(kinds, segs):
        if k == "v":
            out.append("[" + ",".join(map(str, seg)) + "]")
        elif not seg:
            out.append("none")
        else:
            out.append(",".join(map(str, seg)))
    return "|".join(out)


def sattr_tok(sattr: list) -> str:
    if sattr[0] in ("missing", "notdense"):
        return sattr[0]
    return sattr[0] + ":" + ",".join(map(str, sattr[1]))


# -- constraints (tokens shared with the Lean driver) -------------------------------------------

def base_accepts(b: str, a: int) -> bool:
    p = b.split(".")
    if p[0] == "any":
        return True
    if p[0] == "eq":
        return a == int(p[1])
    return a in [int(x) for x in p[1:]]


def ref_pieces_ok(pieces: list[tuple[str, list[int]]]) -> bool:
    """Every piece satisfies its constraint under ONE assignment of the constraint variables
    (declarative: collect what each variable would have to be)."""
    var_vals: dict[str, set] = {}
    rvar_vals: dict[str, set] = {}

    def elem(attrc: list[str], a: int) -> bool:
        if attrc[0] == "p":
            return base_accepts(attrc[1], a)
        var_vals.setdefault(attrc[0], set()).add(a)
        return base_accepts(attrc[1], a)

    for rc, vals in pieces:
        p = rc.split(":")
        if p[0] == "S":
            if len(vals) != 1 or not elem(p[1:], vals[0]):
                return False
        elif p[0] == "R":
            if not all([elem(p[1:], a) for a in vals]):
                return False
        else:
            rvar_vals.setdefault(p[0], set()).add(tuple(vals))
            if not all(base_accepts(p[1], a) for a in vals):
                return False
    return all(len(s) <= 1 for s in var_vals.values()) and all(len(s) <= 1 for s in rvar_vals.values())


def pa_entries(spec: dict, kindname: str):
    """(name, optional, constraint, default) of the declared properties / attributes"""
    for e in spec[kindname]:
        yield e[0], e[1], e[2], (e[3] if len(e) > 3 else None)


def in_props(spec: dict, c: str) -> bool:
    """the size array of construct c is declared to live in op.properties"""
    return spec[c]["opt"] == "attr" and bool(spec[c].get("as_prop"))


def ref_fill(spec: dict, kindname: str, passed: dict) -> dict:
    """what a default value means: a non-optional property/attribute that is not given when the
    operation is constructed gets its default"""
    d = dict(passed)
    for name, optional, _c, default in pa_entries(spec, kindname):
        if name not in d and not optional and default is not None:
            d[name] = default
    return d


def ref_verify(spec: dict, inst: dict) -> tuple[bool, dict[str, Any]]:
    """(passes, declared segments per construct or None) for the operation STATE `inst` (the
    dictionaries as they are at verification time; defaults play no role here)"""
    segs: dict[str, Any] = {}
    ok = True
    pieces: list[tuple[str, list[int]]] = []
    for c in CONSTRUCTS:
        cd = spec[c]
        kinds = "".join(s[0] for s in cd["segs"])
        n = inst_len(inst, c)
        sizes = ref_segmentation(kinds, cd["opt"], n, inst[c]["sattr"])
        segs[c] = sizes
        if sizes is None or sizes == "ambiguous":
            ok = False
            continue
        if c in ("operand", "result"):
            for (k, rc, _sb), part in zip(cd["segs"], split(inst[c]["tys"], sizes)):
                pieces.append((rc, part))
        elif c == "region":
            for (k, rc, sb), part in zip(cd["segs"], split(inst[c]["regs"], sizes)):
                for blocks, args in part:
                    if sb and blocks != 1:
                        ok = False
                    if blocks > 0:
                        pieces.append((rc, args))
        # a size array kept in op.properties although the definition does not declare that property
        if inst[c].get("stray") is not None and not in_props(spec, c):
            ok = False
    for kindname in ("props", "attrs"):
        defined = {name for name, _o, _c, _d in pa_entries(spec, kindname)}
        for name, optional, attrc, _default in pa_entries(spec, kindname):
            if name in inst[kindname]:
                pieces.append(("S:" + attrc, [inst[kindname][name]]))
            elif not optional:
                ok = False
        if kindname == "props" and any(name not in defined for name in inst[kindname]):
            ok = False
    if ok and not ref_pieces_ok(pieces):
        ok = False
    return ok, segs


def ref_required_absent(spec: dict, inst: dict) -> list[str]:
    return [f"{kindname[:-1]} {name}" for kindname in ("props", "attrs")
            for name, optional, _c, _d in pa_entries(spec, kindname)
            if not optional and name not in inst[kindname]]


def ref_dict_access(spec: dict, inst: dict, kindname: str) -> str:
    """accessor results on a verifying operation: the stored value; absent optional -> default / None"""
    out = []
    for name, optional, _c, default in pa_entries(spec, kindname):
        if name in inst[kindname]:
            out.append(str(inst[kindname][name]))
        elif optional:
            out.append("none" if default is None else str(default))
        else:
            out.append("absent")
    return "|".join(out) if out else "-"


def norm_inst(inst: dict) -> dict:
    """JSON round trip turns the integer names of properties into strings"""
    import copy
    inst = copy.deepcopy(inst)
    for kindname in ("props", "attrs"):
        inst[kindname] = {int(k): v for k, v in inst[kindname].items()}
    if "drop" in inst:
        for kindname in ("props", "attrs"):
            inst["drop"][kindname] = [int(k) for k in inst["drop"].get(kindname, [])]
    return inst


def inst_len(inst: dict, c: str) -> int:
    if c in ("operand", "result"):
        return len(inst[c]["tys"])
    if c == "region":
        return len(inst[c]["regs"])
    return inst[c]["n"]


# ---------------------------------------------------------------------------------------------
# real-code adapter
# ---------------------------------------------------------------------------------------------

class X:
    """lazily imported xDSL names"""
    ready = False

    @classmethod
    def load(cls) -> None:
        if cls.ready:
            return
        import xdsl.irdl as irdl
        from xdsl.dialects import builtin
        from xdsl.ir import Block, Region
        from xdsl.utils.exceptions import PyRDLOpDefinitionError, VerifyException
        from xdsl.utils.test_value import create_ssa_value

        cls.irdl, cls.builtin, cls.Block, cls.Region = irdl, builtin, Block, Region
        cls.PyRDLOpDefinitionError, cls.VerifyException = PyRDLOpDefinitionError, VerifyException
        cls.create_ssa_value = staticmethod(create_ssa_value)
        cls.T = [builtin.i32, builtin.i64, builtin.IndexType(), builtin.f32, builtin.i1]
        cls.pool = {t: [create_ssa_value(ty) for _ in range(12)] for t, ty in enumerate(cls.T)}
        cls.ready = True


def mk_base(b: str, variant: int = 0):
    irdl, T = X.irdl, X.T
    p = b.split(".")
    if p[0] == "any":
        return irdl.AnyAttr()
    if p[0] == "eq":
        return irdl.EqAttrConstraint(T[int(p[1])]) if variant % 2 == 0 else T[int(p[1])]
    ts = [int(x) for x in p[1:]]
    if sorted(ts) == [0, 1, 4]:
        return irdl.BaseAttr(X.builtin.IntegerType) if variant % 2 == 0 else X.builtin.IntegerType
    if sorted(ts) == [0, 1, 2, 4] and variant % 2 == 0:
        return irdl.base(X.builtin.IntegerType) | irdl.base(X.builtin.IndexType)
    if variant % 3 == 0:
        return irdl.AnyOf.get(*[irdl.EqAttrConstraint(T[t]) for t in ts])
    return irdl.AttrSetConstraint.get(*[T[t] for t in ts])


def mk_attrc(toks: list[str], variant: int = 0):
    if toks[0] == "p":
        return mk_base(toks[1], variant)
    return X.irdl.VarConstraint(toks[0].upper(), X.irdl.irdl_to_attr_constraint(mk_base(toks[1], variant)))


def mk_rangec(rc: str, variant: int = 0):
    """-> (constraint object, is_range_constraint)"""
    irdl = X.irdl
    p = rc.split(":")
    if p[0] == "S":
        return irdl.SingleOf(irdl.irdl_to_attr_constraint(mk_attrc(p[1:], variant))), True
    if p[0] == "R":
        if variant % 2:
            return irdl.RangeOf(mk_attrc(p[1:], variant)), True
        return mk_attrc(p[1:], variant), False
    return irdl.RangeVarConstraint(p[0], irdl.RangeOf(mk_base(p[1], variant))), True


_class_counter = [0]


def make_class(spec: dict):
    """Generate the IRDL operation class for `spec` with irdl_op_definition. Raises what xDSL raises."""
    X.load()
    irdl = X.irdl
    ns: dict[str, Any] = {}
    _class_counter[0] += 1
    ns["name"] = f"c10.op{_class_counter[0]}"
    variant = spec.get("variant", 0)
    options = []
    opt_cls = {
        "operand": (irdl.SameVariadicOperandSize, irdl.AttrSizedOperandSegments),
        "result": (irdl.SameVariadicResultSize, irdl.AttrSizedResultSegments),
        "region": (irdl.SameVariadicRegionSize, irdl.AttrSizedRegionSegments),
        "successor": (irdl.SameVariadicSuccessorSize, irdl.AttrSizedSuccessorSegments),
    }
    for c in spec.get("opt_order") or CONSTRUCTS:
        o = spec[c]["opt"]
        if o == "same":
            options.append(opt_cls[c][0]())
        elif o == "attr":
            options.append(opt_cls[c][1](as_property=bool(spec[c].get("as_prop", False))))
    if options or variant % 2:
        ns["irdl_options"] = tuple(options)
    # ClassVar-style shared constraint variable, as dialects write it
    for i, (kind, rc, _sb) in enumerate(spec["operand"]["segs"]):
        constr, is_range = mk_rangec(rc, variant + i)
        if kind == "s":
            p = rc.split(":")
            ns[f"o{i}"] = irdl.operand_def(mk_attrc(p[1:], variant + i))
        elif kind == "o":
            ns[f"o{i}"] = irdl.opt_operand_def(constr)
        else:
            ns[f"o{i}"] = irdl.var_operand_def(constr)
    for i, (kind, rc, _sb) in enumerate(spec["result"]["segs"]):
        constr, is_range = mk_rangec(rc, variant + i)
        if kind == "s":
            p = rc.split(":")
            ns[f"r{i}"] = irdl.result_def(mk_attrc(p[1:], variant + i))
        elif kind == "o":
            ns[f"r{i}"] = irdl.opt_result_def(constr)
        else:
            ns[f"r{i}"] = irdl.var_result_def(constr)
    for i, (kind, rc, sb) in enumerate(spec["region"]["segs"]):
        constr, _ = mk_rangec(rc, variant + i)
        f = {"s": irdl.region_def, "o": irdl.opt_region_def, "v": irdl.var_region_def}[kind]
        ns[f"g{i}"] = f("single_block", entry_args=constr) if sb else f(entry_args=constr)
    for i, (kind, _rc, _sb) in enumerate(spec["successor"]["segs"]):
        f = {"s": irdl.successor_def, "o": irdl.opt_successor_def, "v": irdl.var_successor_def}[kind]
        ns[f"s{i}"] = f()
    for name, optional, attrc, default in pa_entries(spec, "props"):
        c = mk_attrc(attrc.split(":"), variant)
        kw = {} if default is None else {"default_value": X.T[default]}
        ns[f"p{name}"] = irdl.opt_prop_def(c, **kw) if optional else irdl.prop_def(c, **kw)
    for name, optional, attrc, default in pa_entries(spec, "attrs"):
        c = mk_attrc(attrc.split(":"), variant)
        kw = {} if default is None else {"default_value": X.T[default]}
        ns[f"a{name}"] = irdl.opt_attr_def(c, **kw) if optional else irdl.attr_def(c, **kw)
    cls = type(f"C10Op{_class_counter[0]}", (irdl.IRDLOperation,), ns)
    return irdl.irdl_op_definition(cls)


SEG_ATTR_NAME = {"operand": "operandSegmentSizes", "result": "resultSegmentSizes",
                 "region": "regionSegmentSizes", "successor": "successorSegmentSizes"}


def mk_sattr(sattr: list):
    b = X.builtin
    if sattr[0] == "missing":
        return None
    if sattr[0] == "notdense":
        return b.i32
    return b.DenseArrayBase.from_list(b.i32 if sattr[0] == "i32" else b.i64, list(sattr[1]))


def make_values(inst: dict):
    """fresh IR objects for the lists of `inst`"""
    counters = {t: 0 for t in range(NTYPES)}
    operands = []
    for t in inst["operand"]["tys"]:
        pool = X.pool[t]
        if counters[t] >= len(pool):
            pool.append(X.create_ssa_value(X.T[t]))
        operands.append(pool[counters[t]])
        counters[t] += 1
    result_types = [X.T[t] for t in inst["result"]["tys"]]
    regions = [X.Region([X.Block(arg_types=[X.T[t] for t in args] if i == 0 else []) for i in range(blocks)])
               for blocks, args in inst["region"]["regs"]]
    successors = [X.Block() for _ in range(inst["successor"]["n"])]
    return operands, result_types, regions, successors


def make_instance(cls, spec: dict, inst: dict):
    """The history of an operation object: Op.create(...) of the generic (unchecked) constructor from
    the lists and dictionaries of `inst`, then the deletions of inst["drop"]."""
    X.load()
    operands, result_types, regions, successors = make_values(inst)
    props = {f"p{k}": X.T[v] for k, v in inst["props"].items()}
    attrs = {f"a{k}": X.T[v] for k, v in inst["attrs"].items()}
    for c in CONSTRUCTS:
        a = mk_sattr(inst[c]["sattr"])
        if a is not None:
            (props if in_props(spec, c) else attrs)[SEG_ATTR_NAME[c]] = a
        if inst[c].get("stray") is not None:
            # the same name in the OTHER dictionary
            (attrs if in_props(spec, c) else props)[SEG_ATTR_NAME[c]] = mk_sattr(inst[c]["stray"])
    op = cls.create(operands=operands, result_types=result_types, regions=regions,
                    successors=successors, properties=props, attributes=attrs)
    return op


def apply_drops(op, spec: dict, inst: dict) -> None:
    drop = inst.get("drop") or {}
    for k in drop.get("props", []):
        op.properties.pop(f"p{k}", None)
    for k in drop.get("attrs", []):
        op.attributes.pop(f"a{k}", None)
    for c in drop.get("sizes", []):
        (op.properties if in_props(spec, c) else op.attributes).pop(SEG_ATTR_NAME[c], None)


def ty_index(a) -> int:
    for i, t in enumerate(X.T):
        if a == t:
            return i
    return -1


def obs_sattr(a) -> list:
    if a is None:
        return ["missing"]
    if not isinstance(a, X.builtin.DenseArrayBase):
        return ["notdense"]
    return ["i32" if a.elt_type == X.builtin.i32 else "i64", [int(x) for x in a.get_values()]]


def observe_state(op, spec: dict) -> dict:
    """the state of the operation object, in the vocabulary of `inst` (what the reference judges)"""
    st: dict[str, Any] = {
        "operand": {"tys": [ty_index(v.type) for v in op.operands]},
        "result": {"tys": [ty_index(v.type) for v in op.results]},
        "region": {"regs": [[len(r.blocks), [ty_index(a.type) for a in r.blocks[0].args] if r.blocks else []]
                            for r in op.regions]},
        "successor": {"n": len(op.successors)},
    }
    for c in CONSTRUCTS:
        decl, other = (op.properties, op.attributes) if in_props(spec, c) else (op.attributes, op.properties)
        st[c]["sattr"] = obs_sattr(decl.get(SEG_ATTR_NAME[c]))
        if SEG_ATTR_NAME[c] in other:
            st[c]["stray"] = obs_sattr(other[SEG_ATTR_NAME[c]])
    names = set(SEG_ATTR_NAME.values())
    st["props"] = {(int(k[1:]) if k[1:].isdigit() else k): ty_index(v) for k, v in op.properties.items() if k not in names}
    st["attrs"] = {(int(k[1:]) if k[1:].isdigit() else k): ty_index(v) for k, v in op.attributes.items() if k not in names}
    return st


def show_dict(d: dict) -> str:
    return ",".join(f"{k}={d[k]}" for k in sorted(d)) or "-"


def show_raw(op) -> str:
    out = []
    for tag, d in (("p", op.properties), ("a", op.attributes)):
        for c in CONSTRUCTS:
            if SEG_ATTR_NAME[c] in d:
                out.append(f"{tag}.{c}={sattr_tok(obs_sattr(d[SEG_ATTR_NAME[c]]))}")
    return " ".join(out) or "-"


def obs_dict_access(op, spec: dict, kindname: str) -> str:
    out = []
    for name, _o, _c, _d in pa_entries(spec, kindname):
        try:
            v = getattr(op, f"{kindname[0]}{name}")
        except Exception as e:  # noqa: BLE001
            out.append(core.exc_name(e))
            continue
        out.append("none" if v is None else str(ty_index(v)))
    return "|".join(out) if out else "-"


def constructs_of(op, c: str):
    return {"operand": op.operands, "result": op.results, "region": op.regions, "successor": op.successors}[c]


def exc_site(e: BaseException) -> str:
    """dotted name of the innermost xdsl/irdl/operations.py function on the traceback"""
    site = "xdsl.irdl.operations.OpDef.verify"
    for fs, _ln in traceback.walk_tb(e.__traceback__):
        if fs.f_code.co_filename.endswith("xdsl/irdl/operations.py"):
            site = "xdsl.irdl.operations." + getattr(fs.f_code, "co_qualname", fs.f_code.co_name)
    return site


def obs_verify(op) -> tuple[str, BaseException | None]:
    try:
        op.verify_()
        return "ok", None
    except X.VerifyException as e:
        return "raise VerifyException", e
    except Exception as e:  # noqa: BLE001
        return "raise " + core.exc_name(e), e


def obs_access(op, c: str, nsegs: int) -> tuple[str, list[Any]]:
    """canonical accessor observation: positions in the construct list"""
    seq = list(constructs_of(op, c))

    def pos(x) -> str:
        for i, y in enumerate(seq):
            if y is x:
                return str(i)
        return "foreign"

    out, raw = [], []
    for i in range(nsegs):
        try:
            v = getattr(op, f"{PREFIX[c]}{i}")
        except Exception as e:  # noqa: BLE001
            out.append(core.exc_name(e))
            raw.append(e)
            continue
        raw.append(v)
        if v is None:
            out.append("none")
        elif isinstance(v, (tuple, list)) or (hasattr(v, "__iter__") and hasattr(v, "__len__") and not hasattr(v, "type") and not hasattr(v, "blocks")):
            out.append("[" + ",".join(pos(x) for x in v) + "]")
        else:
            out.append(pos(v))
    return ("|".join(out) if nsegs else "-"), raw


# ---------------------------------------------------------------------------------------------
# Part A: segment sizes, one construct at a time
# ---------------------------------------------------------------------------------------------

def seg_spec(c: str, kinds: str, opt: str, as_prop: bool = False, variant: int = 0) -> dict:
    spec: dict[str, Any] = {cc: {"opt": "none", "segs": []} for cc in CONSTRUCTS}
    spec[c] = {"opt": opt, "segs": [[k, "S:p:any" if (k == "s" and c != "region") else "R:p:any", False] for k in kinds],
               "as_prop": as_prop}
    spec["props"], spec["attrs"], spec["variant"] = [], [], variant
    return spec


def seg_inst(c: str, n: int, sattr: list) -> dict:
    inst: dict[str, Any] = {
        "operand": {"tys": [], "sattr": ["missing"]}, "result": {"tys": [], "sattr": ["missing"]},
        "region": {"regs": [], "sattr": ["missing"]}, "successor": {"n": 0, "sattr": ["missing"]},
        "props": {}, "attrs": {},
    }
    if c in ("operand", "result"):
        inst[c]["tys"] = [0] * n
    elif c == "region":
        inst[c]["regs"] = [[1, []] for _ in range(n)]
    else:
        inst[c]["n"] = n
    inst[c]["sattr"] = sattr
    return inst


_seg_classes: dict[tuple, Any] = {}


def seg_class(c: str, kinds: str, opt: str, as_prop: bool, variant: int = 0):
    key = (c, kinds, opt, as_prop)
    if key not in _seg_classes:
        try:
            _seg_classes[key] = make_class(seg_spec(c, kinds, opt, as_prop, variant))
        except Exception as e:  # noqa: BLE001
            _seg_classes[key] = e
    return _seg_classes[key]


def check_seg_case(ctx: core.Ctx, c: str, kinds: str, opt: str, n: int, sattr: list, as_prop: bool,
                   lines: list[str], impl: list[str], cases: list[dict]) -> None:
    """one (definition, list length, size attribute): verify_ + accessors vs reference + model lines"""
    cls = seg_class(c, kinds, opt, as_prop)
    if isinstance(cls, BaseException):
        return
    spec = seg_spec(c, kinds, opt, as_prop)
    inst = seg_inst(c, n, sattr)
    case = {"part": "seg", "construct": c, "kinds": kinds, "opt": opt, "n": n, "sattr": sattr, "as_prop": as_prop}
    op = make_instance(cls, spec, inst)
    v, exc = obs_verify(op)
    acc, _raw = obs_access(op, c, len(kinds))
    ctx.ev()
    if any(k != "s" for k in kinds) and (opt != "attr" or sattr[0] == "i32"):
        ctx.nt(("seg", c, kinds, opt, n, sattr_tok(sattr), as_prop))
    ref = ref_segmentation(kinds, opt, n, sattr)
    oracle_seg(ctx, case, c, kinds, opt, n, sattr, ref, v, exc, acc)
    tok = sattr_tok(sattr)
    lines.append(f"sizes {opt} {kinds or '-'} {n} {tok}")
    impl.append("ok" if v == "ok" else "err" if v == "raise VerifyException" else v)
    cases.append(case)
    lines.append(f"access {opt} {kinds or '-'} {n} {tok}")
    impl.append(acc)
    cases.append(case)


def oracle_seg(ctx: core.Ctx, case: dict, c: str, kinds: str, opt: str, n: int, sattr: list, ref, v: str,
               exc: BaseException | None, acc: str) -> None:
    if ref == "ambiguous":
        return
    if ref is None:
        if v == "ok":
            if opt == "attr":
                vals = sattr[1] if sattr[0] == "i32" else []
                sig = ("negative segment size accepted" if any(x < 0 for x in vals)
                       else "segment sizes that do not sum to the list length accepted")
                site = "xdsl.irdl.operations.verify_variadic_attr_size"
            else:
                sig = "list length with no valid same-size segmentation accepted"
                site = "xdsl.irdl.operations.verify_variadic_same_size"
            ctx.fail(site, sig, case,
                     f"verify_() passes although the {c} list of length {n} cannot be split into segments {kinds!r} "
                     f"(option {opt}, sizes {sattr_tok(sattr)}); accessors return {acc}",
                     {"verify": v, "accessors": acc}, {"verify": "raise VerifyException"})
        return
    expected_acc = show_segments(kinds, split(list(range(n)), ref))
    if v != "ok":
        site = exc_site(exc) if exc is not None else "xdsl.irdl.operations.verify_variadic_size"
        what = v.replace("raise ", "")
        ctx.fail(site, f"valid segmentation rejected with {what}", case,
                 f"the {c} list of length {n} splits into {kinds!r} with sizes {list(ref)} but verify_() gives: {v} "
                 f"({str(exc)[:120]})", {"verify": v, "accessors": acc}, {"verify": "ok", "accessors": expected_acc})
        return
    if acc != expected_acc:
        ctx.fail("xdsl.irdl.operations.irdl_op_arg_definition", "accessor result differs from the declared segment", case,
                 f"verified {c} list of length {n}, segments {kinds!r} sizes {list(ref)}: accessors give {acc}, "
                 f"declared segments are {expected_acc}", {"verify": v, "accessors": acc},
                 {"verify": "ok", "accessors": expected_acc})


def attr_candidates(ctx: core.Ctx, kinds: str, n: int, exhaustive_range: tuple[int, int], full: bool) -> list[list]:
    out: list[list] = [["missing"], ["notdense"]]
    L = len(kinds)
    lo, hi = exhaustive_range
    if full:
        for vec in itertools.product(range(lo, hi + 1), repeat=L):
            out.append(["i32", list(vec)])
    else:
        seen = set()
        for sol in _search_segmentations(kinds, False, n):
            seen.add(sol)
        for _ in range(10):
            seen.add(tuple(ctx.rng.randint(lo, hi) for _ in range(L)))
        for vec in sorted(seen):
            out.append(["i32", list(vec)])
    # wrong length, other element type
    out.append(["i32", [1] * (L + 1)])
    if L:
        out.append(["i32", [1] * (L - 1)])
    valid = _search_segmentations(kinds, False, n)
    out.append(["i64", list(valid[0]) if valid else [1] * L])
    return out


def run_seg(ctx: core.Ctx, maxlen: int, maxn: int, full_len: int) -> None:
    X.load()
    lines: list[str] = []
    impl: list[str] = []
    cases: list[dict] = []
    ndefs = 0
    for L in range(0, maxlen + 1):
        for kinds_t in itertools.product("sov", repeat=L):
            kinds = "".join(kinds_t)
            for opt in ("none", "same", "attr"):
                for ci, c in enumerate(CONSTRUCTS):
                    # all four constructs for short definitions, round-robin beyond
                    if L > 2 and (sum(map(ord, kinds + opt)) + ci) % 4 != 0 and not (L <= 3 and c == "operand"):
                        continue
                    as_prop = opt == "attr" and (len(kinds) + ci) % 2 == 1
                    cls = seg_class(c, kinds, opt, as_prop, variant=L + ci)
                    ndefs += 1
                    wf_impl = "ok"
                    if isinstance(cls, BaseException):
                        wf_impl = "err" if isinstance(cls, X.PyRDLOpDefinitionError) else "raise " + core.exc_name(cls)
                    ctx.ev()
                    case = {"part": "wf", "construct": c, "kinds": kinds, "opt": opt}
                    if (wf_impl == "ok") != ref_wf(kinds, opt):
                        ctx.fail("xdsl.irdl.operations.irdl_op_arg_definition",
                                 "definition accepted/rejected against the rule 'several variable segments need an option'",
                                 case, f"irdl_op_definition gives {wf_impl} for segments {kinds!r} option {opt}",
                                 wf_impl, "ok" if ref_wf(kinds, opt) else "err")
                    lines.append(f"wf {opt} {kinds or '-'}")
                    impl.append(wf_impl)
                    cases.append(case)
                    if wf_impl != "ok":
                        continue
                    for n in range(0, maxn + 1):
                        if opt == "attr":
                            cands = attr_candidates(ctx, kinds, n, (-1, 3), full=(L <= full_len))
                        else:
                            cands = [["missing"]]
                        for sattr in cands:
                            check_seg_case(ctx, c, kinds, opt, n, sattr, as_prop, lines, impl, cases)
            if ctx.time_left() < 20:
                break
    ctx.count("seg.definitions", ndefs)
    ctx.count("seg.lines", len(lines))
    compare_model(ctx, "seg", lines, impl, cases)
    ctx.sample({"part": "seg", "line": lines[len(lines) // 2], "impl": impl[len(lines) // 2]})


def compare_model(ctx: core.Ctx, part: str, lines: list[str], impl: list[str], cases: list[Any]) -> None:
    if not lines:
        return
    model = ctx.model("op_def", lines)
    i = core.diff_streams(impl, model)
    if i is not None:
        case = cases[i] if not isinstance(cases[i], int) else None
        if case is None:
            j = cases[i]
            case = {"part": part, "lines": lines[j: i + 1]}
            ctx.mismatch("correspondence:C10/op_def", case, impl[j: i + 1], model[j: i + 1])
        else:
            ctx.mismatch("correspondence:C10/op_def", dict(case, line=lines[i]), impl[i], model[i])


# ---------------------------------------------------------------------------------------------
# Part B: the generated constructor
# ---------------------------------------------------------------------------------------------

ARG_SHAPES = ("N", "1", "L0", "L1", "L2", "L3")


def arg_satisfies(kind: str, shape: str) -> bool:
    """argument shapes that plainly satisfy a segment kind"""
    if kind == "s":
        return shape in ("1", "L1")
    if kind == "o":
        return shape in ("N", "1", "L0", "L1")
    return shape != "N"


def shape_size(shape: str) -> int:
    return 0 if shape == "N" else 1 if shape == "1" else int(shape[1:])


def build_call(cls, c: str, shapes: tuple[str, ...]):
    """returns (op, args as lists of python objects)"""
    X.load()
    args: list[Any] = []
    flat: list[list[Any]] = []
    k = 0
    for sh in shapes:
        def fresh():
            nonlocal k
            k += 1
            if c == "operand":
                pool = X.pool[0]
                while k > len(pool):
                    pool.append(X.create_ssa_value(X.T[0]))
                return pool[k - 1]
            if c == "result":
                return X.T[0]
            if c == "region":
                return X.Region([X.Block()])
            return X.Block()
        if sh == "N":
            args.append(None)
            flat.append([])
        elif sh == "1":
            v = fresh()
            args.append(v)
            flat.append([v])
        else:
            vs = [fresh() for _ in range(int(sh[1:]))]
            args.append(vs)
            flat.append(vs)
    kw = {"operand": "operands", "result": "result_types", "region": "regions", "successor": "successors"}[c]
    return cls.build(**{kw: args}), flat


def check_build_case(ctx: core.Ctx, c: str, kinds: str, opt: str, shapes: tuple[str, ...],
                     lines: list[str], impl: list[str], cases: list[dict]) -> None:
    """one constructor call: Op.build(...) + verify_ + accessors vs arguments + model line"""
    as_prop = opt == "attr" and len(kinds) % 2 == 1
    cls = seg_class(c, kinds, opt, as_prop)
    if isinstance(cls, BaseException):
        return
    case = {"part": "build", "construct": c, "kinds": kinds, "opt": opt, "shapes": list(shapes), "as_prop": as_prop}
    ctx.ev()
    if any(k != "s" for k in kinds):
        ctx.nt(("build", c, kinds, opt, shapes))
    satisfying = len(shapes) == len(kinds) and all(arg_satisfies(k, s) for k, s in zip(kinds, shapes))
    if satisfying and opt == "same":
        satisfying = len({shape_size(s) for k, s in zip(kinds, shapes) if k != "s"}) <= 1
    try:
        op, flat = build_call(cls, c, shapes)
    except ValueError:
        obs = "err"
        if satisfying:
            ctx.fail("xdsl.irdl.operations.irdl_build_arg_list", "arguments satisfying the definition rejected", case,
                     f"{c} segments {kinds!r} (option {opt}) built from argument shapes {list(shapes)}: ValueError",
                     "err", "ok")
    except Exception as e:  # noqa: BLE001
        obs = "raise " + core.exc_name(e)
        if satisfying:
            ctx.fail(exc_site(e), "constructor raises " + core.exc_name(e), case,
                     f"{c} segments {kinds!r} (option {opt}) built from {list(shapes)}: {e!r}", obs, "ok")
    else:
        seq = list(constructs_of(op, c))
        n = len(seq)
        cont = op.properties if as_prop else op.attributes
        a = cont.get(SEG_ATTR_NAME[c])
        sattr = ["missing"] if a is None else ["i32" if a.elt_type == X.builtin.i32 else "i64", list(a.get_values())]
        v, exc = obs_verify(op)
        acc, raw = obs_access(op, c, len(kinds))
        obs = f"ok {n} {sattr_tok(sattr)} {'ok' if v == 'ok' else 'err' if v == 'raise VerifyException' else v} {acc}"
        # direct oracle: built ops verify and the accessors give back the arguments
        if c == "result":
            expected = show_segments(kinds, split(list(range(n)), [len(f) for f in flat]))
        else:
            ids = {id(x): i for i, x in enumerate(seq)}
            expected = show_segments(kinds, [[ids.get(id(x), -1) for x in f] for f in flat])
        if v != "ok":
            ctx.fail(exc_site(exc) if exc else "xdsl.irdl.operations.irdl_op_init", "built operation does not verify", case,
                     f"{c} segments {kinds!r} (option {opt}) built from {list(shapes)} gives: {v} ({str(exc)[:100]})",
                     obs, "ok … ok " + expected)
        elif acc != expected:
            ctx.fail("xdsl.irdl.operations.irdl_op_arg_definition", "accessors of a built operation differ from its arguments",
                     case, f"{c} segments {kinds!r} (option {opt}) built from {list(shapes)}: accessors {acc}, arguments {expected}",
                     obs, expected)
    norm = "1" if c in ("operand", "region") else "0"
    lines.append(f"build {norm} {opt} {kinds or '-'} " + " ".join(shapes))
    impl.append(obs)
    cases.append(case)


def run_build(ctx: core.Ctx, maxlen: int, nrandom: int) -> None:
    X.load()
    lines: list[str] = []
    impl: list[str] = []
    cases: list[dict] = []
    todo: list[tuple[str, str, str, tuple[str, ...]]] = []
    for L in range(0, maxlen + 1):
        for kinds_t in itertools.product("sov", repeat=L):
            kinds = "".join(kinds_t)
            for opt in ("none", "same", "attr"):
                if not ref_wf(kinds, opt):
                    continue
                for ci, c in enumerate(CONSTRUCTS):
                    if L >= 2 and (sum(map(ord, kinds + opt)) + ci) % 2 != 0:
                        continue
                    for shapes in itertools.product(ARG_SHAPES, repeat=L):
                        todo.append((c, kinds, opt, shapes))
                    # wrong number of arguments
                    todo.append((c, kinds, opt, ("1",) * (L + 1)))
                    if L:
                        todo.append((c, kinds, opt, ("1",) * (L - 1)))
    for _ in range(nrandom):
        L = ctx.rng.randint(3, 6)
        kinds = "".join(ctx.rng.choice("sov") for _ in range(L))
        opt = ctx.rng.choice(("same", "attr") if not ref_wf(kinds, "none") else ("none", "same", "attr"))
        shapes = tuple(ctx.rng.choice(ARG_SHAPES) if ctx.rng.random() < 0.3 else
                       ctx.rng.choice([s for s in ARG_SHAPES if arg_satisfies(k, s)]) for k in kinds)
        if opt == "same" and ctx.rng.random() < 0.7:
            sz = ctx.rng.choice(("L0", "L1", "L1", "L2")) if "o" not in kinds else ctx.rng.choice(("L0", "L1"))
            shapes = tuple(sz if k != "s" else s for k, s in zip(kinds, shapes))
        todo.append((ctx.rng.choice(CONSTRUCTS), kinds, opt, shapes))
    for c, kinds, opt, shapes in todo:
        if ctx.time_left() < 15:
            break
        check_build_case(ctx, c, kinds, opt, shapes, lines, impl, cases)
    ctx.count("build.calls", len(lines))
    compare_model(ctx, "build", lines, impl, cases)
    if lines:
        ctx.sample({"part": "build", "line": lines[len(lines) // 2], "impl": impl[len(lines) // 2]})


# ---------------------------------------------------------------------------------------------
# Part C: whole definitions with constraints, properties, attributes, regions
# ---------------------------------------------------------------------------------------------

BASES = ["any", "any", "eq.0", "eq.2", "of.0.1.4", "of.0.1.2.4", "of.0.2", "of.1.3", "of.0.1.2.3.4"]


def gen_def(ctx: core.Ctx) -> dict:
    r = ctx.rng
    var_base = {f"v{i}": r.choice(BASES) for i in range(r.randint(0, 2))}
    rvar_base = {f"W{i}": r.choice(BASES) for i in range(r.randint(0, 1))}

    def attrc() -> str:
        if var_base and r.random() < 0.55:
            v = r.choice(sorted(var_base))
            return f"{v}:{var_base[v]}"
        return "p:" + r.choice(BASES)

    def rangec(kind: str, region: bool) -> str:
        if kind == "s" and not region:
            return "S:" + attrc()
        x = r.random()
        if rvar_base and x < 0.3:
            w = r.choice(sorted(rvar_base))
            return f"{w}:{rvar_base[w]}"
        if x < 0.4:
            return "S:" + attrc()
        return "R:" + attrc()

    spec: dict[str, Any] = {}
    for c in CONSTRUCTS:
        maxl = {"operand": 4, "result": 3, "region": 2, "successor": 2}[c]
        L = r.choice([0, 1, 1, 2, 2, 3, 4][: maxl + 3]) if c in ("operand", "result") else r.randint(0, maxl) if r.random() < 0.5 else 0
        L = min(L, maxl)
        kinds = [r.choice("ssov") for _ in range(L)]
        nvar = sum(k != "s" for k in kinds)
        opt = r.choice(("same", "attr", "attr")) if nvar >= 2 else r.choice(("none", "none", "none", "same", "attr"))
        segs = [[k, rangec(k, c == "region") if c != "successor" else "R:p:any", (c == "region" and r.random() < 0.3)] for k in kinds]
        spec[c] = {"opt": opt, "segs": segs, "as_prop": r.random() < 0.5}
    def entry(i: int) -> list:
        optional, ac = r.random() < 0.4, attrc()
        default = None
        if r.random() < 0.5:
            # mostly a default that satisfies the constraint, sometimes any value
            vals = accepted_values(ac.split(":")[1])
            default = r.choice(vals) if vals and r.random() < 0.85 else r.randrange(NTYPES)
        return [i, optional, ac, default]

    spec["props"] = [entry(i) for i in range(r.choice((0, 0, 1, 2)))]
    spec["attrs"] = [entry(i) for i in range(r.choice((0, 0, 1, 2)))]
    spec["variant"] = r.randint(0, 5)
    # every order of the options in irdl_options
    order = list(CONSTRUCTS)
    r.shuffle(order)
    spec["opt_order"] = order
    return spec


def accepted_values(b: str) -> list[int]:
    return [a for a in range(NTYPES) if base_accepts(b, a)]


def gen_inst(ctx: core.Ctx, spec: dict) -> dict:
    """mostly valid instance of `spec`"""
    r = ctx.rng
    sigma: dict[str, int] = {}
    rsigma: dict[str, list[int]] = {}

    def elem(attrc: list[str]) -> int:
        vals = accepted_values(attrc[1]) or [0]
        if attrc[0] == "p":
            return r.choice(vals)
        if attrc[0] not in sigma:
            sigma[attrc[0]] = r.choice(vals)
        return sigma[attrc[0]]

    def piece(rc: str, size: int) -> list[int]:
        p = rc.split(":")
        if p[0] in ("S", "R"):
            return [elem(p[1:]) for _ in range(size)]
        if p[0] not in rsigma:
            vals = accepted_values(p[1]) or [0]
            rsigma[p[0]] = [r.choice(vals) for _ in range(size)]
        return (rsigma[p[0]] + [0] * size)[:size]

    inst: dict[str, Any] = {}
    for c in CONSTRUCTS:
        cd = spec[c]
        kinds = [s[0] for s in cd["segs"]]
        if cd["opt"] == "same":
            k = r.choice((0, 1)) if "o" in kinds else r.choice((0, 1, 1, 2, 3))
            sizes = [1 if kd == "s" else k for kd in kinds]
        else:
            sizes = [1 if kd == "s" else r.choice((0, 1)) if kd == "o" else r.choice((0, 1, 1, 2, 3)) for kd in kinds]
        sattr = ["i32", list(sizes)] if cd["opt"] == "attr" else ["missing"]
        if c in ("operand", "result"):
            tys: list[int] = []
            for (kd, rc, _sb), s in zip(cd["segs"], sizes):
                tys.extend(piece(rc, s))
            inst[c] = {"tys": tys, "sattr": sattr}
        elif c == "region":
            regs = []
            for (kd, rc, sb), s in zip(cd["segs"], sizes):
                for _ in range(s):
                    blocks = 1 if sb or r.random() < 0.6 else r.choice((0, 2))
                    p = rc.split(":")
                    nargs = 1 if p[0] == "S" else r.choice((0, 1, 2))
                    regs.append([blocks, piece(rc, nargs) if blocks else []])
            inst[c] = {"regs": regs, "sattr": sattr}
        else:
            inst[c] = {"n": sum(sizes), "sattr": sattr}
    for kindname in ("props", "attrs"):
        d = {}
        for name, optional, attrc, default in pa_entries(spec, kindname):
            p = attrc.split(":")
            if (not optional and default is not None and r.random() < 0.5
                    and (p[0] == "p" or sigma.get(p[0], default) == default)):
                # left to the constructor; a variable bound by the default is bound for the rest
                if p[0] != "p":
                    sigma[p[0]] = default
                continue
            if not optional or r.random() < 0.6:
                d[name] = elem(attrc.split(":"))
        inst[kindname] = d
    return inst


def mutate_inst(ctx: core.Ctx, spec: dict, inst: dict) -> dict:
    import copy
    r = ctx.rng
    inst = copy.deepcopy(inst)
    for _ in range(r.choice((1, 1, 2))):
        m = r.random()
        c = r.choice(CONSTRUCTS)
        if r.random() < 0.22:
            # second step of the history: an entry is removed AFTER construction -- every declared
            # kind (required / optional, with / without default, segment sizes) and undeclared names
            drop = inst.setdefault("drop", {"props": [], "attrs": [], "sizes": []})
            x = r.random()
            declared = [(kn, name) for kn in ("props", "attrs") for name, _o, _c, _d in pa_entries(spec, kn)]
            if x < 0.7 and declared:
                kn, name = r.choice(declared)
                if name not in drop[kn]:
                    drop[kn].append(name)
            elif x < 0.85:
                attr_cs = [cc for cc in CONSTRUCTS if spec[cc]["opt"] == "attr"]
                if attr_cs:
                    cc = r.choice(attr_cs)
                    if cc not in drop["sizes"]:
                        drop["sizes"].append(cc)
            else:
                kn = r.choice(("props", "attrs"))
                name = r.randint(0, 3)
                if name not in drop[kn]:
                    drop[kn].append(name)
            continue
        if r.random() < 0.06:
            # a size array under the right name in the wrong dictionary
            valid = inst[c]["sattr"] if inst[c]["sattr"][0] == "i32" else ["i32", [1] * len(spec[c]["segs"])]
            inst[c]["stray"] = [valid[0], list(valid[1])]
            if r.random() < 0.5 and spec[c]["opt"] == "attr":
                inst[c]["sattr"] = ["missing"]
            continue
        if m < 0.25:
            cc = r.choice(("operand", "result"))
            if inst[cc]["tys"]:
                inst[cc]["tys"][r.randrange(len(inst[cc]["tys"]))] = r.randrange(NTYPES)
        elif m < 0.5:
            sa = inst[c]["sattr"]
            if sa[0] == "i32":
                x = r.random()
                if sa[1] and x < 0.6:
                    i = r.randrange(len(sa[1]))
                    sa[1][i] += r.choice((-2, -1, 1, 1, 2))
                    if r.random() < 0.4 and len(sa[1]) > 1:
                        # keep the sum: the other direction on another entry
                        j = (i + 1) % len(sa[1])
                        sa[1][j] -= 1
                elif x < 0.7:
                    sa[1].append(r.choice((0, 1)))
                elif x < 0.8 and sa[1]:
                    sa[1].pop()
                elif x < 0.87:
                    inst[c]["sattr"] = ["missing"]
                elif x < 0.94:
                    inst[c]["sattr"] = ["notdense"]
                else:
                    inst[c]["sattr"] = ["i64", sa[1]]
        elif m < 0.7:
            # change the list length without touching the size attribute
            if c in ("operand", "result"):
                if r.random() < 0.5 and inst[c]["tys"]:
                    inst[c]["tys"].pop(r.randrange(len(inst[c]["tys"])))
                else:
                    inst[c]["tys"].insert(r.randint(0, len(inst[c]["tys"])), r.randrange(NTYPES))
            elif c == "region":
                if r.random() < 0.5 and inst[c]["regs"]:
                    inst[c]["regs"].pop()
                else:
                    inst[c]["regs"].append([1, []])
            else:
                inst[c]["n"] = max(0, inst[c]["n"] + r.choice((-1, 1)))
        elif m < 0.8:
            kindname = r.choice(("props", "attrs"))
            if inst[kindname] and r.random() < 0.5:
                del inst[kindname][r.choice(sorted(inst[kindname]))]
            else:
                inst[kindname][r.randint(0, 3)] = r.randrange(NTYPES)
        elif m < 0.9:
            if inst["region"]["regs"]:
                reg = r.choice(inst["region"]["regs"])
                if r.random() < 0.5:
                    reg[0] = r.choice((0, 1, 2))
                    if reg[0] == 0:
                        reg[1] = []
                elif reg[0]:
                    reg[1] = [r.randrange(NTYPES) for _ in range(r.randint(0, 2))]
        else:
            kindname = r.choice(("props", "attrs"))
            if inst[kindname]:
                inst[kindname][r.choice(sorted(inst[kindname]))] = r.randrange(NTYPES)
    return inst


def def_lines(spec: dict) -> list[str]:
    lines = ["reset"]
    for c in CONSTRUCTS:
        cd = spec[c]
        if cd["opt"] != "none":
            lines.append(f"opt {c} {cd['opt']}")
        if in_props(spec, c):
            lines.append(f"store {c} prop")
        for kind, rc, sb in cd["segs"]:
            lines.append(f"seg {c} {kind} {rc}" + (" sb" if sb else ""))
    for name, optional, attrc, default in pa_entries(spec, "props"):
        lines.append(f"pdef {name} {'opt' if optional else 'req'} {attrc}" + ("" if default is None else f" {default}"))
    for name, optional, attrc, default in pa_entries(spec, "attrs"):
        lines.append(f"adef {name} {'opt' if optional else 'req'} {attrc}" + ("" if default is None else f" {default}"))
    return lines


def list_lines(inst: dict) -> list[str]:
    lines = []
    for c in ("operand", "result"):
        lines.append(f"vals {c} " + (",".join(map(str, inst[c]["tys"])) or "-"))
    for blocks, args in inst["region"]["regs"]:
        lines.append(f"region {blocks} " + (",".join(map(str, args)) or "-"))
    lines.append(f"nsucc {inst['successor']['n']}")
    return lines


def dict_lines(inst: dict) -> list[str]:
    lines = []
    for name, t in inst["props"].items():
        lines.append(f"prop {name} {t}")
    for name, t in inst["attrs"].items():
        lines.append(f"attr {name} {t}")
    return lines


OBS_LINES = ["dict props", "dict attrs", "verify", "acc operand", "acc result", "acc region", "acc successor",
             "dacc props", "dacc attrs"]


def observe_lines(op, spec: dict) -> tuple[list[str], Any]:
    """the observations answering OBS_LINES, and the exception of verify_()"""
    st = observe_state(op, spec)
    v, exc = obs_verify(op)
    obs = [show_dict({k: x for k, x in st["props"].items() if isinstance(k, int)}),
           show_dict({k: x for k, x in st["attrs"].items() if isinstance(k, int)}), v]
    for c in CONSTRUCTS:
        obs.append(obs_access(op, c, len(spec[c]["segs"]))[0])
    obs.append(obs_dict_access(op, spec, "props"))
    obs.append(obs_dict_access(op, spec, "attrs"))
    return obs, exc


def full_lines(spec: dict, inst: dict) -> list[str]:
    """definition, construction from the lists and dictionaries, then the deletions"""
    lines = def_lines(spec) + list_lines(inst)
    for c in CONSTRUCTS:
        if inst[c]["sattr"][0] != "missing":
            lines.append(f"sattr {c} {sattr_tok(inst[c]['sattr'])}")
        if inst[c].get("stray") is not None:
            lines.append(f"rsattr {c} {'attr' if in_props(spec, c) else 'prop'} {sattr_tok(inst[c]['stray'])}")
    lines += dict_lines(inst)
    lines.append("init")
    return lines


def drop_lines(spec: dict, inst: dict) -> list[str]:
    drop = inst.get("drop") or {}
    lines = [f"del prop {k}" for k in drop.get("props", [])] + [f"del attr {k}" for k in drop.get("attrs", [])]
    lines += [f"rdel {c} {'prop' if in_props(spec, c) else 'attr'}" for c in drop.get("sizes", [])]
    return lines


def full_run_case(spec: dict, inst: dict, cls=None) -> tuple[list[str], list[str], Any, Any]:
    """-> (model input lines, impl observation lines, op, verify exception); the last len(OBS_LINES)
    observations are those of OBS_LINES, preceded by the two dictionaries right after construction"""
    if cls is None:
        cls = make_class(spec)
    lines = full_lines(spec, inst)
    obs = ["ok"] * len(lines)
    op = make_instance(cls, spec, inst)
    st0 = observe_state(op, spec)
    lines += ["dict props", "dict attrs"]
    obs += [show_dict({k: x for k, x in st0[kn].items() if isinstance(k, int)}) for kn in ("props", "attrs")]
    dl = drop_lines(spec, inst)
    apply_drops(op, spec, inst)
    lines += dl
    obs += ["ok"] * len(dl)
    o2, exc = observe_lines(op, spec)
    lines += OBS_LINES
    obs += o2
    return lines, obs, op, exc


def oracle_state(ctx: core.Ctx, spec: dict, state: dict, obs: list[str], exc, case: dict) -> None:
    """the first sentence of the property on the operation STATE `state` (as observed on the object at
    verification time): verify_() passes exactly when the reference finds the segmentations and one
    assignment; on a passing operation the segment accessors give the declared segments and the
    dictionary accessors give the stored values"""
    passes, segs = ref_verify(spec, state)
    if any(s == "ambiguous" for s in segs.values()):
        return
    o = dict(zip(OBS_LINES, obs[-len(OBS_LINES):]))
    v = o["verify"]
    shown = obs[-len(OBS_LINES):]
    if passes and v != "ok":
        ctx.fail(exc_site(exc) if exc is not None else "xdsl.irdl.operations.OpDef.verify",
                 "operation satisfying its definition rejected (" + v.replace("raise ", "") + ")", case,
                 f"reference: all lists split into the declared segments and every piece satisfies its constraint; "
                 f"verify_() gives {v}: {str(exc)[:160]}", shown, "ok")
        return
    if not passes and v == "ok":
        bad_c = [c for c in CONSTRUCTS if segs[c] is None]
        if bad_c:
            c = bad_c[0]
            if spec[c]["opt"] == "attr":
                vals = state[c]["sattr"][1] if state[c]["sattr"][0] == "i32" else []
                kinds = "".join(s[0] for s in spec[c]["segs"])
                if len(vals) == len(kinds) and any(x < 0 for x in vals):
                    sig = "negative segment size accepted"
                else:
                    sig = "segment sizes that do not sum to the list length accepted"
                site = "xdsl.irdl.operations.verify_variadic_attr_size"
            else:
                sig, site = "list length with no valid same-size segmentation accepted", "xdsl.irdl.operations.verify_variadic_same_size"
            desc = "verify_() passes although the reference finds no valid segmentation"
        elif ref_required_absent(spec, state):
            sig, site = "operation lacking a non-optional property/attribute accepted", "xdsl.irdl.operations.OpDef.verify"
            desc = (f"verify_() passes although the declared non-optional {', '.join(ref_required_absent(spec, state))} "
                    f"has no value on the operation (dictionary accessors: {o['dacc props']} / {o['dacc attrs']})")
        else:
            sig, site = "operation violating a constraint / variable consistency accepted", "xdsl.irdl.operations.OpDef.verify"
            desc = "verify_() passes although the reference finds no valid segmentation/assignment"
        ctx.fail(site, sig, case, desc, shown, "raise VerifyException")
        return
    if passes:
        for c in CONSTRUCTS:
            kinds = "".join(s[0] for s in spec[c]["segs"])
            expected = show_segments(kinds, split(list(range(inst_len(state, c))), segs[c]))
            if o[f"acc {c}"] != expected:
                ctx.fail("xdsl.irdl.operations.irdl_op_arg_definition", "accessor result differs from the declared segment", case,
                         f"{c} accessors give {o[f'acc {c}']}, declared segments are {expected}", shown, expected)
                return
        for kindname in ("props", "attrs"):
            expected = ref_dict_access(spec, state, kindname)
            if o[f"dacc {kindname}"] != expected:
                ctx.fail("xdsl.irdl.operations.get_accessors_from_op_def",
                         "dictionary accessor of a verified operation differs from the stored value", case,
                         f"{kindname} accessors give {o[f'dacc {kindname}']}, stored values (absent optional: default) are {expected}",
                         shown, expected)
                return


def oracle_full(ctx: core.Ctx, spec: dict, inst: dict, obs: list[str], exc, op=None) -> None:
    case = {"part": "full", "spec": spec, "inst": inst}
    if op is None:
        op = make_instance(make_class(spec), spec, inst)
        apply_drops(op, spec, inst)
    oracle_state(ctx, spec, observe_state(op, spec), obs, exc, case)


def shrink_full(spec: dict, inst: dict, still_fails) -> tuple[dict, dict]:
    """greedy: drop constructs / props / attrs / history steps that are not needed for the failure"""
    import copy
    cur_s, cur_i = spec, inst
    for c in CONSTRUCTS:
        s2, i2 = copy.deepcopy(cur_s), copy.deepcopy(cur_i)
        s2[c] = {"opt": "none", "segs": [], "as_prop": False}
        if c in ("operand", "result"):
            i2[c] = {"tys": [], "sattr": ["missing"]}
        elif c == "region":
            i2[c] = {"regs": [], "sattr": ["missing"]}
        else:
            i2[c] = {"n": 0, "sattr": ["missing"]}
        if "drop" in i2:
            i2["drop"]["sizes"] = [x for x in i2["drop"].get("sizes", []) if x != c]
        if still_fails(s2, i2):
            cur_s, cur_i = s2, i2
    for kindname in ("props", "attrs"):
        s2, i2 = copy.deepcopy(cur_s), copy.deepcopy(cur_i)
        s2[kindname], i2[kindname] = [], {}
        if "drop" in i2:
            i2["drop"][kindname] = []
        if still_fails(s2, i2):
            cur_s, cur_i = s2, i2
        # one entry at a time
        for e in list(cur_s[kindname]):
            s2, i2 = copy.deepcopy(cur_s), copy.deepcopy(cur_i)
            s2[kindname] = [x for x in s2[kindname] if x[0] != e[0]]
            i2[kindname].pop(e[0], None)
            if "drop" in i2:
                i2["drop"][kindname] = [x for x in i2["drop"].get(kindname, []) if x != e[0]]
            if still_fails(s2, i2):
                cur_s, cur_i = s2, i2
    if "drop" in cur_i:
        for key in ("props", "attrs", "sizes"):
            for x in list(cur_i["drop"].get(key, [])):
                i2 = copy.deepcopy(cur_i)
                i2["drop"][key].remove(x)
                if still_fails(cur_s, i2):
                    cur_i = i2
    return cur_s, cur_i


def run_full(ctx: core.Ctx, ndefs: int, ninst: int, nbuild: int = 2) -> None:
    X.load()
    lines: list[str] = []
    impl: list[str] = []
    starts: list[int] = []
    nd = nb = 0
    for _ in range(ndefs):
        if ctx.time_left() < 15:
            break
        spec = gen_def(ctx)
        try:
            cls = make_class(spec)
        except Exception as e:  # noqa: BLE001
            ctx.fail("xdsl.irdl.operations.OpDef.from_pyrdl", "well-formed definition rejected: " + core.exc_name(e),
                     {"part": "full", "spec": spec, "inst": None}, repr(e)[:300])
            continue
        nd += 1
        shared = len({rc for c in CONSTRUCTS for _k, rc, _sb in spec[c]["segs"] if rc.split(":")[-2][0] in "vW"}) >= 1
        base_inst = gen_inst(ctx, spec)
        for k in range(ninst):
            inst = base_inst if k == 0 else (gen_inst(ctx, spec) if ctx.rng.random() < 0.3 else mutate_inst(ctx, spec, base_inst))
            ls, obs, op, exc = full_run_case(spec, inst, cls)
            ctx.ev()
            if shared or any(inst[c]["sattr"][0] != "missing" for c in CONSTRUCTS) or inst.get("drop"):
                ctx.nt(("full", core.json.dumps([spec, inst], sort_keys=True)))
            ctx.count("full.verify." + obs[-len(OBS_LINES) + 2].replace("raise ", ""))
            if inst.get("drop"):
                ctx.count("full.with_deletions")
            oracle_full(ctx, spec, inst, obs, exc, op)
            start = len(lines)
            lines.extend(ls)
            impl.extend(obs)
            starts.extend([start] * len(ls))
        # the generated constructor on the same definition (all constructs, options and storage kinds at once)
        for k in range(nbuild):
            binst = gen_inst(ctx, spec) if k else base_inst
            bcase = gen_build_case(ctx, spec, binst)
            if bcase is None:
                continue
            nb += 1
            ls, obs = buildop_run_case(ctx, spec, bcase["inst"], bcase["shapes"], cls)
            start = len(lines)
            lines.extend(ls)
            impl.extend(obs)
            starts.extend([start] * len(ls))
        if nd <= 2:
            ctx.sample({"part": "full", "spec": spec, "inst": base_inst})
    ctx.count("full.definitions", nd)
    ctx.count("full.constructor_calls", nb)
    # shrink reported full cases
    for f in ctx.failures:
        if f.kind == "failing-input" and isinstance(f.case, dict) and f.case.get("part") == "full" and f.case.get("inst"):
            sig = (f.call_site, f.signature)

            def still(s2, i2, sig=sig):
                try:
                    probe = core.Ctx("C10", ctx.tier, 0, META)
                    _ls, obs2, op2, exc2 = full_run_case(s2, i2)
                    oracle_full(probe, s2, i2, obs2, exc2, op2)
                    return any((g.call_site, g.signature) == sig for g in probe.failures)
                except Exception:  # noqa: BLE001
                    return False
            s2, i2 = shrink_full(f.case["spec"], f.case["inst"], still)
            f.case = {"part": "full", "spec": s2, "inst": i2}
            try:
                probe = core.Ctx("C10", ctx.tier, 0, META)
                _ls, obs2, op2, exc2 = full_run_case(s2, i2)
                oracle_full(probe, s2, i2, obs2, exc2, op2)
                for g in probe.failures:
                    if (g.call_site, g.signature) == sig:
                        f.description, f.impl_obs, f.model_obs = g.description, g.impl_obs, g.model_obs
            except Exception:  # noqa: BLE001
                pass
        if f.kind == "failing-input" and isinstance(f.case, dict) and f.case.get("part") == "buildop":
            shrink_buildop(ctx, f)
    compare_model(ctx, "full", lines, impl, starts)


# ---------------------------------------------------------------------------------------------
# Part E: default values -- construction, deletion, verification, dictionary accessors (exhaustive)
# ---------------------------------------------------------------------------------------------

def empty_spec() -> dict:
    spec: dict[str, Any] = {c: {"opt": "none", "segs": [], "as_prop": False} for c in CONSTRUCTS}
    spec["props"], spec["attrs"], spec["variant"] = [], [], 0
    return spec


def empty_inst() -> dict:
    return {"operand": {"tys": [], "sattr": ["missing"]}, "result": {"tys": [], "sattr": ["missing"]},
            "region": {"regs": [], "sattr": ["missing"]}, "successor": {"n": 0, "sattr": ["missing"]},
            "props": {}, "attrs": {}}


def run_dict(ctx: core.Ctx) -> None:
    """Every declared kind of property and attribute (required / optional) x default (none, satisfying,
    violating) x constraint (plain, variable shared with a second entry) x value given to the
    constructor (absent, satisfying, other) x entry deleted after construction or not."""
    X.load()
    lines: list[str] = []
    impl: list[str] = []
    starts: list[int] = []
    n = 0
    for kindname, optional, attrc, default, second in itertools.product(
            ("props", "attrs"), (False, True), ("p:eq.0", "v0:of.0.1"), (None, 0, 1), (None, "props", "attrs")):
        if second is not None and attrc[0] == "p":
            continue
        spec = empty_spec()
        spec[kindname].append([0, optional, attrc, default])
        if second is not None:
            spec[second].append([1, False, "v0:of.0.1", None])
        spec["variant"] = n % 6
        cls = make_class(spec)
        for passed, drop, second_val in itertools.product((None, 0, 1, 3), (False, True),
                                                         (0, 1) if second is not None else (None,)):
            inst = empty_inst()
            if passed is not None:
                inst[kindname][0] = passed
            if second is not None:
                inst[second][1] = second_val
            if drop:
                inst["drop"] = {"props": [], "attrs": [], "sizes": []}
                inst["drop"][kindname].append(0)
            ls, obs, op, exc = full_run_case(spec, inst, cls)
            ctx.ev()
            ctx.nt(("dict", kindname, optional, attrc, default, second, passed, drop, second_val))
            n += 1
            oracle_full(ctx, spec, inst, obs, exc, op)
            start = len(lines)
            lines.extend(ls)
            impl.extend(obs)
            starts.extend([start] * len(ls))
    ctx.count("dict.cases", n)
    compare_model(ctx, "dict", lines, impl, starts)


# ---------------------------------------------------------------------------------------------
# Part F: the generated constructor on whole definitions: every combination of options and
# storage kinds (as_property per option), every option order
# ---------------------------------------------------------------------------------------------

def shapes_for(ctx: core.Ctx | None, kinds: str, sizes) -> list[str]:
    out = []
    for k, sz in zip(kinds, sizes):
        alt = ctx is not None and ctx.rng.random() < 0.5
        if k == "v":
            out.append(f"L{sz}")
        elif sz == 0:
            out.append("L0" if alt else "N")
        else:
            out.append("L1" if alt else "1")
    return out


def gen_build_case(ctx: core.Ctx, spec: dict, inst: dict) -> dict | None:
    """constructor arguments whose concatenation gives the lists of `inst`"""
    _p, segs = ref_verify(spec, inst)
    if any(not isinstance(segs[c], tuple) for c in CONSTRUCTS):
        return None
    shapes = {}
    for c in CONSTRUCTS:
        kinds = "".join(s[0] for s in spec[c]["segs"])
        sh = shapes_for(ctx, kinds, segs[c])
        if sh and ctx.rng.random() < 0.05:
            # same length, possibly the wrong form for the kind (None for a variadic result, [] for a single …)
            i = ctx.rng.randrange(len(sh))
            sh[i] = {"N": "L0", "L0": "N", "1": "L1", "L1": "1"}.get(sh[i], sh[i])
        shapes[c] = sh
    import copy
    inst = copy.deepcopy(inst)
    inst.pop("drop", None)
    return {"inst": inst, "shapes": shapes}


def shape_args(flat: list, shapes: list[str]) -> list:
    args, pos = [], 0
    for sh in shapes:
        if sh == "N":
            args.append(None)
        elif sh == "1":
            args.append(flat[pos])
            pos += 1
        else:
            k = int(sh[1:])
            args.append(list(flat[pos: pos + k]))
            pos += k
    return args


def buildop_run_case(ctx: core.Ctx, spec: dict, inst: dict, shapes: dict, cls=None) -> tuple[list[str], list[str]]:
    """Op.build(operands=…, result_types=…, regions=…, successors=…, properties=…, attributes=…) on a whole
    definition + direct oracle (built operations verify, accessors give back the arguments) + model lines"""
    if cls is None:
        cls = make_class(spec)
    case = {"part": "buildop", "spec": spec, "inst": inst, "shapes": shapes}
    lines = def_lines(spec) + list_lines(inst) + dict_lines(inst)
    for c in CONSTRUCTS:
        lines.append(f"bshape {c} " + " ".join(shapes[c]))
    obs = ["ok"] * len(lines)
    lines.append("buildop " + " ".join(spec.get("opt_order") or CONSTRUCTS))
    ctx.ev()
    n_attr = [c for c in CONSTRUCTS if spec[c]["opt"] == "attr"]
    ctx.nt(("buildop", core.json.dumps([spec, inst, shapes], sort_keys=True)))
    if len({in_props(spec, c) for c in n_attr}) == 2:
        ctx.count("buildop.mixed_storage")
    kinds = {c: "".join(s[0] for s in spec[c]["segs"]) for c in CONSTRUCTS}
    satisfying = all(len(shapes[c]) == len(kinds[c]) and all(arg_satisfies(k, sh) for k, sh in zip(kinds[c], shapes[c]))
                     for c in CONSTRUCTS)
    operands, result_types, regions, successors = make_values(inst)
    flat = {"operand": operands, "result": result_types, "region": regions, "successor": successors}
    props = {f"p{k}": X.T[v] for k, v in inst["props"].items()}
    attrs = {f"a{k}": X.T[v] for k, v in inst["attrs"].items()}
    try:
        op = cls.build(operands=shape_args(operands, shapes["operand"]), result_types=shape_args(result_types, shapes["result"]),
                       regions=shape_args(regions, shapes["region"]), successors=shape_args(successors, shapes["successor"]),
                       properties=props, attributes=attrs)
    except ValueError as e:
        obs.append("err")
        if satisfying:
            ctx.fail("xdsl.irdl.operations.irdl_build_arg_list", "arguments satisfying the definition rejected", case,
                     f"constructor arguments {shapes} for segments {kinds}: ValueError {str(e)[:120]}", "err", "ok")
        return lines, obs
    except Exception as e:  # noqa: BLE001
        obs.append("raise " + core.exc_name(e))
        if satisfying:
            ctx.fail(exc_site(e), "constructor raises " + core.exc_name(e), case,
                     f"constructor arguments {shapes} for segments {kinds}: {e!r}", obs[-1], "ok")
        return lines, obs
    obs.append("ok")
    lines.append("rsizes")
    obs.append(show_raw(op))
    o2, exc = observe_lines(op, spec)
    lines += OBS_LINES
    obs += o2
    o = dict(zip(OBS_LINES, o2))
    shown = [obs[-len(OBS_LINES) - 1]] + o2
    # (1) the first sentence on the object as built
    nfail = len(ctx.failures)
    oracle_state(ctx, spec, observe_state(op, spec), obs, exc, case)
    if len(ctx.failures) > nfail:
        return lines, obs
    # (2) "operations built through the generated constructor from arguments that satisfy the definition
    # always verify, and the generated accessors return exactly the declared segments"
    intended = dict(inst, props=ref_fill(spec, "props", inst["props"]), attrs=ref_fill(spec, "attrs", inst["attrs"]))
    passes, segs = ref_verify(spec, intended)
    if not satisfying or not passes:
        return lines, obs
    same_lists = (len(op.operands) == len(operands) and all(a is b for a, b in zip(op.operands, operands))
                  and [r.type for r in op.results] == result_types
                  and len(op.regions) == len(regions) and all(a is b for a, b in zip(op.regions, regions))
                  and len(op.successors) == len(successors) and all(a is b for a, b in zip(op.successors, successors)))
    if not same_lists:
        ctx.fail("xdsl.irdl.operations.irdl_op_init", "lists of a built operation differ from its arguments", case,
                 "operands/results/regions/successors of the built operation are not the concatenation of the arguments",
                 shown, "the arguments in order")
    elif o["verify"] != "ok":
        ctx.fail("xdsl.irdl.operations.irdl_op_init", "built operation does not verify", case,
                 f"arguments {shapes} satisfy the definition (segments {kinds}, options "
                 f"{ {c: (spec[c]['opt'], 'property' if in_props(spec, c) else 'attribute') for c in n_attr} }) but the built "
                 f"operation gives {o['verify']}: {str(exc)[:140]}; stored size arrays: {shown[0]}", shown, "ok")
    else:
        for c in CONSTRUCTS:
            expected = show_segments(kinds[c], split(list(range(len(flat[c]))), segs[c]))
            if o[f"acc {c}"] != expected:
                ctx.fail("xdsl.irdl.operations.irdl_op_arg_definition", "accessors of a built operation differ from its arguments",
                         case, f"{c}: accessors {o[f'acc {c}']}, arguments {expected}", shown, expected)
                break
    return lines, obs


def shrink_buildop(ctx: core.Ctx, f) -> None:
    sig = (f.call_site, f.signature)
    shapes0 = f.case["shapes"]

    def shapes_of(s2, i2):
        return {c: (shapes0[c] if s2[c]["segs"] else []) for c in CONSTRUCTS}

    def still(s2, i2):
        try:
            probe = core.Ctx("C10", ctx.tier, 0, META)
            buildop_run_case(probe, s2, i2, shapes_of(s2, i2))
            return any((g.call_site, g.signature) == sig for g in probe.failures)
        except Exception:  # noqa: BLE001
            return False
    s2, i2 = shrink_full(f.case["spec"], f.case["inst"], still)
    f.case = {"part": "buildop", "spec": s2, "inst": i2, "shapes": shapes_of(s2, i2)}
    probe = core.Ctx("C10", ctx.tier, 0, META)
    try:
        buildop_run_case(probe, s2, i2, f.case["shapes"])
    except Exception:  # noqa: BLE001
        return
    for g in probe.failures:
        if (g.call_site, g.signature) == sig:
            f.description, f.impl_obs, f.model_obs = g.description, g.impl_obs, g.model_obs


BUILDOP_CHOICES = {"plain": ("none", "s", False), "same": ("same", "vv", False),
                   "attrA": ("attr", "vo", False), "attrP": ("attr", "vo", True)}


def run_buildop(ctx: core.Ctx, all_orders: bool) -> None:
    """every assignment of {no option, same-size, attribute-sized stored as attribute, attribute-sized
    stored as property} to the four constructs x option orders x two argument vectors"""
    X.load()
    lines: list[str] = []
    impl: list[str] = []
    starts: list[int] = []
    ncls = ncase = 0
    for combo in itertools.product(BUILDOP_CHOICES, repeat=4):
        if ctx.time_left() < 15:
            break
        with_opt = [c for c, ch in zip(CONSTRUCTS, combo) if ch != "plain"]
        rest = [c for c in CONSTRUCTS if c not in with_opt]
        if all_orders:
            orders = [list(p) + rest for p in itertools.permutations(with_opt)]
        else:
            orders = [with_opt + rest]
            if len(with_opt) >= 2:
                orders.append(with_opt[::-1] + rest)
            if len(with_opt) >= 3:
                sh = list(with_opt)
                ctx.rng.shuffle(sh)
                if sh + rest not in orders:
                    orders.append(sh + rest)
        for order in orders:
            spec = empty_spec()
            for c, ch in zip(CONSTRUCTS, combo):
                opt, kinds, as_prop = BUILDOP_CHOICES[ch]
                spec[c] = {"opt": opt, "as_prop": as_prop,
                           "segs": [[k, "S:p:any" if (k == "s" and c != "region") else "R:p:any", False] for k in kinds]}
            spec["opt_order"] = order
            spec["variant"] = ncls % 6
            cls = make_class(spec)
            ncls += 1
            for variant in (0, 1):
                inst = empty_inst()
                shapes = {}
                for c, ch in zip(CONSTRUCTS, combo):
                    kinds = BUILDOP_CHOICES[ch][1]
                    sizes = {"s": [1], "vv": [[2, 2], [1, 1]][variant], "vo": [[2, 0], [0, 1]][variant]}[kinds]
                    n = sum(sizes)
                    if c in ("operand", "result"):
                        inst[c]["tys"] = [(i + variant) % NTYPES for i in range(n)]
                    elif c == "region":
                        inst[c]["regs"] = [[1, []] for _ in range(n)]
                    else:
                        inst[c]["n"] = n
                    if BUILDOP_CHOICES[ch][0] == "attr":
                        inst[c]["sattr"] = ["i32", list(sizes)]
                    shapes[c] = shapes_for(None, kinds, sizes)
                ls, obs = buildop_run_case(ctx, spec, inst, shapes, cls)
                ncase += 1
                start = len(lines)
                lines.extend(ls)
                impl.extend(obs)
                starts.extend([start] * len(ls))
    ctx.count("buildop.definitions", ncls)
    ctx.count("buildop.calls", ncase)
    for f in ctx.failures:
        if f.kind == "failing-input" and isinstance(f.case, dict) and f.case.get("part") == "buildop":
            shrink_buildop(ctx, f)
    compare_model(ctx, "buildop", lines, impl, starts)


# ---------------------------------------------------------------------------------------------
# Part D: operations of registered dialects, from the .mlir corpus
# ---------------------------------------------------------------------------------------------

def positions(seq: list, vals: list, prefer: int | None) -> list[Any]:
    """Positions of the returned objects in the construct list.  Corpus operations may use the same
    SSA value several times, so identity does not determine a position: a window that is
    element-wise identical to the returned objects is looked for, first at the declared start."""
    m = len(vals)
    cands = ([prefer] if prefer is not None else []) + list(range(0, len(seq) - m + 1))
    for st in cands:
        if 0 <= st and st + m <= len(seq) and all(seq[st + j] is vals[j] for j in range(m)):
            return list(range(st, st + m))
    return [next((i for i, y in enumerate(seq) if y is x), "foreign") for x in vals]


def run_corpus(ctx: core.Ctx, max_files: int, budget_s: float) -> None:
    import time
    X.load()
    from xdsl.context import Context
    from xdsl.dialects import get_all_dialects
    from xdsl.irdl import IRDLOperation
    from xdsl.irdl import operations as ops_mod
    from xdsl.parser import Parser

    files = sorted((core.REPO / "tests").rglob("*.mlir"))
    ctx.rng.shuffle(files)
    t_end = time.time() + budget_s
    seen: set[tuple] = set()
    lines: list[str] = []
    impl: list[str] = []
    cases: list[dict] = []
    nops = nfiles = both = 0
    construct_enum = {"operand": ops_mod.VarIRConstruct.OPERAND, "result": ops_mod.VarIRConstruct.RESULT,
                      "region": ops_mod.VarIRConstruct.REGION, "successor": ops_mod.VarIRConstruct.SUCCESSOR}
    for f in files[:max_files]:
        if time.time() > t_end or ctx.time_left() < 10:
            break
        try:
            text = f.read_text()
        except Exception:  # noqa: BLE001
            continue
        nfiles += 1
        for chunk in text.split("// -----"):
            c2 = Context(allow_unregistered=True)
            for name, factory in get_all_dialects().items():
                c2.register_dialect(name, factory)
            try:
                module = Parser(c2, chunk).parse_module()
            except BaseException:  # noqa: BLE001
                continue
            for op in module.walk():
                if not isinstance(op, IRDLOperation):
                    continue
                try:
                    od = op.get_irdl_definition()
                except Exception:  # noqa: BLE001
                    continue
                nops += 1
                for c in CONSTRUCTS:
                    defs = ops_mod.get_construct_defs(od, construct_enum[c])
                    if not defs:
                        continue
                    kinds = "".join("o" if isinstance(d, ops_mod.OptionalDef) else "v" if isinstance(d, ops_mod.VariadicDef) else "s"
                                    for _n, d in defs)
                    same = any(isinstance(o, ops_mod.get_same_variadic_size_option(construct_enum[c])) for o in od.options)
                    attro = next((o for o in od.options if isinstance(o, ops_mod.get_attr_size_option(construct_enum[c]))), None)
                    if same and attro is not None:
                        both += 1
                        continue
                    opt = "same" if same else "attr" if attro is not None else "none"
                    seq = list(constructs_of(op, c))
                    n = len(seq)
                    sattr = ["missing"]
                    if attro is not None:
                        a = attro.container(op).get(attro.attribute_name)
                        if a is not None:
                            if isinstance(a, X.builtin.DenseArrayBase):
                                try:
                                    sattr = ["i32" if a.elt_type == X.builtin.i32 else "i64", [int(x) for x in a.get_values()]]
                                except Exception:  # noqa: BLE001
                                    continue
                            else:
                                sattr = ["notdense"]
                    key = (op.name, kinds, opt, n, sattr_tok(sattr))
                    if key in seen or all(k == "s" for k in kinds) and len(seen) > 400:
                        continue
                    seen.add(key)
                    try:
                        ops_mod.verify_variadic_size(op, od, construct_enum[c])
                        v, exc = "ok", None
                    except X.VerifyException as e:
                        v, exc = "raise VerifyException", e
                    except Exception as e:  # noqa: BLE001
                        v, exc = "raise " + core.exc_name(e), e
                    ref0 = ref_segmentation(kinds, opt, n, sattr) if ref_wf(kinds, opt) else None
                    starts = [sum(ref0[:i]) for i in range(len(kinds))] if isinstance(ref0, tuple) else [None] * len(kinds)
                    accs = []
                    for (name, _d), st in zip(defs, starts):
                        try:
                            val = getattr(op, name)
                        except Exception as e:  # noqa: BLE001
                            accs.append(core.exc_name(e))
                            continue
                        if val is None:
                            accs.append("none")
                        elif isinstance(val, (tuple, list)) or type(val).__name__ in ("SSAValues", "OpOperands", "OpSuccessors"):
                            accs.append("[" + ",".join(map(str, positions(seq, list(val), st))) + "]")
                        else:
                            accs.append(str(positions(seq, [val], st)[0]))
                    acc = "|".join(accs)
                    ctx.ev()
                    if any(k != "s" for k in kinds):
                        ctx.nt(("corpus",) + key)
                    case = {"part": "corpus", "file": str(f.relative_to(core.REPO)), "op": op.name, "construct": c, "kinds": kinds,
                            "opt": opt, "n": n, "sattr": sattr}
                    if ref_wf(kinds, opt):
                        oracle_seg(ctx, case, c, kinds, opt, n, sattr, ref_segmentation(kinds, opt, n, sattr), v, exc, acc)
                        tok = sattr_tok(sattr)
                        lines.append(f"sizes {opt} {kinds} {n} {tok}")
                        impl.append("ok" if v == "ok" else "err" if v == "raise VerifyException" else v)
                        cases.append(case)
                        lines.append(f"access {opt} {kinds} {n} {tok}")
                        impl.append(acc)
                        cases.append(case)
    ctx.count("corpus.files", nfiles)
    ctx.count("corpus.irdl_ops_seen", nops)
    ctx.count("corpus.distinct_construct_cases", len(seen))
    ctx.count("corpus.skipped_both_options", both)
    compare_model(ctx, "corpus", lines, impl, cases)


# ---------------------------------------------------------------------------------------------

def run(ctx: core.Ctx) -> None:
    import time
    t = time.time()
    times: dict[str, float] = {}

    def lap(name: str) -> None:
        nonlocal t
        times[name] = round(time.time() - t, 1)
        t = time.time()

    ctx.lean()
    lap("lean")
    if ctx.tier == "quick":
        run_seg(ctx, maxlen=3, maxn=4, full_len=3)
        lap("seg")
        run_build(ctx, maxlen=3, nrandom=300)
        lap("build")
        run_dict(ctx)
        lap("dict")
        run_buildop(ctx, all_orders=False)
        lap("buildop")
        run_full(ctx, ndefs=1200, ninst=10, nbuild=2)
        lap("full")
        run_corpus(ctx, max_files=120, budget_s=12)
        lap("corpus")
    else:
        run_seg(ctx, maxlen=4, maxn=7, full_len=3)
        lap("seg")
        run_build(ctx, maxlen=4, nrandom=5000)
        lap("build")
        run_dict(ctx)
        lap("dict")
        run_buildop(ctx, all_orders=True)
        lap("buildop")
        run_full(ctx, ndefs=20000, ninst=14, nbuild=4)
        lap("full")
        run_corpus(ctx, max_files=10_000, budget_s=240)
        lap("corpus")
    ctx.extra["phase_seconds"] = times
    ctx.exhaustive = True
    ctx.extra["exhaustive_scope"] = (
        "seg/build: all kind lists up to the stated length × options × list lengths × size vectors over -1..3 "
        "(all four constructs for length ≤2, operands + one rotating construct beyond); dict: all 576 default-value "
        "histories; buildop: all 256 option/storage assignments (thorough: × all option orders); full/corpus: random"
    )


def replay(ctx: core.Ctx, body: dict) -> int:
    X.load()
    case = body["case"]
    part = case.get("part")
    probe = core.Ctx("C10", ctx.tier, 0, META)
    lines: list[str] = []
    impl: list[str] = []
    cases: list[Any] = []
    if part == "seg":
        check_seg_case(probe, case["construct"], case["kinds"], case["opt"], case["n"], case["sattr"],
                       case.get("as_prop", False), lines, impl, cases)
        print("reference segmentation:", ref_segmentation(case["kinds"], case["opt"], case["n"], case["sattr"]))
    elif part == "wf":
        cls = seg_class(case["construct"], case["kinds"], case["opt"], False)
        impl = ["raise " + core.exc_name(cls) if isinstance(cls, BaseException) else "ok"]
        if impl[0] == "raise PyRDLOpDefinitionError":
            impl = ["err"]
        lines = [f"wf {case['opt']} {case['kinds'] or '-'}"]
        print("reference well-formed:", ref_wf(case["kinds"], case["opt"]))
        if (impl[0] == "ok") != ref_wf(case["kinds"], case["opt"]):
            probe.fail("x", "y", case, "definition acceptance differs")
    elif part == "build":
        probe.budget_s = 1e9
        check_build_case(probe, case["construct"], case["kinds"], case["opt"], tuple(case["shapes"]), lines, impl, cases)
    elif part == "full" and case.get("inst") is not None:
        inst = norm_inst(case["inst"])
        lines, impl, op, exc = full_run_case(case["spec"], inst)
        oracle_full(probe, case["spec"], inst, impl, exc, op)
        state = observe_state(op, case["spec"])
        print("operation state at verification time:", {k: state[k] for k in ("props", "attrs")},
              {c: state[c] for c in CONSTRUCTS})
        print("reference (passes, segments):", ref_verify(case["spec"], state))
    elif part == "buildop":
        probe.budget_s = 1e9
        lines, impl = buildop_run_case(probe, case["spec"], norm_inst(case["inst"]), case["shapes"])
    elif part == "corpus":
        print("corpus case; re-run the check to re-find it in", case.get("file"))
        tok = sattr_tok(case["sattr"])
        lines = [f"sizes {case['opt']} {case['kinds']} {case['n']} {tok}", f"access {case['opt']} {case['kinds']} {case['n']} {tok}"]
        impl = body.get("impl_observation")
    elif "lines" in case:
        lines, impl = case["lines"], body.get("impl_observation")
    model = ctx.model("op_def", lines) if lines else []
    print("model input   :", lines)
    print("implementation:", impl)
    print("lean model    :", model)
    bad = bool(probe.failures)
    for f in probe.failures:
        print("oracle:", f.description)
    print("property", "FAILS" if bad else "holds", "on this case")
    return 1 if bad else 0
