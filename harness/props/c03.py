"""C03 — structural equivalence holds exactly for isomorphic IR."""
from __future__ import annotations

import copy
from typing import Any, Iterator

from vp import core

META = {
    "title": "Structural equivalence holds exactly for isomorphic IR",
    "category": "proof",
    "design_ref": "DESIGN.md §5 C03",
    "lean_modules": ["XdslProofs.C03"],
    "text": (
        "Lean model XdslModel/StructEq.lean: IR trees (operations with name, operand ids, results "
        "(id,type), attribute/property lists, successor ids, regions; blocks with id, (id,type) "
        "arguments, operations) and `structEq`, the walk of Operation/Block/Region."
        "is_structurally_equivalent with its context dictionary and the final one-to-one check "
        "exactly as the (repaired) Python runs it.  `Iso a b` = a map of values and blocks, identity outside a's definitions and one-to-one on "
        "everything a mentions, under which every field agrees (the property's sentence).  Theorems "
        "(XdslProofs/C03.lean): structEq_refl for every tree (graph regions, forward and even ill-scoped "
        "references included); isoDecide_iff (the positional decision procedure decides Iso); "
        "structEq_complete (Iso ⇒ structEq for region-scoped trees), structEq_sound and "
        "structEq_iff_iso (⇒ and ⇔; the final one-to-one step of the repaired code rejects a tree that "
        "takes a definition of the other tree from outside, lemma oneToOne_iff_sep), structEq_symm, "
        "structEq_clone (a tree and its renamed copy with external references kept).  Tie to /repo: every generated / corpus / mutated pair is run through the real "
        "methods, through an independent Python isomorphism oracle (canonical numbering by first "
        "occurrence) and through the Lean driver (`eq` = model of the code, `iso` = proved decision "
        "procedure); all three verdicts are compared pair by pair.  CSE's table key: for every pair of "
        "operations (without successors) OperationInfo.__eq__ (both ways), hash equality and a dict lookup are "
        "compared with a second direct oracle (same entry iff name, attribute / property mappings, identical "
        "operand values, result types and region-wise isomorphism agree), including clones whose attribute / "
        "property dictionaries were refilled in the opposite order; CSE itself is run on two candidates that are "
        "identical, differ in one field, or are identical but written with reordered dictionaries."
    ),
    "technique": "Lean 4 proofs over a tree model + differential correspondence (real code / Lean model / independent oracle) on generated pairs, clones, corpus and every single-point mutation",
    "level_note": (
        "Trusted: Lean kernel; hand-written model XdslModel/StructEq.lean tied to core.py by "
        "correspondence only; the serialiser in harness/props/c03.py; Python `==` on attributes (C08's "
        "subject) is taken as the meaning of 'attributes agree'.  Out of the quantifier: IR in which a "
        "value or block defined inside a nested region is used outside that region (invalid under "
        "MLIR scoping in every region kind; such trees are still sent through the model/implementation "
        "correspondence, only the oracle is not applied to them).  The parent check of the operation "
        "method is exercised (attached operations are compared) but not modelled (it cannot fail from "
        "an empty context).  OperationInfo is compared with its oracle only on operation pairs without "
        "successors (CSE never keys terminators; the key ignores successors) and not on corpus mutants (cost); "
        "the insertion order of an attribute / property dictionary is taken to be representation, not content "
        "(Operation.is_structurally_equivalent, dict ==, the printer/parser round trip all treat it so)."
    ),
    "rule": (
        "A case is an ordered pair of IR trees (operation, block or region roots).  Sources: a fixed "
        "enumeration of small templates (straight-line, use-before-def in one block, use of a value "
        "from a later block, nested region using an enclosing forward value, successors forward and "
        "backward, external operands, duplicated siblings, sibling using the other sibling's value) and "
        "seeded random programs (depth ≤ 3, 1–3 blocks per region, 0–2 regions per op), each taken "
        "against itself, its real clone(), the clone with every attribute / property dictionary refilled in the "
        "opposite order, a rebuilt copy, its sub-nodes against the clone's sub-nodes, "
        "neighbouring siblings, and against EVERY single-point mutation of the listed kinds (small "
        "programs) or a random sample of them (large programs, corpus modules); plus the parseable "
        "chunks of tests/**/*.mlir.  Non-trivial = the pair has equal op-name skeleton (so the verdict "
        "depends on wiring/fields, not on an early name mismatch) and at least one internal value use; "
        "distinct = distinct (canonical form a, canonical form b)."
    ),
    "trusted_base": [
        "correspondence harness harness/props/c03.py (serialiser, generator, independent canonical-form oracle)",
        "hand-written Lean model XdslModel/StructEq.lean of xdsl/ir/core.py is_structurally_equivalent",
    ],
    "budget": {"quick": 100, "thorough": 1100},
}

SITE = "xdsl.ir.core.Operation.is_structurally_equivalent"
SITE_CSE = "xdsl.transforms.common_subexpression_elimination.OperationInfo.__eq__"
SITE_SCHED = "xdsl.passes.ModulePass.schedule_space"

TYPE_NAMES = ["i32", "i1", "i64", "index", "f32"]
ATTR_NAMES = ["unit", "i0", "i1", "sa", "sb", "ti32"]
OP_NAMES = ["test.op", "test.pureop", "test.termop", "u:foo.bar", "u:foo.baz"]

# ---------------------------------------------------------------------------------------------
# resolving names of the JSON spec to xDSL objects
# ---------------------------------------------------------------------------------------------
_RES: dict[str, Any] = {}


def res() -> dict[str, Any]:
    if _RES:
        return _RES
    from xdsl.dialects import builtin, test
    from xdsl.dialects.builtin import (Float32Type, IndexType, IntegerAttr, StringAttr, UnitAttr,
                                       UnregisteredOp, i1, i32, i64)

    _RES["types"] = {"i32": i32, "i1": i1, "i64": i64, "index": IndexType(), "f32": Float32Type()}
    _RES["attrs"] = {
        "unit": UnitAttr(), "i0": IntegerAttr(0, i32), "i1": IntegerAttr(1, i32),
        "sa": StringAttr("a"), "sb": StringAttr("b"), "ti32": i32,
    }
    _RES["cls"] = {
        "test.op": test.TestOp, "test.pureop": test.TestPureOp, "test.termop": test.TestTermOp,
        "builtin.module": builtin.ModuleOp,
    }
    _RES["unreg"] = UnregisteredOp
    return _RES


def r_type(t: Any) -> Any:
    return res()["types"][t] if isinstance(t, str) else t


def r_attr(a: Any) -> Any:
    if not isinstance(a, str):
        return a
    r = res()
    return r["attrs"][a] if a in r["attrs"] else r["types"][a]


def r_cls(n: Any) -> Any:
    if not isinstance(n, str):
        return n
    r = res()
    if n.startswith("u:"):
        key = "cls:" + n
        if key not in r:
            r[key] = r["unreg"].with_name(n[2:])
        return r[key]
    return r["cls"][n]


# ---------------------------------------------------------------------------------------------
# spec: nested dicts.  op = {n,o,r,a,p,s,g}; block = {b,args,ops}.  Value and block ids share one
# counter.  Ids not defined in the tree are external objects (shared through `ext`).
# ---------------------------------------------------------------------------------------------

def mk_op(n="test.op", o=(), r=(), a=None, p=None, s=(), g=()):
    return {"n": n, "o": list(o), "r": [list(x) for x in r], "a": dict(a or {}), "p": dict(p or {}),
            "s": list(s), "g": [list(x) for x in g]}


def mk_block(b, args=(), ops=()):
    return {"b": b, "args": [list(x) for x in args], "ops": list(ops)}


def spec_ops(op: dict) -> Iterator[dict]:
    yield op
    for reg in op["g"]:
        for blk in reg:
            for o in blk["ops"]:
                yield from spec_ops(o)


def spec_blocks(op: dict) -> Iterator[dict]:
    for reg in op["g"]:
        for blk in reg:
            yield blk
            for o in blk["ops"]:
                yield from spec_blocks(o)


def spec_defs(op: dict) -> list[int]:
    d = [x[0] for o in spec_ops(op) for x in o["r"]]
    for b in spec_blocks(op):
        d.append(b["b"])
        d += [x[0] for x in b["args"]]
    return d


class Ext:
    """external objects shared by all trees built for one case (values or blocks, by use position)"""

    def __init__(self) -> None:
        self.vals: dict[int, Any] = {}
        self.blocks: dict[int, Any] = {}

    def val(self, i: int) -> Any:
        if i not in self.vals:
            from xdsl.utils.test_value import create_ssa_value
            self.vals[i] = create_ssa_value(r_type("i32"))
        return self.vals[i]

    def block(self, i: int) -> Any:
        if i not in self.blocks:
            from xdsl.ir import Block
            self.blocks[i] = Block()
        return self.blocks[i]


def build(spec: dict, ext: Ext) -> Any:
    """spec → detached xDSL operation (two phases, so that any reference order is fine)"""
    from xdsl.ir import Block, Region

    objs: dict[int, Any] = {}
    pending: list[tuple[Any, dict]] = []

    def op_(s: dict) -> Any:
        regions = [Region([blk_(b) for b in reg]) for reg in s["g"]]
        op = r_cls(s["n"]).create(
            operands=[], result_types=[r_type(t) for _, t in s["r"]],
            properties={k: r_attr(v) for k, v in s["p"].items()},
            attributes={k: r_attr(v) for k, v in s["a"].items()},
            successors=[], regions=regions)
        for (vid, _), resv in zip(s["r"], op.results):
            objs[vid] = resv
        pending.append((op, s))
        return op

    def blk_(b: dict) -> Any:
        blk = Block(arg_types=[r_type(t) for _, t in b["args"]])
        objs[b["b"]] = blk
        for (vid, _), arg in zip(b["args"], blk.args):
            objs[vid] = arg
        for o in b["ops"]:
            blk.add_op(op_(o))
        return blk

    root = op_(spec)
    for op, s in pending:
        if s["o"]:
            op.operands = [objs[i] if i in objs else ext.val(i) for i in s["o"]]
        if s["s"]:
            op.successors = [objs[i] if i in objs else ext.block(i) for i in s["s"]]
    return root


def export(root: Any, ext: Ext) -> dict:
    """xDSL operation → spec holding the attribute objects and op classes themselves; objects that
    are not defined inside get ids registered in `ext` (so a rebuilt tree shares them)."""
    from xdsl.ir import Block

    ids: dict[int, int] = {}
    keep: list[Any] = []

    def define(o: Any) -> int:
        ids[id(o)] = len(ids)
        keep.append(o)
        return ids[id(o)]

    for op in root.walk():
        for r in op.results:
            define(r)
        for reg in op.regions:
            for b in reg.blocks:
                define(b)
                for a in b.args:
                    define(a)
    nint = len(ids)

    def ref(o: Any) -> int:
        if id(o) not in ids:
            i = define(o)
            (ext.blocks if isinstance(o, Block) else ext.vals)[i] = o
        return ids[id(o)]

    def op_(op: Any) -> dict:
        return {"n": type(op), "o": [ref(v) for v in op.operands],
                "r": [[ids[id(r)], r.type] for r in op.results],
                "a": dict(op.attributes), "p": dict(op.properties),
                "s": [ref(b) for b in op.successors],
                "g": [[{"b": ids[id(b)], "args": [[ids[id(a)], a.type] for a in b.args],
                        "ops": [op_(o) for o in b.ops]} for b in reg.blocks] for reg in op.regions]}

    s = op_(root)
    s["_nint"] = nint
    return s


# ---------------------------------------------------------------------------------------------
# navigation: path = [] (root op) then region idx, block idx, op idx, region idx, …
# ---------------------------------------------------------------------------------------------

def node_at(root: Any, path: list[int]) -> Any:
    cur: Any = root
    for d, i in enumerate(path):
        k = d % 3
        if k == 0:
            cur = cur.regions[i]
        elif k == 1:
            cur = list(cur.blocks)[i]
        else:
            cur = list(cur.ops)[i]
    return cur


def spec_paths(spec: dict) -> list[list[int]]:
    out: list[list[int]] = []

    def op_(s: dict, p: list[int]) -> None:
        out.append(p)
        for ri, reg in enumerate(s["g"]):
            out.append(p + [ri])
            for bi, b in enumerate(reg):
                out.append(p + [ri, bi])
                for oi, o in enumerate(b["ops"]):
                    op_(o, p + [ri, bi, oi])

    op_(spec, [])
    return out


# ---------------------------------------------------------------------------------------------
# independent oracle: canonical form by first occurrence in walk order
# ---------------------------------------------------------------------------------------------

def internal_objects(node: Any) -> set[int]:
    from xdsl.ir import Block, Operation, Region

    s: set[int] = set()

    def op_(op: Any) -> None:
        for r in op.results:
            s.add(id(r))
        for reg in op.regions:
            reg_(reg)

    def reg_(reg: Any) -> None:
        for b in reg.blocks:
            blk_(b)

    def blk_(b: Any) -> None:
        s.add(id(b))
        for a in b.args:
            s.add(id(a))
        for o in b.ops:
            op_(o)

    if isinstance(node, Operation):
        op_(node)
    elif isinstance(node, Block):
        blk_(node)
    else:
        assert isinstance(node, Region)
        reg_(node)
    return s


def canon(node: Any) -> Any:
    """nested tuples; internal values/blocks → ('i', first-occurrence number), others → ('e', id)"""
    from xdsl.ir import Block, Operation

    inside = internal_objects(node)
    num: dict[int, int] = {}

    def tok(o: Any) -> tuple:
        if id(o) in inside:
            if id(o) not in num:
                num[id(o)] = len(num)
            return ("i", num[id(o)])
        return ("e", id(o))

    def op_(op: Any) -> tuple:
        operands = tuple(tok(v) for v in op.operands)
        results = tuple((tok(r), r.type) for r in op.results)
        succs = tuple(tok(b) for b in op.successors)
        attrs = tuple(sorted(op.attributes.items(), key=lambda kv: kv[0]))
        props = tuple(sorted(op.properties.items(), key=lambda kv: kv[0]))
        return ("op", op.name, operands, results, attrs, props, succs, tuple(reg_(r) for r in op.regions))

    def reg_(reg: Any) -> tuple:
        # blocks are numbered when the region is entered only if referenced earlier; a block's own
        # number is taken at its position in the walk
        return ("region", tuple(blk_(b) for b in reg.blocks))

    def blk_(b: Any) -> tuple:
        return ("block", tok(b), tuple((tok(a), a.type) for a in b.args), tuple(op_(o) for o in b.ops))

    if isinstance(node, Operation):
        return op_(node)
    if isinstance(node, Block):
        return blk_(node)
    return reg_(node)


OP_FIELDS = ["kind", "operation name", "operand wiring", "results", "attributes", "properties", "successors", "regions"]


def diff_kind(a: Any, b: Any) -> str:
    """which field makes two canonical forms differ (label for the failure signature)"""
    if type(a) is not type(b) or not isinstance(a, tuple):
        return "node kind"
    if a[0] != b[0]:
        return "node kind"
    if a[0] == "op":
        for i in range(1, 8):
            if a[i] != b[i]:
                if i == 3:
                    if len(a[3]) != len(b[3]):
                        return "number of results"
                    if [t for _, t in a[3]] != [t for _, t in b[3]]:
                        return "result type"
                    return "result identity"
                if i == 2 and len(a[2]) != len(b[2]):
                    return "number of operands"
                if i == 7:
                    if len(a[7]) != len(b[7]):
                        return "number of regions"
                    for x, y in zip(a[7], b[7]):
                        if x != y:
                            return diff_kind(x, y)
                return OP_FIELDS[i]
    if a[0] == "region":
        if len(a[1]) != len(b[1]):
            return "number of blocks"
        for x, y in zip(a[1], b[1]):
            if x != y:
                return diff_kind(x, y)
    if a[0] == "block":
        if a[1] != b[1]:
            return "block identity"
        if len(a[2]) != len(b[2]):
            return "number of block arguments"
        if [t for _, t in a[2]] != [t for _, t in b[2]]:
            return "block argument type"
        if a[2] != b[2]:
            return "block argument identity"
        if len(a[3]) != len(b[3]):
            return "number of operations"
        for x, y in zip(a[3], b[3]):
            if x != y:
                return diff_kind(x, y)
    return "other"


def skeleton(c: Any) -> Any:
    if c[0] == "op":
        return (c[1], tuple(skeleton(r) for r in c[7]))
    if c[0] == "region":
        return tuple(skeleton(b) for b in c[1])
    return tuple(skeleton(o) for o in c[3])


def has_internal_use(c: Any) -> bool:
    if c[0] == "op":
        return any(t[0] == "i" for t in c[2] + c[6]) or any(has_internal_use(r) for r in c[7])
    if c[0] == "region":
        return any(has_internal_use(b) for b in c[1])
    return any(has_internal_use(o) for o in c[3])


def uses_before_def(node: Any) -> bool:
    """some operand/successor refers to an internal object whose definition comes later in the walk"""
    from xdsl.ir import Block, Operation

    inside = internal_objects(node)
    seen: set[int] = set()
    found = False

    def op_(op: Any) -> None:
        nonlocal found
        for v in list(op.operands) + list(op.successors):
            if id(v) in inside and id(v) not in seen:
                found = True
        for reg in op.regions:
            for b in reg.blocks:
                blk_(b)
        for r in op.results:
            seen.add(id(r))

    def blk_(b: Any) -> None:
        seen.add(id(b))
        for a in b.args:
            seen.add(id(a))
        for o in b.ops:
            op_(o)

    if isinstance(node, Operation):
        op_(node)
    elif isinstance(node, Block):
        blk_(node)
    else:
        for b in node.blocks:
            blk_(b)
    return found


def py_scoped(node: Any) -> bool:
    """every use of an object defined inside `node` sits inside the region that holds the
    definition (any order), or the object is defined at the root itself"""
    from xdsl.ir import Block, Operation, OpResult, Region

    inside = internal_objects(node)

    def visible(user: Any, v: Any) -> bool:
        if isinstance(v, Block):
            holder = v
        elif isinstance(v, OpResult):
            if v.op is node:
                return True
            holder = v.op.parent
        else:
            holder = v.block
        if holder is node:
            return True
        region = holder.parent if holder is not None else None
        cur: Any = user
        while cur is not None:
            if cur is region:
                return True
            if cur is node:
                return False
            cur = cur.parent
        return False

    def ops_of(n: Any) -> Iterator[Any]:
        if isinstance(n, Operation):
            yield from n.walk()
        elif isinstance(n, Block):
            for o in n.ops:
                yield from o.walk()
        else:
            assert isinstance(n, Region)
            for b in n.blocks:
                for o in b.ops:
                    yield from o.walk()

    for op in ops_of(node):
        for v in list(op.operands) + list(op.successors):
            if id(v) in inside and not visible(op, v):
                return False
    return True


def cross_reference(a: Any, b: Any) -> bool:
    """one tree refers to an object defined inside the other one (and not inside itself)"""
    ia, ib = internal_objects(a), internal_objects(b)

    def ext_uses(n: Any, mine: set[int]) -> set[int]:
        from xdsl.ir import Block, Operation
        out: set[int] = set()
        ops: list[Any] = []
        if isinstance(n, Operation):
            ops = list(n.walk())
        elif isinstance(n, Block):
            ops = [x for o in n.ops for x in o.walk()]
        else:
            ops = [x for blk in n.blocks for o in blk.ops for x in o.walk()]
        for op in ops:
            for v in list(op.operands) + list(op.successors):
                if id(v) not in mine:
                    out.add(id(v))
        return out

    return bool(ext_uses(a, ia) & ib) or bool(ext_uses(b, ib) & ia)


# ---------------------------------------------------------------------------------------------
# CSE's table key: independent statement of when two operations are the same table entry, and a
# representation change that must never matter (insertion order of the attribute / property dicts)
# ---------------------------------------------------------------------------------------------
INFO_FIELDS = ["operation name", "attributes", "properties", "operands", "result types", "number of regions", "regions"]


def info_key(op: Any, with_regions: bool = True) -> tuple:
    """what OperationInfo is documented to compare: name, attributes and properties as *mappings*,
    the very same operand values, result types, and regions up to isomorphism (objects defined
    outside a region by identity)"""
    return (op.name,
            sorted(op.attributes.items(), key=lambda kv: kv[0]),
            sorted(op.properties.items(), key=lambda kv: kv[0]),
            tuple(id(v) for v in op.operands),
            tuple(op.result_types),
            len(op.regions),
            tuple(canon(r) for r in op.regions) if with_regions else ())


def info_diff(a: Any, b: Any) -> str | None:
    """None when the two operations are the same CSE table entry, else the first differing field"""
    ka, kb = info_key(a, False), info_key(b, False)
    for i in range(6):
        if ka[i] != kb[i]:
            return INFO_FIELDS[i]
    if a is b:
        return None
    for ra, rb in zip(a.regions, b.regions):
        if _region_canon(ra) != _region_canon(rb):
            return "regions"
    return None


_REGION_CANON: dict[int, tuple] = {}


def _region_canon(r: Any) -> Any:
    """canon(r), remembered while the batch that keeps the trees alive (and unmodified) lives"""
    k = id(r)
    if k not in _REGION_CANON:
        if len(_REGION_CANON) > 20000:
            _REGION_CANON.clear()
        _REGION_CANON[k] = (r, canon(r))
    return _REGION_CANON[k][1]


def dict_order_differs(a: Any, b: Any) -> bool:
    return (list(a.attributes) != list(b.attributes)) or (list(a.properties) != list(b.properties))


def has_multi_dict(node: Any) -> bool:
    from xdsl.ir import Block, Operation
    if isinstance(node, Operation):
        ops = node.walk()
    elif isinstance(node, Block):
        ops = (x for o in node.ops for x in o.walk())
    else:
        ops = (x for blk in node.blocks for o in blk.ops for x in o.walk())
    return any(len(o.attributes) > 1 or len(o.properties) > 1 for o in ops)


def permute_dicts(node: Any) -> Any:
    """refill every attribute / property dictionary of the tree in the opposite order (same mapping)"""
    from xdsl.ir import Block, Operation
    if isinstance(node, Operation):
        ops = list(node.walk())
    elif isinstance(node, Block):
        ops = [x for o in node.ops for x in o.walk()]
    else:
        ops = [x for blk in node.blocks for o in blk.ops for x in o.walk()]
    for o in ops:
        if len(o.attributes) > 1:
            o.attributes = dict(reversed(list(o.attributes.items())))
        if len(o.properties) > 1:
            o.properties = dict(reversed(list(o.properties.items())))
    return node


def info_obs(a: Any, b: Any) -> Any:
    """(a==b, b==a, hashes equal, found through a dict) of the real OperationInfo, or 'raise X'"""
    from xdsl.transforms.common_subexpression_elimination import OperationInfo
    try:
        ia, ib = OperationInfo(a), OperationInfo(b)
        return [bool(ia == ib), bool(ib == ia), hash(ia) == hash(ib), {ia: 1}.get(ib) == 1]
    except Exception as e:  # noqa: BLE001
        return "raise " + core.exc_name(e)


def info_verdict(a: Any, b: Any) -> tuple[str | None, str, Any, Any]:
    """(failure signature or None, description, observed, expected)"""
    d = info_diff(a, b)
    obs = info_obs(a, b)
    exp = d is None
    if isinstance(obs, str):
        return f"OperationInfo comparison {obs}", "exception from OperationInfo.__eq__/__hash__", obs, exp
    eab, eba, heq, found = obs
    if exp:
        how = (" (their attribute or property dictionaries were filled in a different order)"
               if dict_order_differs(a, b) else "")
        if not (eab and eba):
            return ("OperationInfo unequal for operations that agree on every field" + how,
                    "CSE's table key reports two operations with the same name, operands, result types, attribute and "
                    "property mappings and isomorphic regions as different", obs, exp)
        if not heq or not found:
            return ("OperationInfo of equal operations hash differently" + how,
                    "equal table keys with different hashes: the known-ops table cannot find the entry", obs, exp)
        return None, "", obs, exp
    if eab or eba:
        return (f"OperationInfo equal for operations that differ in: {d}",
                f"CSE's table key reports operations as equal although they differ in {d}", obs, exp)
    return None, "", obs, exp


# ---------------------------------------------------------------------------------------------
# serialisation to the Lean model's line protocol
# ---------------------------------------------------------------------------------------------

class Tables:
    def __init__(self) -> None:
        self.ids: dict[int, int] = {}
        self.keep: list[Any] = []
        self.atoms: dict[Any, int] = {}
        self.atom_list: list[Any] = []

    def oid(self, o: Any) -> int:
        k = id(o)
        if k not in self.ids:
            self.ids[k] = len(self.ids)
            self.keep.append(o)
        return self.ids[k]

    def atom(self, a: Any) -> int:
        """equal (==) things get equal numbers"""
        try:
            n = self.atoms.get(a)
        except TypeError:
            n = None
        if n is None:
            for i, b in enumerate(self.atom_list):
                if a is b or a == b:
                    n = i
                    break
        if n is None:
            n = len(self.atom_list)
            self.atom_list.append(a)
        try:
            self.atoms.setdefault(a, n)
        except TypeError:
            pass
        return n


def ser(node: Any, t: Tables) -> list[str]:
    from xdsl.ir import Block, Operation

    out: list[str] = []

    def pairs(d: dict) -> None:
        items = sorted(d.items(), key=lambda kv: kv[0])
        out.append(str(len(items)))
        for k, v in items:
            out.append(str(t.atom(("key", k))))
            out.append(str(t.atom(v)))

    def op_(op: Any) -> None:
        out.append("O")
        out.append(str(t.atom(("name", op.name))))
        out.append(str(len(op.operands)))
        out.extend(str(t.oid(v)) for v in op.operands)
        out.append(str(len(op.results)))
        for r in op.results:
            out.append(str(t.oid(r)))
            out.append(str(t.atom(r.type)))
        pairs(op.attributes)
        pairs(op.properties)
        out.append(str(len(op.successors)))
        out.extend(str(t.oid(b)) for b in op.successors)
        out.append(str(len(op.regions)))
        for reg in op.regions:
            reg_(reg)

    def reg_(reg: Any) -> None:
        out.append("R")
        bl = list(reg.blocks)
        out.append(str(len(bl)))
        for b in bl:
            blk_(b)

    def blk_(b: Any) -> None:
        out.append("B")
        out.append(str(t.oid(b)))
        out.append(str(len(b.args)))
        for a in b.args:
            out.append(str(t.oid(a)))
            out.append(str(t.atom(a.type)))
        ops = list(b.ops)
        out.append(str(len(ops)))
        for o in ops:
            op_(o)

    if isinstance(node, Operation):
        op_(node)
    elif isinstance(node, Block):
        blk_(node)
    else:
        reg_(node)
    return out


def pair_line(a: Any, b: Any) -> str:
    t = Tables()
    return "pair " + " ".join(ser(a, t)) + " | " + " ".join(ser(b, t))


def clone_line(a: Any) -> str:
    t = Tables()
    toks = ser(a, t)
    return f"clone {len(t.ids) + 1000} " + " ".join(toks)


# ---------------------------------------------------------------------------------------------
# mutations on specs (single point)
# ---------------------------------------------------------------------------------------------
MUT_KINDS = ["result_type", "attr_value", "attr_del", "attr_add", "prop_value", "prop_del", "prop_add",
             "operand", "operand_swap", "successor", "block_order", "op_order", "block_arg_type",
             "block_arg_del", "region_add", "region_del", "op_name", "result_add", "op_del"]


def other_type(t: Any) -> Any:
    if isinstance(t, str):
        return "i1" if t != "i1" else "i32"
    r = res()["types"]
    return r["i1"] if t != r["i1"] else r["i32"]


def other_attr(a: Any) -> Any:
    if isinstance(a, str):
        return "unit" if a != "unit" else "i1"
    r = res()["attrs"]
    return r["unit"] if a != r["unit"] else r["i1"]


def all_regions(spec: dict) -> list[list[dict]]:
    return [reg for o in spec_ops(spec) for reg in o["g"]]


def enumerate_mutations(spec: dict) -> list[dict]:
    """every single-point mutation description applicable to `spec` (deterministic order)"""
    ms: list[dict] = []
    ops = list(spec_ops(spec))
    blocks = list(spec_blocks(spec))
    defs = spec_defs(spec)
    used = {i for o in ops for i in o["o"]}
    ext_vals = sorted(used - set(defs))
    block_ids = [b["b"] for b in blocks]
    val_ids = [d for d in defs if d not in block_ids]
    fresh = 900000
    for k, o in enumerate(ops):
        for i in range(len(o["r"])):
            ms.append({"kind": "result_type", "op": k, "i": i})
        for key in sorted(o["a"]):
            if key == "op_name__":
                continue
            ms.append({"kind": "attr_value", "op": k, "key": key})
            ms.append({"kind": "attr_del", "op": k, "key": key})
        ms.append({"kind": "attr_add", "op": k})
        for key in sorted(o["p"]):
            ms.append({"kind": "prop_value", "op": k, "key": key})
            ms.append({"kind": "prop_del", "op": k, "key": key})
        ms.append({"kind": "prop_add", "op": k})
        for i, cur in enumerate(o["o"]):
            cands = [v for v in val_ids + ext_vals + [fresh] if v != cur]
            for j in range(len(cands)):
                ms.append({"kind": "operand", "op": k, "i": i, "j": j})
        for i in range(len(o["o"]) - 1):
            if o["o"][i] != o["o"][i + 1]:
                ms.append({"kind": "operand_swap", "op": k, "i": i})
        for i, cur in enumerate(o["s"]):
            cands = [b for b in block_ids + [fresh + 1] if b != cur]
            for j in range(len(cands)):
                ms.append({"kind": "successor", "op": k, "i": i, "j": j})
        ms.append({"kind": "region_add", "op": k})
        if o["g"]:
            ms.append({"kind": "region_del", "op": k})
        ms.append({"kind": "op_name", "op": k})
        ms.append({"kind": "result_add", "op": k})
        if k > 0:
            ms.append({"kind": "op_del", "op": k})
    for ri, reg in enumerate(all_regions(spec)):
        for i in range(len(reg) - 1):
            ms.append({"kind": "block_order", "region": ri, "i": i})
    for bi, b in enumerate(blocks):
        for i in range(len(b["ops"]) - 1):
            ms.append({"kind": "op_order", "block": bi, "i": i})
        for i in range(len(b["args"])):
            ms.append({"kind": "block_arg_type", "block": bi, "i": i})
        if b["args"]:
            ms.append({"kind": "block_arg_del", "block": bi})
    return ms


def sample_mutations(rng: Any, muts: list[dict], n: int) -> list[dict]:
    """at most n mutations, spread evenly over the kinds"""
    if len(muts) <= n:
        return muts
    by: dict[str, list[dict]] = {}
    for m in muts:
        by.setdefault(m["kind"], []).append(m)
    for l in by.values():
        rng.shuffle(l)
    out: list[dict] = []
    kinds = sorted(by)
    while len(out) < n:
        for k in kinds:
            if by[k] and len(out) < n:
                out.append(by[k].pop())
    return out


def apply_mutation(spec: dict, m: dict) -> dict:
    s = copy.deepcopy(spec) if all(isinstance(o["n"], str) for o in spec_ops(spec)) else _copy_spec(spec)
    ops = list(spec_ops(s))
    blocks = list(spec_blocks(s))
    defs = spec_defs(s)
    block_ids = [b["b"] for b in blocks]
    val_ids = [d for d in defs if d not in block_ids]
    used = {i for o in ops for i in o["o"]}
    ext_vals = sorted(used - set(defs))
    fresh = 900000
    kind = m["kind"]
    if "op" in m:
        o = ops[m["op"]]
    if kind == "result_type":
        o["r"][m["i"]][1] = other_type(o["r"][m["i"]][1])
    elif kind == "attr_value":
        o["a"][m["key"]] = other_attr(o["a"][m["key"]])
    elif kind == "attr_del":
        del o["a"][m["key"]]
    elif kind == "attr_add":
        o["a"]["zz_new"] = r_attr("unit") if not isinstance(o["n"], str) else "unit"
    elif kind == "prop_value":
        o["p"][m["key"]] = other_attr(o["p"][m["key"]])
    elif kind == "prop_del":
        del o["p"][m["key"]]
    elif kind == "prop_add":
        o["p"]["zz_new"] = r_attr("unit") if not isinstance(o["n"], str) else "unit"
    elif kind == "operand":
        cur = o["o"][m["i"]]
        cands = [v for v in val_ids + ext_vals + [fresh] if v != cur]
        o["o"][m["i"]] = cands[m["j"]]
    elif kind == "operand_swap":
        i = m["i"]
        o["o"][i], o["o"][i + 1] = o["o"][i + 1], o["o"][i]
    elif kind == "successor":
        cur = o["s"][m["i"]]
        cands = [b for b in block_ids + [fresh + 1] if b != cur]
        o["s"][m["i"]] = cands[m["j"]]
    elif kind == "region_add":
        o["g"].append([])
    elif kind == "region_del":
        o["g"].pop()
    elif kind == "op_name":
        if isinstance(o["n"], str):
            o["n"] = "test.op" if o["n"] != "test.op" else "test.pureop"
        else:
            cls = res()["cls"]
            o["n"] = cls["test.op"] if o["n"] is not cls["test.op"] else cls["test.pureop"]
            o["a"].pop("op_name__", None)
    elif kind == "result_add":
        o["r"].append([fresh + 2, "i32" if isinstance(o["n"], str) else r_type("i32")])
    elif kind == "op_del":
        for b in blocks:
            for i, x in enumerate(b["ops"]):
                if x is o:
                    del b["ops"][i]
                    break
    elif kind == "block_order":
        reg = all_regions(s)[m["region"]]
        i = m["i"]
        reg[i], reg[i + 1] = reg[i + 1], reg[i]
    elif kind == "op_order":
        b = blocks[m["block"]]
        i = m["i"]
        b["ops"][i], b["ops"][i + 1] = b["ops"][i + 1], b["ops"][i]
    elif kind == "block_arg_type":
        b = blocks[m["block"]]
        b["args"][m["i"]][1] = other_type(b["args"][m["i"]][1])
    elif kind == "block_arg_del":
        blocks[m["block"]]["args"].pop()
    else:
        raise core.InfraError(f"unknown mutation {m}")
    return s


def _copy_spec(s: dict) -> dict:
    """deep copy of the structure of an exported spec, sharing attribute objects and classes"""
    return {"n": s["n"], "o": list(s["o"]), "r": [list(x) for x in s["r"]], "a": dict(s["a"]), "p": dict(s["p"]),
            "s": list(s["s"]),
            "g": [[{"b": b["b"], "args": [list(x) for x in b["args"]], "ops": [_copy_spec(o) for o in b["ops"]]}
                   for b in reg] for reg in s["g"]]}


# ---------------------------------------------------------------------------------------------
# programs: fixed small templates, then random
# ---------------------------------------------------------------------------------------------

def templates() -> list[tuple[str, dict]]:
    E = 500  # external value id
    t: list[tuple[str, dict]] = []
    t.append(("one_result", mk_op(r=[[1, "i32"]])))
    t.append(("external_operand", mk_op(o=[E], r=[[1, "i32"]])))
    wrap = lambda ops, args=(): mk_op(g=[[mk_block(0, args, ops)]])  # noqa: E731
    t.append(("def_then_use", wrap([mk_op(r=[[1, "i32"]]), mk_op(n="test.pureop", o=[1])])))
    t.append(("use_then_def", wrap([mk_op(n="test.pureop", o=[1]), mk_op(r=[[1, "i32"]])])))
    t.append(("self_use", wrap([mk_op(o=[1], r=[[1, "i32"]])])))
    t.append(("block_arg", wrap([mk_op(o=[1, 2]), mk_op(o=[2, 1])], args=[[1, "i32"], [2, "i64"]])))
    t.append(("attrs_props", wrap([mk_op(a={"k0": "i0", "k1": "sa"}, p={"p0": "i1"}, r=[[1, "i32"], [2, "f32"]]),
                                   mk_op(o=[2, 1], a={"k0": "i0"})])))
    t.append(("cfg", mk_op(g=[[
        mk_block(0, [], [mk_op(r=[[1, "i32"]]), mk_op(n="test.termop", s=[20, 10])]),
        mk_block(10, [[11, "i32"]], [mk_op(o=[1, 11]), mk_op(n="test.termop", s=[0])]),
        mk_block(20, [], [mk_op(n="test.termop", o=[1])]),
    ]])))
    t.append(("later_block_value", mk_op(g=[[
        mk_block(0, [], [mk_op(n="test.termop", s=[20])]),
        mk_block(10, [], [mk_op(o=[21]), mk_op(n="test.termop")]),
        mk_block(20, [], [mk_op(r=[[21, "i32"]]), mk_op(n="test.termop", s=[10])]),
    ]])))
    t.append(("nested_forward", wrap([
        mk_op(n="test.pureop", g=[[mk_block(10, [[11, "i32"]], [mk_op(o=[2, 11, E])])]]),
        mk_op(r=[[2, "i32"]]),
    ])))
    t.append(("own_result_in_region", mk_op(r=[[1, "i32"]], g=[[mk_block(0, [], [mk_op(o=[1])])]])))
    t.append(("two_regions", mk_op(g=[[mk_block(0, [], [mk_op(r=[[1, "i32"]])])],
                                      [mk_block(10, [], [mk_op(r=[[11, "i32"]])])]])))
    t.append(("dup_siblings", wrap([
        mk_op(r=[[1, "i32"]]),
        mk_op(n="test.pureop", o=[1], r=[[2, "i32"]], g=[[mk_block(10, [], [mk_op(o=[1]), mk_op(r=[[11, "i1"]])])]]),
        mk_op(n="test.pureop", o=[1], r=[[3, "i32"]], g=[[mk_block(20, [], [mk_op(o=[1]), mk_op(r=[[21, "i1"]])])]]),
    ])))
    # two sibling blocks with the same shape; the second uses a value defined in the first
    t.append(("sibling_uses_sibling", mk_op(g=[[
        mk_block(0, [], [mk_op(r=[[1, "i32"]]), mk_op(n="test.pureop", o=[1]), mk_op(n="test.termop", s=[20])]),
        mk_block(10, [], [mk_op(r=[[11, "i32"]]), mk_op(n="test.pureop", o=[1]), mk_op(n="test.termop", s=[20])]),
        mk_block(20, [], [mk_op(n="test.termop")]),
    ]])))
    # smallest cross reference: the first op uses the second one's result, the second uses its own
    t.append(("op_uses_sibling_result", wrap([mk_op(o=[2], r=[[1, "i32"]]), mk_op(o=[2], r=[[2, "i32"]])])))
    # several attributes / properties on the root and on two CSE-candidate siblings whose dictionaries
    # hold the same mapping written in a different order
    t.append(("root_attrs_props", mk_op(n="test.pureop", o=[E], r=[[1, "i32"]], a={"k0": "i0", "k1": "sa", "k2": "unit"},
                                        p={"p0": "i1", "p1": "sb"})))
    t.append(("siblings_dict_order", wrap([
        mk_op(r=[[1, "i32"]]),
        mk_op(n="test.pureop", o=[1, E], r=[[2, "i32"]], a={"k0": "i0", "k1": "sa"}, p={"p0": "i1", "p1": "sb"}),
        mk_op(n="test.pureop", o=[1, E], r=[[3, "i32"]], a={"k1": "sa", "k0": "i0"}, p={"p1": "sb", "p0": "i1"}),
        mk_op(n="test.pureop", o=[1, E], r=[[4, "i32"]], a={"k1": "sa", "k0": "i0"}, p={"p0": "i1", "p1": "sb"}),
    ])))
    t.append(("unregistered", wrap([mk_op(n="u:foo.bar", r=[[1, "i32"]]), mk_op(n="u:foo.baz", o=[1])])))
    return t


def random_program(rng: Any, size: int, ill_scoped: bool) -> tuple[dict, bool]:
    """random spec; every use refers to a definition of the same or an enclosing region (any order),
    to the root's results or to an external, unless `ill_scoped` (then one use reaches into a
    non-enclosing nested region, if there is one)"""
    counter = [0]
    budget = [size]

    def fresh() -> int:
        counter[0] += 1
        return counter[0]

    def gen_op(depth: int, root: bool = False) -> dict:
        budget[0] -= 1
        nreg = 0
        if root:
            nreg = rng.choice([1, 1, 2])
        elif depth < 3 and budget[0] > 0:
            nreg = rng.choice([0, 0, 0, 0, 1, 1, 2])
        o = mk_op(n=rng.choice(OP_NAMES[:2] if rng.random() < 0.7 else OP_NAMES),
                  r=[[fresh(), rng.choice(TYPE_NAMES[:3])] for _ in range(rng.choice([0, 1, 1, 1, 2]))])
        if rng.random() < 0.4:
            o["a"] = {k: rng.choice(ATTR_NAMES) for k in rng.sample(["k0", "k1", "k2"], rng.randint(1, 3))}
        if rng.random() < 0.25:
            o["p"] = {k: rng.choice(ATTR_NAMES) for k in rng.sample(["p0", "p1"], rng.randint(1, 2))}
        for _ in range(nreg):
            nb = rng.choice([1, 1, 1, 2, 3])
            reg = []
            for _ in range(nb):
                b = mk_block(fresh(), [[fresh(), rng.choice(TYPE_NAMES[:3])] for _ in range(rng.choice([0, 0, 1, 2]))])
                nops = rng.randint(1, 4) if budget[0] > 0 else 1
                b["ops"] = [gen_op(depth + 1) for _ in range(nops)]
                reg.append(b)
            o["g"].append(reg)
        return o

    root = gen_op(0, root=True)

    # duplicate a sibling now and then (fresh ids inside the copy, references kept)
    def dup(o: dict) -> dict:
        c = copy.deepcopy(o)
        ren: dict[int, int] = {}
        for x in spec_ops(c):
            for rr in x["r"]:
                ren[rr[0]] = fresh()
                rr[0] = ren[rr[0]]
        for b in spec_blocks(c):
            ren[b["b"]] = fresh()
            b["b"] = ren[b["b"]]
            for a in b["args"]:
                ren[a[0]] = fresh()
                a[0] = ren[a[0]]
        return c

    for b in list(spec_blocks(root)):
        if rng.random() < 0.25 and b["ops"]:
            i = rng.randrange(len(b["ops"]))
            b["ops"].insert(i + 1, dup(b["ops"][i]))
    for reg in all_regions(root):
        if rng.random() < 0.12 and reg:
            i = rng.randrange(len(reg))
            src = reg[i]
            holder = mk_op(g=[[src]])
            c = dup(holder)
            reg.insert(i + 1, c["g"][0][0])

    externals = [500, 501, 502]
    did_ill = False

    def fill(o: dict, visible: list[int]) -> None:
        vis = visible + [x[0] for x in o["r"]]
        for _ in range(rng.choice([0, 1, 1, 2, 2, 3])):
            if vis and rng.random() < 0.8:
                o["o"].append(rng.choice(vis))
            else:
                o["o"].append(rng.choice(externals))
        for reg in o["g"]:
            here = []
            bids = [b["b"] for b in reg]
            for b in reg:
                here += [a[0] for a in b["args"]]
                here += [x[0] for oo in b["ops"] for x in oo["r"]]
            for b in reg:
                for oo in b["ops"]:
                    fill(oo, vis + here)
                if (len(reg) > 1 or rng.random() < 0.2) and rng.random() < 0.8:
                    b["ops"][-1]["s"] = [rng.choice(bids) for _ in range(rng.choice([1, 1, 2]))]

    fill(root, [])
    # copies made by dup() were filled independently; make a copy's fields and references mirror
    # its source most of the time so that isomorphic siblings exist
    for b in spec_blocks(root):
        for i in range(len(b["ops"]) - 1):
            x, y = b["ops"][i], b["ops"][i + 1]
            if _same_shape(x, y) and rng.random() < 0.6:
                _mirror(x, y, rng)
    for reg in all_regions(root):
        for i in range(len(reg) - 1):
            x, y = mk_op(g=[[reg[i]]]), mk_op(g=[[reg[i + 1]]])
            x["g"][0][0], y["g"][0][0] = reg[i], reg[i + 1]
            if _same_shape(x, y) and rng.random() < 0.6:
                _mirror(x, y, rng)
    if ill_scoped:
        # use a value defined inside a nested region from an operation outside that region
        ops = list(spec_ops(root))
        for o in ops:
            inner = [x[0] for reg in o["g"] for b in reg for oo in b["ops"] for x in oo["r"]]
            outer = [p for p in ops[1:] if p is not o and not any(p is q for q in spec_ops(o))]
            if inner and outer and o is not root:
                rng.choice(outer)["o"].append(rng.choice(inner))
                did_ill = True
                break
    for o in spec_ops(root):
        o.pop("_ren", None)
    for b in spec_blocks(root):
        b.pop("_ren", None)
    return root, did_ill


def _same_shape(x: dict, y: dict) -> bool:
    if x["n"] != y["n"] or len(x["r"]) != len(y["r"]) or len(x["g"]) != len(y["g"]):
        return False
    for rx, ry in zip(x["g"], y["g"]):
        if len(rx) != len(ry):
            return False
        for bx, by in zip(rx, ry):
            if len(bx["args"]) != len(by["args"]) or len(bx["ops"]) != len(by["ops"]):
                return False
            if not all(_same_shape(p, q) for p, q in zip(bx["ops"], by["ops"])):
                return False
    return True


def _mirror(x: dict, y: dict, rng: Any = None) -> None:
    """make y's references the image of x's under the positional map of their definitions"""
    m: dict[int, int] = {}

    def pair(p: dict, q: dict) -> None:
        for a, b in zip(p["r"], q["r"]):
            m[a[0]] = b[0]
            b[1] = a[1]
        q["a"], q["p"] = dict(p["a"]), dict(p["p"])
        if rng is not None and rng.random() < 0.5:
            # the same mappings, written in the opposite order
            q["a"], q["p"] = dict(reversed(list(q["a"].items()))), dict(reversed(list(q["p"].items())))
        for rp, rq in zip(p["g"], q["g"]):
            for bp, bq in zip(rp, rq):
                m[bp["b"]] = bq["b"]
                for a, b in zip(bp["args"], bq["args"]):
                    m[a[0]] = b[0]
                    b[1] = a[1]
                for pp, qq in zip(bp["ops"], bq["ops"]):
                    pair(pp, qq)

    def wire(p: dict, q: dict) -> None:
        q["o"] = [m.get(i, i) for i in p["o"]]
        q["s"] = [m.get(i, i) for i in p["s"]]
        for rp, rq in zip(p["g"], q["g"]):
            for bp, bq in zip(rp, rq):
                for pp, qq in zip(bp["ops"], bq["ops"]):
                    wire(pp, qq)

    pair(x, y)
    wire(x, y)


# ---------------------------------------------------------------------------------------------
# one pair: implementation, oracle, bookkeeping
# ---------------------------------------------------------------------------------------------

class Batch:
    """pairs waiting for the Lean model (compared after the whole batch went through the driver)"""

    def __init__(self, ctx: core.Ctx) -> None:
        self.ctx = ctx
        self.lines: list[str] = []
        self.meta: list[dict] = []
        self.memo: dict[int, tuple] = {}
        self.tables = Tables()

    def facts(self, node: Any) -> tuple[Any, bool, int, str]:
        """(canonical form, region-scoped, key of the canonical form, protocol text) of a tree that is
        not modified while the batch lives; object ids are unique over the whole batch"""
        k = id(node)
        if k not in self.memo:
            c = canon(node)
            self.memo[k] = (node, c, py_scoped(node), hash(repr(_strip(c))), " ".join(ser(node, self.tables)))
        return self.memo[k][1:]

    def pair_line(self, a: Any, b: Any) -> str:
        return "pair " + self.facts(a)[3] + " | " + self.facts(b)[3]

    def clone_line(self, a: Any) -> str:
        return "clone 100000000 " + self.facts(a)[3]

    def add(self, line: str, **kw: Any) -> None:
        self.lines.append(line)
        self.meta.append(kw)

    def flush(self) -> None:
        if not self.lines:
            return
        out = self.ctx.model("struct_eq", self.lines)
        for line, o, m in zip(self.lines, out, self.meta):
            f = o.split()
            if len(f) != 8 or f[0] != "eq":
                raise core.InfraError(f"model answered {o!r} for {line[:200]!r}")
            eq, iso, wf, scoped = (f[1] == "true"), (f[3] == "true"), (f[5] == "true"), (f[7] == "true")
            if not wf:
                raise core.InfraError(f"serialiser produced a tree with a duplicate definition: {m['case']}")
            if m["impl"] is not None and eq != m["impl"]:
                self.ctx.mismatch("correspondence:C03/struct_eq", m["case"], f"eq {m['impl']}", o,
                                  "real is_structurally_equivalent and the Lean model structEq disagree")
            if m.get("oracle") is not None and iso != m["oracle"]:
                self.ctx.mismatch("correspondence:C03/iso_decide", m["case"], f"iso {m['oracle']}", o,
                                  "Python canonical-form oracle and the proved Lean isoDecide disagree")
            if m.get("scoped") is True and not scoped:
                # the Lean predicate is the weaker one (it also accepts uses of objects of a nested
                # region that the walk has already left): region-scoped ⇒ Lean-scoped must hold
                self.ctx.mismatch("correspondence:C03/scoped", m["case"], f"scoped {m['scoped']}", o,
                                  "a region-scoped tree is not `scoped` for the Lean model")
            if scoped and not m.get("scoped"):
                self.ctx.count("pairs.lean_scoped_but_not_region_scoped")
        self.lines, self.meta = [], []
        self.memo = {}
        _REGION_CANON.clear()
        self.tables = Tables()


def impl_eq(a: Any, b: Any) -> Any:
    try:
        return bool(a.is_structurally_equivalent(b))
    except Exception as e:  # noqa: BLE001
        return "raise " + core.exc_name(e)


def classify_incomplete(a: Any, b: Any) -> str:
    from xdsl.ir import Operation

    if isinstance(a, Operation) and isinstance(b, Operation) and a.parent is not None and b.parent is not None:
        return "isomorphic pair reported different: both root operations sit in a block"
    if uses_before_def(a):
        return "isomorphic pair reported different: a value or block is used before its definition"
    return "isomorphic pair reported different"


def check_pair(ctx: core.Ctx, batch: Batch, a: Any, b: Any, case: dict, label: str = "") -> None:
    """both orders of one pair: implementation vs oracle (when both trees are region-scoped), and
    implementation / oracle / scoping vs the Lean model"""
    from xdsl.ir import Operation

    (ca, sa, ka, _), (cb, sb, kb, _) = batch.facts(a), batch.facts(b)
    oracle = ca == cb
    iab, iba = impl_eq(a, b), impl_eq(b, a)
    ctx.ev(2)
    ctx.count("pairs." + (label or "other"))
    ctx.count("oracle." + ("isomorphic" if oracle else "different"))
    if not (sa and sb):
        ctx.count("pairs.not_region_scoped(correspondence only)")
    if skeleton(ca) == skeleton(cb) and has_internal_use(ca):
        ctx.nt(hash((ka, kb)))
    reported = False

    def fail(site: str, sig: str, c: dict, desc: str, obs: Any, exp: Any) -> None:
        if "file" in c and any(f.kind == "failing-input" and (f.call_site, f.signature) == (site, sig) for f in ctx.failures):
            return  # keep the self-contained generated case as the minimal one
        ctx.fail(site, sig, c, desc, obs, exp)

    if sa and sb:
        for x, y, verdict, order in ((a, b, iab, "a,b"), (b, a, iba, "b,a")):
            c = {**case, "order": order}
            if verdict is True and not oracle:
                d = diff_kind(ca, cb)
                if cross_reference(a, b):
                    sig = "a tree that uses an object defined inside the other tree is reported equivalent to it"
                else:
                    sig = f"reported equivalent although the trees differ in: {d}"
                fail(SITE, sig, c, f"is_structurally_equivalent returned True for trees that differ in {d}", verdict, oracle)
                reported = True
            elif verdict is False and oracle:
                sig = classify_incomplete(x, y)
                fail(SITE, sig, c, sig, verdict, oracle)
                reported = True
            elif verdict not in (True, False):
                fail(SITE, f"raises {verdict}", c, "exception from is_structurally_equivalent", verdict, oracle)
                reported = True
        if not reported and iab != iba:
            fail(SITE, "verdict depends on the order of the two arguments", {**case, "order": "a,b"},
                     "a.is_structurally_equivalent(b) != b.is_structurally_equivalent(a)", [iab, iba], oracle)
    if sa and sb and isinstance(a, Operation) and isinstance(b, Operation) and label != "corpus.mutant":
        # the same pair through CSE's table key (no successors: CSE never enters terminators)
        if a.successors or b.successors:
            ctx.count("info.skipped_has_successors")
        else:
            ctx.ev()
            ctx.count("info.pairs")
            import time as _t
            _t0 = _t.perf_counter()
            sig, desc, obs, exp = info_verdict(a, b)
            ctx.extra["info_seconds"] = round(ctx.extra.get("info_seconds", 0.0) + _t.perf_counter() - _t0, 3)
            ctx.count("info." + ("same_entry" if exp else "different_entry"))
            if exp and a is not b and dict_order_differs(a, b):
                ctx.count("info.same_entry_dicts_in_different_order")
            if sig is not None:
                fail(SITE_CSE, sig, {**case, "order": "a,b"}, desc, obs, exp)
    batch.add(batch.pair_line(a, b), impl=iab if iab in (True, False) else None, oracle=oracle, scoped=sa, case={**case, "order": "a,b"})
    if b is not a:
        batch.add(batch.pair_line(b, a), impl=iba if iba in (True, False) else None, oracle=oracle, scoped=sb, case={**case, "order": "b,a"})


def _strip(c: Any) -> Any:
    """canonical form with external ids and attribute objects reduced to something hashable & stable"""
    if isinstance(c, tuple):
        if len(c) == 2 and c[0] == "e":
            return ("e",)
        return tuple(_strip(x) for x in c)
    if isinstance(c, (str, int)):
        return c
    return str(c)


# ---------------------------------------------------------------------------------------------
# all pairs of one program
# ---------------------------------------------------------------------------------------------

def run_program(ctx: core.Ctx, batch: Batch, name: str, spec: dict, all_mutations: bool,
                n_mut: int, sub_nodes: int) -> None:
    ext = Ext()
    root = build(spec, ext)
    base = {"prog": spec}
    paths = spec_paths(spec)
    # 1. reflexive, every node (attached operations included)
    pick = paths if len(paths) <= sub_nodes else [[]] + ctx.rng.sample(paths[1:], sub_nodes)
    for p in pick:
        n = node_at(root, p)
        check_pair(ctx, batch, n, n, {**base, "a": p, "b": {"same": p}}, "reflexive")
    # 2. clone of the root and of some nodes (operation and region clones)
    for p in pick:
        if len(p) % 3 == 2:
            continue  # blocks have no clone()
        n = node_at(root, p)
        c = n.clone()
        check_pair(ctx, batch, n, c, {**base, "a": p, "b": {"clone": p}}, "clone")
        if not p:
            v = impl_eq(n, c)
            batch.add(batch.clone_line(n), impl=v if v in (True, False) else None, oracle=None,
                      scoped=batch.facts(n)[1], case={**base, "a": p, "b": {"model_clone": p}})
    # 2b. the same clones with every attribute / property dictionary refilled in the opposite order
    #     (the mapping is the same: nothing may change, neither for the walk nor for CSE's key)
    for p in pick:
        if len(p) % 3 == 2:
            continue
        n = node_at(root, p)
        if not has_multi_dict(n):
            continue
        c = permute_dicts(n.clone())
        check_pair(ctx, batch, n, c, {**base, "a": p, "b": {"clone_perm": p}}, "clone_dict_order")
    # 3. rebuilt copy (same externals) — also guards the builder
    again = build(spec, ext)
    check_pair(ctx, batch, root, again, {**base, "a": [], "b": {"mutant": None, "path": []}}, "rebuilt")
    # 4. same path in the clone of the whole program (both attached for sub-operations)
    whole = root.clone()
    for p in pick[1:]:
        check_pair(ctx, batch, node_at(root, p), node_at(whole, p), {**base, "a": p, "b": {"clone_root_then": p}},
                   "sub_node_vs_clone")
    # 5. neighbouring siblings
    sib = []
    for p in paths:
        if p and p[-1] > 0:
            sib.append((p[:-1] + [p[-1] - 1], p))
    if len(sib) > sub_nodes:
        sib = ctx.rng.sample(sib, sub_nodes)
    for p, q in sib:
        check_pair(ctx, batch, node_at(root, p), node_at(root, q), {**base, "a": p, "b": {"same": q}}, "siblings")
    # 6. single-point mutations
    muts = enumerate_mutations(spec)
    ctx.count("mutations.available", len(muts))
    if not all_mutations:
        muts = sample_mutations(ctx.rng, muts, n_mut)
    for m in muts:
        ms = apply_mutation(spec, m)
        try:
            mroot = build(ms, ext)
        except Exception as e:  # noqa: BLE001
            raise core.InfraError(f"cannot build mutant {m} of {name}: {e!r}")
        ctx.count("mutation." + m["kind"])
        check_pair(ctx, batch, root, mroot, {**base, "a": [], "b": {"mutant": m, "path": []}}, "mutant")


def run_generated(ctx: core.Ctx, n_random: int, size: int) -> None:
    batch = Batch(ctx)
    for name, spec in templates():
        ctx.count("programs.template")
        run_program(ctx, batch, name, spec, True, 0, 100)
        if ctx.samples == [] or len(ctx.samples) < 2:
            ctx.sample({"template": name, "prog": spec})
    batch.flush()
    for k in range(n_random):
        if ctx.time_left() < 25:
            ctx.count("programs.random_skipped_for_time")
            break
        ill = ctx.rng.random() < 0.06
        spec, did_ill = random_program(ctx.rng, ctx.rng.randint(2, size), ill)
        ctx.count("programs.random" + (".ill_scoped" if did_ill else ""))
        nops = sum(1 for _ in spec_ops(spec))
        run_program(ctx, batch, f"random{k}", spec, nops <= 5, 40, 8)
        if len(batch.lines) > 4000:
            batch.flush()
    batch.flush()


# ---------------------------------------------------------------------------------------------
# corpus
# ---------------------------------------------------------------------------------------------
_CTX: list[Any] = []


def xdsl_context() -> Any:
    if not _CTX:
        from xdsl.context import Context
        from xdsl.dialects import get_all_dialects

        c = Context(allow_unregistered=True)
        for n, f in get_all_dialects().items():
            c.register_dialect(n, f)
        _CTX.append(c)
    return _CTX[0]


def corpus_files() -> list[str]:
    root = core.REPO / "tests"
    return sorted(str(p.relative_to(core.REPO)) for p in root.rglob("*.mlir"))


def parse_chunk(rel: str, k: int) -> Any:
    from xdsl.parser import Parser

    text = (core.REPO / rel).read_text(errors="replace")
    chunks = text.split("// -----")
    if k >= len(chunks):
        return None
    try:
        return Parser(xdsl_context(), chunks[k], rel).parse_module()
    except Exception:  # noqa: BLE001
        return None


def corpus_op_paths(root: Any) -> list[tuple[list[int], Any]]:
    out: list[tuple[list[int], Any]] = []

    def op_(op: Any, p: list[int]) -> None:
        out.append((p, op))
        for ri, reg in enumerate(op.regions):
            for bi, b in enumerate(reg.blocks):
                for oi, o in enumerate(b.ops):
                    op_(o, p + [ri, bi, oi])

    op_(root, [])
    return out


def n_chunks(rel: str) -> int:
    return len((core.REPO / rel).read_text(errors="replace").split("// -----"))


def run_corpus(ctx: core.Ctx, n_files: int | None, n_mut: int, max_ops: int, max_chunks: int = 6) -> None:
    files = corpus_files()
    if n_files is not None and len(files) > n_files:
        files = ctx.rng.sample(files, n_files)
    batch = Batch(ctx)
    for rel in files:
        if ctx.time_left() < 20:
            ctx.count("corpus.files_skipped_for_time")
            continue
        for k in range(min(n_chunks(rel), max_chunks)):
            mod = parse_chunk(rel, k)
            if mod is None:
                ctx.count("corpus.chunks_unparsed")
                continue
            nops = sum(1 for _ in mod.walk())
            if nops > max_ops or nops < 2:
                ctx.count("corpus.chunks_skipped_size")
                continue
            ctx.count("corpus.chunks")
            base = {"file": rel, "chunk": k}
            check_pair(ctx, batch, mod, mod, {**base, "a": [], "b": {"same": []}}, "corpus.reflexive")
            check_pair(ctx, batch, mod, mod.clone(), {**base, "a": [], "b": {"clone": []}}, "corpus.clone")
            if has_multi_dict(mod):
                check_pair(ctx, batch, mod, permute_dicts(mod.clone()), {**base, "a": [], "b": {"clone_perm": []}},
                           "corpus.clone_dict_order")
                # attached operations that carry several attributes against their own reordered clone
                # (a clone of an inner operation keeps its outside operands: a CSE candidate pair)
                multi = [(q, o) for q, o in corpus_op_paths(mod) if q and (len(o.attributes) > 1 or len(o.properties) > 1)]
                for q, o in (multi if len(multi) <= 4 else ctx.rng.sample(multi, 4)):
                    check_pair(ctx, batch, o, permute_dicts(o.clone()), {**base, "a": q, "b": {"clone_perm": q}},
                               "corpus.sub_clone_dict_order")
            ext = Ext()
            try:
                spec = export(mod, ext)
                again = build(spec, ext)
            except Exception:  # noqa: BLE001
                ctx.count("corpus.chunks_not_rebuildable")
                continue
            if canon(mod) != canon(again):
                ctx.count("corpus.chunks_not_rebuildable")
                continue
            check_pair(ctx, batch, mod, again, {**base, "a": [], "b": {"mutant": None, "path": []}}, "corpus.rebuilt")
            # attached sub-operations against the clone's (functions etc.)
            whole = mod.clone()
            tops = list(mod.body.block.ops)[:3]
            for i, op in enumerate(tops):
                p = [0, 0, i]
                check_pair(ctx, batch, op, node_at(whole, p), {**base, "a": p, "b": {"clone_root_then": p}}, "corpus.sub_node_vs_clone")
                check_pair(ctx, batch, op, op, {**base, "a": p, "b": {"same": p}}, "corpus.reflexive_attached")
            muts = enumerate_mutations(spec)
            muts = sample_mutations(ctx.rng, muts, n_mut)
            for m in muts:
                try:
                    mroot = build(apply_mutation(spec, m), ext)
                except Exception:  # noqa: BLE001
                    ctx.count("corpus.mutants_not_buildable")
                    continue
                ctx.count("mutation." + m["kind"])
                check_pair(ctx, batch, mod, mroot, {**base, "a": [], "b": {"mutant": m, "path": []}}, "corpus.mutant")
            if len(batch.lines) > 1500:
                batch.flush()
    batch.flush()


# ---------------------------------------------------------------------------------------------
# use sites: CSE and ModulePass.schedule_space
# ---------------------------------------------------------------------------------------------

def use_site_outer(base: int, res_id: int) -> dict:
    """%res = pure {k0, k1} <{p0, p1}> ({ inner })"""
    inner = [
        mk_op(n="test.pureop", r=[[base + 1, "f32"]], a={"k0": "i0", "k1": "sb"}, p={"p0": "sa", "p1": "i1"}),
        mk_op(n="test.pureop", o=[base + 1, base + 1], r=[[base + 2, "f32"]]),
        mk_op(n="test.termop", o=[base + 2, base + 1]),
    ]
    return mk_op(n="test.pureop", r=[[res_id, "i32"]], a={"k0": "i0", "k1": "sa"}, p={"p0": "sb", "p1": "i1"},
                 g=[[mk_block(base, [], inner)]])


def use_site_module(variant: dict | None) -> Any:
    """module { %a = pure {inner}; %b = pure {inner'}; test.op(%a, %b) } where %b's operation is %a's with
    one single-point mutation (or identical when variant is None)"""
    a = use_site_outer(10, 1)
    b = use_site_outer(20, 2)
    if variant is not None:
        b = apply_mutation(b, variant)
    user = mk_op(n="test.op", o=[1, 2])
    return mk_op(n="builtin.module", g=[[mk_block(0, [], [a, b, user])]])


OUTER_KINDS = ("region_add", "region_del", "attr_value", "attr_del", "attr_add", "prop_value", "prop_del", "prop_add",
               "result_type")


def use_site_variants() -> list[dict | None]:
    probe = use_site_outer(20, 2)
    variants: list[dict | None] = [None]
    for m in enumerate_mutations(probe):
        if m.get("op") == 0 and m["kind"] not in OUTER_KINDS:
            continue  # the outer op itself: only the fields CSE's key compares
        if m["kind"] in ("op_del", "result_add") or (m["kind"] == "operand" and m["j"] > 2):
            continue
        variants.append(m)
    return variants


def run_use_sites(ctx: core.Ctx) -> None:
    from xdsl.transforms.common_subexpression_elimination import CommonSubexpressionElimination

    variants = use_site_variants()
    xc = xdsl_context()
    # every variant twice: as built, and with the dictionaries of the second candidate (outer operation
    # and everything inside it) refilled in the opposite order — the same mappings, so the same verdict
    for v, perm in [(v, perm) for v in variants for perm in (False, True)]:
        spec = use_site_module(v)
        ext = Ext()
        mod = build(spec, ext)
        ctx.ev()
        ctx.count("use_site.cse" + (".dict_order" if perm else ""))
        # expected: merged iff the two outer ops are the same table entry (name, operands, result types,
        # attribute / property mappings, isomorphic regions)
        ops = list(mod.body.block.ops)
        if perm:
            permute_dicts(ops[1])
        d = info_diff(ops[0], ops[1])
        try:
            CommonSubexpressionElimination().apply(xc, mod)
            left = len(list(mod.body.block.ops))
            obs: Any = "merged" if left == 2 else "kept"
        except Exception as e:  # noqa: BLE001
            obs = "raise " + core.exc_name(e)
        exp = "merged" if d is None else "kept"
        if obs != exp:
            inside = v is not None and v.get("op") != 0
            what = ("identical operations" if v is None else
                    f"operations {'whose regions differ' if inside else 'that differ'} by mutation {v['kind']}")
            how = " written with their attribute / property dictionaries in a different order" if perm else ""
            sig = ("cse raises on operations that differ only in their number of regions" if obs.startswith("raise")
                   else f"cse {obs} {('identical operations' if v is None else ('operations whose regions differ in one field: ' if inside or v['kind'] in ('region_add', 'region_del') else 'operations that differ in one field: ') + v['kind'])}{how}")
            case = {"use_site": "cse", "variant": v}
            if perm:
                case["perm"] = True
            ctx.fail(SITE_CSE, sig, case, f"cse: {what}{how}: observed {obs}, expected {exp}", obs, exp)
    # schedule_space: a pass that performs exactly one single-point change must be offered
    from dataclasses import dataclass

    from xdsl.passes import ModulePass

    for v in variants[1:]:
        if v["kind"] in ("region_add", "region_del") and v.get("op") == 0:
            continue
        spec0 = use_site_module(None)

        @dataclass(frozen=True)
        class OnePoint(ModulePass):
            name = "one-point"

            def apply(self, ctx_: Any, op: Any) -> None:  # noqa: ANN401
                # swap the module body for the one in which the second outer op carries the mutation
                new = build(use_site_module(v), Ext())
                old_blk = op.body.block
                op.body.detach_block(old_blk)
                nb = new.body.block
                new.body.detach_block(nb)
                op.body.add_block(nb)

        OnePoint().apply(xc, build(spec0, Ext()))  # a crash here would be swallowed by schedule_space
        mod = build(spec0, Ext())
        ctx.ev()
        ctx.count("use_site.schedule_space")
        try:
            offered = len(OnePoint.schedule_space(xc, mod))
        except Exception as e:  # noqa: BLE001
            offered = "raise " + core.exc_name(e)
        changed = canon(build(use_site_module(None), Ext())) != canon(build(use_site_module(v), Ext()))
        exp_n = 1 if changed else 0
        if offered != exp_n:
            ctx.fail(SITE_SCHED, f"pass changing one field is not offered: {v['kind']}", {"use_site": "schedule_space", "variant": v},
                     f"schedule_space returned {offered} instances for a pass whose only effect is mutation {v}", offered, exp_n)


# ---------------------------------------------------------------------------------------------
# entry points
# ---------------------------------------------------------------------------------------------

def run(ctx: core.Ctx) -> None:
    ctx.lean()
    res()
    if ctx.tier == "quick":
        run_use_sites(ctx)
        run_generated(ctx, n_random=260, size=9)
        run_corpus(ctx, n_files=70, n_mut=12, max_ops=150)
    else:
        run_use_sites(ctx)
        run_generated(ctx, n_random=4500, size=14)
        run_corpus(ctx, n_files=None, n_mut=60, max_ops=800, max_chunks=60)
    ctx.exhaustive = True
    ctx.extra["exhaustive_scope"] = (
        "every single-point mutation of every template and of every random program with ≤ 5 operations; "
        "random sample of mutations for larger programs and corpus modules")


def _pair_from_case(case: dict) -> tuple[Any, Any, dict | None]:
    ext = Ext()
    if "prog" in case:
        spec = case["prog"]
        root = build(spec, ext)
    else:
        root = parse_chunk(case["file"], case["chunk"])
        if root is None:
            raise core.InfraError("corpus chunk does not parse any more")
        spec = None
    a = node_at(root, case["a"])
    bsel = case["b"]
    if "same" in bsel:
        b = node_at(root, bsel["same"])
    elif "clone" in bsel:
        b = node_at(root, bsel["clone"]).clone()
    elif "clone_perm" in bsel:
        b = permute_dicts(node_at(root, bsel["clone_perm"]).clone())
    elif "model_clone" in bsel:
        b = node_at(root, bsel["model_clone"]).clone()
    elif "clone_root_then" in bsel:
        b = node_at(root.clone(), bsel["clone_root_then"])
    else:
        if spec is None:
            spec = export(root, ext)
        ms = spec if bsel["mutant"] is None else apply_mutation(spec, bsel["mutant"])
        b = node_at(build(ms, ext), bsel.get("path", []))
    if case.get("order") == "b,a":
        a, b = b, a
    return a, b, spec


def replay(ctx: core.Ctx, body: dict) -> int:
    case = body["case"]
    res()
    if case.get("use_site"):
        c2 = core.Ctx(ctx.prop, ctx.tier, ctx.seed, META)
        run_use_sites(c2)
        bad = [f for f in c2.failures if f.case == case]
        for f in bad:
            print("use site:", f.description)
        print("property", "FAILS" if bad else "holds", "on this case")
        return 1 if bad else 0
    a, b, _ = _pair_from_case(case)
    from xdsl.printer import Printer
    import io

    for nm, n in (("a", a), ("b", b)):
        s = io.StringIO()
        try:
            from xdsl.ir import Block, Operation
            p = Printer(stream=s, print_generic_format=True)
            if isinstance(n, Operation):
                p.print_op(n)
            elif isinstance(n, Block):
                p.print_block(n)
            else:
                p.print_region(n)
            print(f"--- {nm}:\n{s.getvalue()}")
        except Exception as e:  # noqa: BLE001
            print(f"--- {nm}: (not printable: {e!r})")
    iab, iba = impl_eq(a, b), impl_eq(b, a)
    oracle = canon(a) == canon(b)
    print("implementation: a≡b", iab, " b≡a", iba)
    print("isomorphism oracle:", oracle)
    try:
        print("lean model    :", ctx.model("struct_eq", [pair_line(a, b), pair_line(b, a)]))
    except core.InfraError as e:
        print("lean model    : unavailable", e)
    bad = (iab != oracle) or (iba != oracle)
    from xdsl.ir import Operation
    if isinstance(a, Operation) and isinstance(b, Operation) and not a.successors and not b.successors \
            and py_scoped(a) and py_scoped(b):
        sig, desc, obs, exp = info_verdict(a, b)
        print("CSE table key  : attribute order a", list(a.attributes), "b", list(b.attributes),
              "| property order a", list(a.properties), "b", list(b.properties))
        print("OperationInfo  : [a==b, b==a, hashes equal, found in dict] =", obs, " expected same entry:", exp)
        if sig is not None:
            print("OperationInfo  :", sig)
            bad = True
    print("property", "FAILS" if bad else "holds", "on this case")
    return 1 if bad else 0
