"""C23 — the LLVM backend emits valid LLVM IR with the source semantics."""
from __future__ import annotations

import copy
import json
from typing import Any

from props import c23_fmt, c23_gen, c23_ir, c23_ll
from props.c23_ir import Unsupported, ref_run, sexp
from vp import core

META = {
    "title": "LLVM backend emits valid LLVM IR with the source semantics",
    "category": "translation_validation",
    "design_ref": "DESIGN.md §5 C23",
    "lean_modules": ["XdslProofs.C23"],
    "text": (
        "PARTIAL by design. Lean: the llvm-dialect subset as xDSL stores it (op classes, overflowFlags bit mask, "
        "isExact/isDisjoint/nonNeg, integer predicates, llvm.mlir.constant ops, block arguments) and the LLVM-IR "
        "subset as llvmlite prints it (mnemonics, flag/predicate keywords, inline constants, phis) are two "
        "languages with fuel-indexed bit-level semantics (BitVec; poison/UB = no result); `conv` mirrors "
        "convert.py/convert_op.py (class→mnemonic, flag and predicate tables incl. llvmlite's icmp/fcmp spelling "
        "rules, val_map, block-argument→phi construction with incoming order, cond_br with identical successors). "
        "Theorem conv_sound: whenever conv translates a function and the source run is defined (no poison/UB), "
        "the translated function run with the same fuel and arguments returns the same result — for every "
        "program of the subset (arbitrary CFGs, loops, memory) and every input; plus per-table theorems "
        "(binop/flag, icmp, fcmp, cast) at every width. Tie to /repo on every run: generated functions are "
        "built with the real op classes, translated by the real convert_module, the emitted text is (1) given "
        "to LLVM itself (llvmlite parse_assembly+verify = 'LLVM accepts', an external verdict), (2) re-read by a "
        "subset parser and compared instruction by instruction with Lean's conv of the same function, (3) "
        "evaluated by the Lean IR semantics and (4) JIT-compiled (MCJIT) and called through ctypes on boundary + "
        "random inputs; all three are compared with an independent Python reference of the source semantics "
        "(inputs that produce poison/UB are excluded, as the property says). Float-format family "
        "(props/c23_fmt.py): the same kind of functions over ALL builtin float formats (f16, bf16, f32, f64 random; "
        "f80, f128 in fixed boundary programs) — convert_type decides per type whether a module is translated "
        "and with which LLVM type; for every program that is translated (1) LLVM accepts it, (2) text oracle: "
        "signature and every float type named in the emitted function are the images of the source types under "
        "the format table f16=half bf16=bfloat f32=float f64=double f80=x86_fp80 f128=fp128 (Lean: "
        "FloatFmt.llvmName_injective — the name determines the format; convFloatTy_format/_injective — the rows "
        "convert_type has keep the format; the rows and the translate/reject boundary are compared with the real "
        "convert_type on every run), (3) execution oracle: MCJIT with the host's instruction set vs a Python "
        "reference of IEEE half / bfloat16 arithmetic."
    ),
    "technique": "Lean 4 simulation proof for the translation model + per-program translation validation "
                 "(text re-read vs model, LLVM verifier, JIT execution vs independent reference)",
    "level_note": (
        "Partial: 'LLVM accepts' and the machine code are LLVM's (llvmlite 0.47 / LLVM 20) verdict and behaviour, "
        "observed per generated program, not proved. Modelled, not verified: llvmlite's IRBuilder/printer (the "
        "model covers its mnemonic and predicate spelling only), the subset .ll reader, IEEE arithmetic (native "
        "Float/Float32 in Lean, the CPU in the JIT, Python floats in the reference). Subset: scalar i1/i8/i16/"
        "i32/i64/f32/f64 functions; add/sub/mul/udiv/sdiv/urem/srem/and/or/xor/shl/lshr/ashr with nsw/nuw/exact/"
        "disjoint; icmp/fcmp all predicates; trunc(nsw/nuw)/zext(nneg)/sext/bitcast/sitofp/fpext; select; fneg; "
        "fadd/fsub/fmul/fdiv/frem; br/cond_br with block arguments; alloca/load/"
        "store/getelementptr with one index on scalars; llvm.mlir.constant; unreachable. Excluded from the "
        "comparison: inputs on which the source produces poison or executes UB (nsw/nuw overflow, exact with "
        "remainder, division by zero / INT_MIN÷-1, shift ≥ width, disjoint with common bits, nneg of a negative, "
        "lossy trunc nsw/nuw, out-of-bounds or uninitialised memory, unreachable), a bitcast of a NaN (payload "
        "not determined), NaN results compared as a class. Not translated (exception from convert_module: "
        "KeyError for a use listed before its definition, ValueError for fcmp _false/_true) is outside the "
        "statement and counted. pointer-to-pointer bitcasts that llvmlite's typed-pointer bookkeeping inserts "
        "are read as the identity. Calls, vectors, structs, globals, intrinsics, fast-math flags are outside the subset. "
        "Float-format family: no Lean semantics for half/bfloat arithmetic (Python reference vs MCJIT only); functions "
        "take/return i*/f32/f64 (16-bit floats enter and leave through bitcast/fpext/fcmp/constants/memory); excluded "
        "inputs: a 16-bit-format arithmetic result in the format's subnormal range (LLVM computes through binary32 "
        "and the hardware bfloat16 conversion flushes), sitofp from an integer wider than 16 bits to a 16-bit "
        "format (two roundings); half/bfloat code is executed only if a child-process probe shows that this "
        "machine can run it (else the text oracle alone applies); f80/f128 programs are never executed (text "
        "oracle only). A type convert_type rejects (bf16, f80, f128 on the pinned tree) is 'not translated'."
    ),
    "rule": (
        "programs: seeded random well-typed llvm.func bodies (1–6 blocks, DAG + optional counted loop, block "
        "arguments, cond_br incl. both edges to one block, 0–8 ops per block over the subset, constants incl. "
        "boundary values in both signless representatives, allocas with initialising stores, occasional "
        "permuted block lists) + fixed regression programs; inputs: per program boundary/small/random bit "
        "patterns. evaluations = (program, input) pairs evaluated; non-trivial = pair on which the source is "
        "defined and the JIT-compiled function was executed and compared; distinct by (program text, input). "
        "Float-format family: fixed boundary programs per format (constants+select+fcmp, sitofp+fadd, bitcast+fpext, "
        "bitcast+fadd/fmul/fdiv+bitcast, store/load/block argument/fneg) for f16 bf16 f32 f64 f80 f128, and random "
        "functions of the same generator with the float pool {f16|bf16|both} + f32 + f64 (240 quick / 4000 "
        "thorough); counted in the histogram as fmt.<fixed|random>.<formats>.<status>."
    ),
    "trusted_base": [
        "hand-written Lean model XdslModel/LLVM.lean of the dialect subset, the LLVM-IR subset and conv (tied by the per-program text comparison and by execution)",
        "LLVM 20 via llvmlite 0.47 (parser, verifier, MCJIT) and the host CPU",
        "harness/props/c23*.py: generator, IR builder/extractor, .ll subset reader, Python reference semantics (incl. IEEE half / bfloat16 rounding), float-format table",
    ],
    "assumptions": [
        "llvmlite's IRBuilder prints the instruction the called builder method names (checked per program by re-reading the text)",
        "Lean native Float/Float32, the host FPU and Python floats implement IEEE-754 binary32/binary64 round-to-nearest-even",
    ],
    "budget": {"quick": 60, "thorough": 600},
}

FUEL = 300

# programs that once failed (kept in the enumeration so that a regression is re-found)
REGRESSION = [
    # cond_br with both edges to one block and different operands (LLVM: phi with two different entries for one predecessor)
    ["func", ["ret", "i32"],
     ["block", ["args", [0, "i1"], [1, "i32"], [2, "i32"]], ["condbr", 0, [1, 1], [1, 2]]],
     ["block", ["args", [3, "i32"]], ["ret", "i32", 3]]],
    ["func", ["ret", "i8"],
     ["block", ["args", [0, "i8"], [1, "i8"]], ["icmp", 2, 6, "i8", 0, 1], ["condbr", 2, [1, 0, 1], [1, 1, 0]]],
     ["block", ["args", [3, "i8"], [4, "i8"]], ["bin", "sub", 5, "i8", 3, 4, 0, 0, 0], ["ret", "i8", 5]]],
]


def site_of(kind: str) -> str:
    m = {"bin": "_convert_binop", "fbin": "_convert_binop", "icmp": "_convert_icmp", "fcmp": "_convert_fcmp",
         "cast": "_convert_cast", "select": "_convert_select", "alloca": "_convert_alloca", "load": "_convert_load",
         "store": "_convert_store", "gep": "_convert_getelementptr", "fneg": "_convert_fneg", "ret": "_convert_return",
         "br": "_convert_br", "condbr": "_convert_condbr", "phi": "_convert_condbr", "const": "create_constant"}
    return "xdsl.backend.llvm.convert_op." + m.get(kind, "convert_op")


def flat_instrs(ir: list) -> list[tuple[str, Any]]:
    out = []
    for bi, b in enumerate(ir[3:]):
        for phi in b[1][1:]:
            out.append(("phi", [bi] + phi))
        for ins in b[2:]:
            out.append((ins[0], [bi] + ins))
    return out


def first_diff(conv_ir: list, read_ir: list) -> tuple[str, Any, Any]:
    a, b = flat_instrs(conv_ir), flat_instrs(read_ir)
    for x, y in zip(a, b):
        if x != y:
            return x[0], x[1], y[1]
    if len(a) != len(b):
        x = a[len(b)] if len(a) > len(b) else b[len(a)]
        return x[0], (a[len(b)][1] if len(a) > len(b) else None), (b[len(a)][1] if len(b) > len(a) else None)
    return "func", conv_ir[:3], read_ir[:3]


def double_succ(prog: list) -> bool:
    return any(b[-1][0] == "condbr" and b[-1][2][0] == b[-1][3][0] and b[-1][2][1:] != b[-1][3][1:] for b in prog[2:])


def fmt_arg(ty: str, bits: int) -> str:
    return f"{ty}:{bits}"


def fmt_res(r: tuple) -> str:
    return f"val {r[1]}:{r[2]}" if r[0] == "val" else r[0]


class Case:
    """one program through the real backend (no Lean yet)"""

    def __init__(self, prog0: list, inputs: list[list[int]]):
        self.prog0, self.inputs = prog0, inputs
        self.status = "ok"
        self.detail = ""
        self.text = None
        self.llmod = None
        self.read = None
        self.prog = None
        from xdsl.utils.exceptions import VerifyException

        try:
            module = c23_ir.build(prog0)
            module.verify()
        except (VerifyException, Unsupported) as e:
            self.status, self.detail = "invalid", f"{type(e).__name__}: {e}"
            return
        self.prog = c23_ir.extract(module)
        self.ptys = [t for _, t in self.prog[2][1][1:]]
        self.rty = self.prog[1][1]
        from xdsl.backend.llvm.convert import convert_module

        try:
            self.text = str(convert_module(module, fallback_target_triple=None))
        except Exception as e:  # noqa: BLE001  (any exception = "not translated")
            self.status, self.detail = "not-translated", core.exc_name(e)
            return
        self.llmod, err = c23_ll.llvm_accepts(self.text)
        if self.llmod is None:
            self.status, self.detail = "rejected", err or ""
            return
        try:
            self.read = c23_ll.read_ll(self.text)
        except Unsupported as e:
            self.status, self.detail = "unread", str(e)

    def lean_lines(self) -> list[str]:
        lines = ["prog " + sexp(self.prog)]
        if self.read is not None:
            lines.append("ir " + sexp(self.read))
        for inp in self.inputs:
            a = " ".join(fmt_arg(t, b) for t, b in zip(self.ptys, inp))
            lines.append(f"run {FUEL} {a}")
            lines.append(f"runconv {FUEL} {a}")
            if self.read is not None:
                lines.append(f"runir {FUEL} {a}")
        return lines



def _sdiv_by_min_signed(prog: Any) -> bool:
    """does the program divide (sdiv/srem) by a constant that is the minimum signed value of its width?"""
    consts: dict[Any, tuple[str, int]] = {}
    hit = False

    def walk(x: Any) -> None:
        nonlocal hit
        if isinstance(x, (list, tuple)):
            if len(x) >= 4 and x[0] == "const" and isinstance(x[3], int) and isinstance(x[2], str) and x[2].startswith("i"):
                consts[x[1]] = (x[2], x[3])
            if len(x) >= 7 and x[0] == "bin" and x[1] in ("sdiv", "srem"):
                c = consts.get(x[5])
                if c is not None and c[0][1:].isdigit():
                    w = int(c[0][1:])
                    if c[1] % (1 << w) == 1 << (w - 1):
                        hit = True
            for y in x:
                walk(y)

    walk(prog)
    return hit


def check_case(ctx: core.Ctx, c: Case, out: list[str], record: bool = True) -> dict[str, Any]:
    """Compare one case's observations (real backend, LLVM, JIT) with the reference and the Lean answers
    `out` (one per line of c.lean_lines()).  Returns the verdicts; reports to ctx when `record`."""
    v: dict[str, Any] = {"fail": None, "mismatch": None, "nontrivial": 0, "jit_runs": 0}
    prog = c.prog

    def fail(site: str, sig: str, desc: str, impl: Any, exp: Any, inp: Any = None) -> None:
        if v["fail"] is None:
            v["fail"] = (site, sig, desc, impl, exp, inp)

    def mism(name: str, desc: str, impl: Any, model: Any) -> None:
        if v["mismatch"] is None:
            v["mismatch"] = (name, desc, impl, model)

    head = out[0]
    conv_ir = None
    if head.startswith("conv "):
        conv_ir = c23_ll.canon_ir(c23_ir.read_sexp(head[5:]))
    if c.status == "rejected":
        if double_succ(prog):
            fail("xdsl.backend.llvm.convert_op._convert_condbr",
                 "cond_br with identical successors and different operands: phi gets two entries for one predecessor",
                 "LLVM rejects the emitted IR: " + c.detail.splitlines()[0], c.text, "IR accepted by LLVM's verifier")
        else:
            fail("xdsl.backend.llvm.convert.convert_module", "LLVM rejects the emitted IR",
                 "LLVM rejects the emitted IR: " + c.detail.splitlines()[0], c.text, "IR accepted by LLVM's verifier")
        return v
    if c.status == "not-translated":
        if head != "not-translated":
            mism("correspondence:C23/llvm-conv", f"convert_module raised {c.detail} but the model translates the function",
                 "raise " + c.detail, head[:300])
        return v
    if c.status == "unread":
        mism("correspondence:C23/llvm-text", "emitted text is outside the subset the reader understands: " + c.detail,
             c.text, head[:300])
        return v
    if conv_ir is None:
        mism("correspondence:C23/llvm-conv", "the model does not translate a function that convert_module translates",
             sexp(c.read), head)
    elif c23_ll.normalise_consts(conv_ir) != c23_ll.normalise_consts(c.read):
        kind, a, b = first_diff(c23_ll.normalise_consts(conv_ir), c23_ll.normalise_consts(c.read))
        v["diff"] = (kind, a, b)
        mism("correspondence:C23/llvm-conv", f"emitted {kind} differs from the model's conv", sexp(b), sexp(a))
    pos = 2
    jit = None
    for inp in c.inputs:
        lean_d, lean_c, lean_i = out[pos], out[pos + 1], out[pos + 2]
        pos += 3
        ref = ref_run(prog, inp, FUEL)
        rs = fmt_res(ref)
        if lean_d != rs:
            mism("correspondence:C23/llvm-sem", "Lean dialect semantics and the Python reference disagree", rs, lean_d)
        if conv_ir is not None and lean_d not in ("ub",) and lean_c != lean_d:
            mism("correspondence:C23/conv_sound", "semI (conv p) differs from semD p on a defined run", lean_d, lean_c)
        if ref[0] != "val":
            continue
        case_inp = [f"{t}:{b}" for t, b in zip(c.ptys, inp)]
        if lean_i != rs:
            kind = v.get("diff", ("func",))[0]
            ran = ""
            if lean_i.startswith("val "):   # defined, so it is safe to execute: let the machine code confirm
                if jit is None:
                    jit = c23_ll.Jit(c.llmod, "f", c.ptys, c.rty)
                ran = f"; the JIT-compiled function returns {jit.call(inp)}"
                v["jit_runs"] += 1
            fail(site_of(kind), f"emitted {kind} changes the LLVM semantics",
                 f"LLVM semantics of the emitted IR gives `{lean_i}` on {case_inp}, the source operations prescribe `{rs}`{ran}",
                 lean_i, rs, inp)
            continue   # (when the emitted text is poison/UB on this input it is not executed)
        if jit is None:
            try:
                jit = c23_ll.Jit(c.llmod, "f", c.ptys, c.rty)
            except Exception as e:  # noqa: BLE001
                raise core.InfraError(f"MCJIT failed: {e}")
        got = jit.call(inp)
        v["jit_runs"] += 1
        v["nontrivial"] += 1
        if got != ref[2] and lean_i == rs and _sdiv_by_min_signed(prog):
            # external: the emitted IR is right by the LangRef model (it agrees with the source on this input) and only
            # LLVM's code generator disagrees -- `sdiv exact x, INT_MIN` is turned into `ashr exact x, w-1` (-1 instead
            # of 1 for x = INT_MIN).  Not a property of xDSL's translation: counted, not judged.
            ctx.count("external.llvm_codegen_sdiv_exact_by_min_signed")
            continue
        if got != ref[2]:
            kind = v.get("diff", ("func",))[0]
            fail(site_of(kind) if "diff" in v else "xdsl.backend.llvm.convert.convert_module",
                 "compiled code returns a different value than the source semantics",
                 f"JIT-compiled function returns {got} on {case_inp}, the source operations prescribe {ref[2]}",
                 f"val {c.rty}:{got}", rs, inp)
    return v


# ---------------------------------------------------------------------------------------------
# shrinking
# ---------------------------------------------------------------------------------------------

def op_res(op: list) -> int | None:
    k = op[0]
    if k in ("const", "fconst", "icmp", "fcmp", "fneg", "select", "alloca", "load", "gep"):
        return op[1]
    if k in ("bin", "fbin", "cast"):
        return op[2]
    return None


def op_uses(op: list) -> list[int]:
    k = op[0]
    if k in ("bin", "fbin", "icmp", "fcmp"):
        return [op[4], op[5]]
    if k == "fneg":
        return [op[3]]
    if k == "cast":
        return [op[5]]
    if k == "select":
        return [op[3], op[4], op[5]]
    if k == "alloca":
        return [op[4]]
    if k == "load":
        return [op[3]]
    if k == "store":
        return [op[2], op[3]]
    if k == "gep":
        return [op[3]] + ([op[4][1]] if op[4][0] == "v" else [])
    if k == "ret":
        return [op[2]]
    if k == "br":
        return list(op[1][1:])
    if k == "condbr":
        return [op[1]] + list(op[2][1:]) + list(op[3][1:])
    return []


def variants(prog: list):
    """smaller well-formed programs"""
    blocks = prog[2:]
    used = {u for b in blocks for op in b[2:] for u in op_uses(op)}
    # drop unreachable blocks
    reach, todo = {0}, [0]
    while todo:
        t = blocks[todo.pop()][-1]
        for d in ([t[1][0]] if t[0] == "br" else [t[2][0], t[3][0]] if t[0] == "condbr" else []):
            if d not in reach:
                reach.add(d); todo.append(d)
    if len(reach) < len(blocks):
        keep = sorted(reach)
        ren = {o: n for n, o in enumerate(keep)}
        nb = []
        for o in keep:
            b = copy.deepcopy(blocks[o])
            t = b[-1]
            if t[0] == "br":
                t[1][0] = ren[t[1][0]]
            elif t[0] == "condbr":
                t[2][0], t[3][0] = ren[t[2][0]], ren[t[3][0]]
            nb.append(b)
        yield prog[:2] + nb
    for bi, b in enumerate(blocks):
        t = b[-1]
        if t[0] == "condbr":
            for e in (t[2], t[3]):
                nb = copy.deepcopy(blocks)
                nb[bi][-1] = ["br", list(e)]
                yield prog[:2] + nb
    for bi, b in enumerate(blocks):
        for oi in range(2, len(b) - 1):
            r = op_res(b[oi])
            if (r is None and b[oi][0] == "store") or (r is not None and r not in used):
                nb = copy.deepcopy(blocks)
                del nb[bi][oi]
                yield prog[:2] + nb
    # drop a block argument (not of the entry block) together with the operands passed to it
    for bi in range(1, len(blocks)):
        for ai, (aid, _t) in enumerate(blocks[bi][1][1:]):
            if aid in used:
                continue
            nb = copy.deepcopy(blocks)
            del nb[bi][1][1 + ai]
            for b in nb:
                t = b[-1]
                for e in ([t[1]] if t[0] == "br" else [t[2], t[3]] if t[0] == "condbr" else []):
                    if e[0] == bi:
                        del e[1 + ai]
            yield prog[:2] + nb


def evaluate(ctx: core.Ctx, prog0: list, inputs: list[list[int]]) -> tuple[Case, dict[str, Any], list[str]]:
    c = Case(prog0, inputs)
    if c.status == "invalid":
        return c, {"fail": None, "mismatch": None, "nontrivial": 0, "jit_runs": 0}, []
    lines = c.lean_lines()
    out = ctx.model("llvm", lines)
    if c.read is None:   # keep the 3-lines-per-input layout
        out2, pos = [out[0], "bad-op"], 1
        for _ in c.inputs:
            out2 += [out[pos], out[pos + 1], "bad-op"]
            pos += 2
        out = out2
    return c, check_case(ctx, c, out, record=False), out


def shrink(ctx: core.Ctx, prog0: list, inputs: list[list[int]], key) -> tuple[list, list[list[int]]]:
    """greedy: smaller program / fewer inputs with the same (site, signature)"""
    def bad(p: list, ins: list[list[int]]) -> bool:
        try:
            _c, v, _o = evaluate(ctx, p, ins)
        except Exception:  # noqa: BLE001
            return False
        return key(v)

    steps = 0
    if len(inputs) > 1:
        for inp in inputs:
            steps += 1
            if bad(prog0, [inp]):
                inputs = [inp]
                break
    progress = True
    while progress and steps < 150:
        progress = False
        for cand in variants(prog0):
            steps += 1
            if steps >= 150:
                break
            if bad(cand, inputs):
                prog0, progress = cand, True
                break
    return prog0, inputs


# ---------------------------------------------------------------------------------------------

def run_batch(ctx: core.Ctx, progs: list[list], n_inputs: int) -> None:
    cases: list[Case] = []
    all_lines: list[str] = []
    spans: list[tuple[int, int]] = []
    for p0 in progs:
        ptys = [t for _, t in p0[2][1][1:]]
        c = Case(p0, c23_gen.gen_inputs(ctx.rng, ptys, n_inputs))
        ctx.count("programs." + c.status + ((":" + c.detail) if c.status == "not-translated" else ""))
        if c.status == "invalid":
            ctx.extra.setdefault("invalid_generated", []).append(c.detail[:200])
            continue
        lines = c.lean_lines()
        spans.append((len(all_lines), len(lines)))
        all_lines += lines
        cases.append(c)
    out_all = ctx.model("llvm", all_lines) if all_lines else []
    for c, (start, n) in zip(cases, spans):
        out = out_all[start:start + n]
        if c.read is None:
            out2, pos = [out[0], "bad-op"], 1
            for _ in c.inputs:
                out2 += [out[pos], out[pos + 1], "bad-op"]
                pos += 2
            out = out2
        ctx.programs += 1
        for op in (o for b in c.prog[2:] for o in b[2:]):
            ctx.count("op." + op[0] + ("." + op[1] if op[0] in ("bin", "fbin", "cast") else ""))
        ctx.count("blocks", len(c.prog) - 2)
        v = check_case(ctx, c, out)
        ctx.ev(len(c.inputs))
        ctx.disagreements_checked += v["jit_runs"]
        if v["nontrivial"]:
            h = hash(json.dumps(c.prog0))
            for k in range(v["nontrivial"]):
                ctx.nt((h, k))
        if c.status == "ok" and len(ctx.samples) < 3 and len(json.dumps(c.prog0)) < 900 and v["jit_runs"]:
            ctx.sample({"program": sexp(c.prog), "emitted": c.text.split("\n\n", 1)[-1].strip()[:900],
                        "inputs": [[f"{t}:{b}" for t, b in zip(c.ptys, i)] for i in c.inputs[:3]],
                        "reference": [fmt_res(ref_run(c.prog, i, FUEL)) for i in c.inputs[:3]]})
        if v["fail"] is not None:
            site, sig, desc, impl, exp, inp = v["fail"]
            p0, ins = c.prog0, ([inp] if inp is not None else c.inputs[:1])
            already = any(f.kind == "failing-input" and (f.call_site, f.signature) == (site, sig) for f in ctx.failures)
            if not already and ctx.time_left() > 20:
                p0, ins = shrink(ctx, p0, ins, lambda vv: vv["fail"] is not None and vv["fail"][:2] == (site, sig))
                _c2, v2, _o = evaluate(ctx, p0, ins)
                if v2["fail"] is not None:
                    site, sig, desc, impl, exp, _ = v2["fail"]
            ctx.fail(site, sig, {"program": p0, "inputs": ins}, desc, impl, exp)
        if v["mismatch"] is not None:
            name, desc, impl, model = v["mismatch"]
            ctx.mismatch(name, {"program": c.prog0, "inputs": c.inputs[:4]}, impl, model, desc)


def corpus_programs(ctx: core.Ctx) -> list[list]:
    """functions of the repo's own backend test file that fall into the subset (parsed from text)"""
    from xdsl.context import Context
    from xdsl.dialects import builtin, llvm
    from xdsl.dialects.builtin import ModuleOp
    from xdsl.parser import Parser

    path = core.REPO / "tests" / "filecheck" / "backend" / "llvm" / "convert_op.mlir"
    out: list[list] = []
    if not path.exists():
        return out
    c = Context()
    c.load_dialect(builtin.Builtin)
    c.load_dialect(llvm.LLVM)
    try:
        m = Parser(c, path.read_text()).parse_module()
    except Exception:  # noqa: BLE001
        return out
    for f in list(m.ops):
        if not isinstance(f, llvm.FuncOp):
            continue
        f.detach()
        try:
            p = c23_ir.extract(ModuleOp([f]))
        except Exception:  # noqa: BLE001  (outside the subset)
            ctx.count("corpus.outside_subset")
            continue
        if len(p) < 3 or any(t == "ptr" for _, t in p[2][1][1:]) or not c23_ir.prog_types(p) <= c23_ir.LEAN_TYPES:
            ctx.count("corpus.outside_subset")
            continue
        ctx.count("corpus.in_subset")
        out.append(p)
    return out


def run(ctx: core.Ctx) -> None:
    ctx.lean()
    quick = ctx.tier == "quick"
    n_inputs = 10 if quick else 16
    run_batch(ctx, copy.deepcopy(REGRESSION) + corpus_programs(ctx), n_inputs)
    # float-format family (all builtin float formats; text + execution oracles, no Lean model)
    import time as _time
    _t0 = _time.time()
    c23_fmt.run(ctx, 240 if quick else 4000, n_inputs)
    ctx.extra["fmt_family_wall_s"] = round(_time.time() - _t0, 2)
    batch = 60
    target = 1500 if quick else 100000
    done = 0
    while done < target and ctx.time_left() > (12 if quick else 60):
        progs = []
        for _ in range(batch):
            size = 0 if ctx.rng.random() < 0.15 else 1
            progs.append(c23_gen.Gen(ctx.rng, size).function())
        run_batch(ctx, progs, n_inputs)
        done += batch
    ctx.extra["fuel"] = FUEL
    ctx.extra["not_translated_note"] = "programs.not-translated:* are exceptions raised by convert_module (outside the statement)"


def replay(ctx: core.Ctx, body: dict) -> int:
    case = body["case"]
    if case.get("family") in ("fmt", "fmt-table"):
        return c23_fmt.replay(ctx, case)
    prog0, inputs = case["program"], case["inputs"]
    c, v, out = evaluate(ctx, prog0, inputs)
    print("program (as extracted from the xDSL IR):", sexp(c.prog) if c.prog else None)
    print("backend status:", c.status, c.detail.splitlines()[0] if c.detail else "")
    if c.text:
        print("emitted LLVM IR:\n" + c.text)
    for k, inp in enumerate(inputs):
        print("input", [f"{t}:{b}" for t, b in zip(c.ptys, inp)] if c.prog else inp)
        if c.prog:
            print("  reference (source semantics):", fmt_res(ref_run(c.prog, inp, FUEL)))
        if out:
            print("  lean semD / semI(conv) / semI(emitted):", out[2 + 3 * k: 5 + 3 * k])
    if out:
        print("lean conv:", out[0][:2000])
    if v["fail"]:
        print("oracle:", v["fail"][2])
    if v["mismatch"]:
        print("model mismatch:", v["mismatch"][0], v["mismatch"][1])
    bad = v["fail"] is not None
    print("property", "FAILS" if bad else "holds", "on this case")
    return 1 if bad else 0
