"""
C22 leg (A): RISC-V snippets for every canonicalization pattern, the xDSL adapter that runs the real
`canonicalize` pass / a single pattern on them and extracts the instruction list, and the oracle
(before/after on the independent RV32 machine of c22_rv + encodability of what was emitted).

A snippet is JSON:  {"args": [[name, reg|null]...], "ops": [op...], "ret": [name...], "alloc": bool}
  op = ["li", res, rd, imm] | ["zero", res] | ["mv", res, rd, src] | [R, res, rd, a, b]
     | [I, res, rd, a, imm] | [SH, res, rd, a, imm] | ["lw", res, rd, base, imm] | ["sw", base, val, imm]
  rd = null (unallocated `!riscv.reg`) or a register name.  "alloc": run the real register allocator
  first (the documented pipeline canonicalizes *after* allocation).
Float part (F/D registers): an argument [name, reg, "f"] is a float register; ops
     [FB, res, rd, a, b, flags]   FB = fadd.d fsub.d fmul.d fdiv.d fmin.d fmax.d and the .s forms, flags = fast-math
                                  flag list as printed ("" = none, "contract", "reassoc,nnan", "fast" …)
   | ["fmadd.d"…, res, rd, a, b, c] | ["fmv.d"|"fmv.s", res, rd, src] | ["fld"|"flw", res, rd, base, imm]
   | ["fsd"|"fsw", base, val, imm]
"""
from __future__ import annotations

from typing import Any

from props import c22_rv as rv

R_OPS = ["add", "sub", "mul", "and", "or", "xor", "sll", "srl", "sra", "slt", "sltu", "div", "divu", "rem", "remu"]
I_OPS = ["addi", "andi", "ori", "xori", "slti", "sltiu"]
SH_OPS = ["slli", "srli", "srai", "bclri", "bexti", "binvi", "bseti", "rori"]

B32 = [0, 1, -1, 2, -2, 3, 5, 7, 31, 32, 2047, 2048, -2047, -2048, -2049, 2049, 4095, 4096, -4096, 65535, 65536, 46341,
       (1 << 31) - 1, -(1 << 31), -(1 << 31) + 1, (1 << 30), 0x55555555, -0x55555556, 0x7FFFF800, 0x7FFFF7FF,
       (1 << 32) - 1, (1 << 31), (1 << 32) - 2048, (1 << 32) - 2049]
B12 = [0, 1, -1, 2, 3, 7, 8, 12, 255, 1024, 2040, 2044, 2047, -2048, -2047, -1024, -8, -4]
B5 = [0, 1, 2, 5, 15, 16, 30, 31]


def ty(rd: str | None) -> str:
    return "!riscv.reg" if rd is None else f"!riscv.reg<{rd}>"


def fty(rd: str | None) -> str:
    return "!riscv.freg" if rd is None else f"!riscv.freg<{rd}>"


F_BIN = [b + p for p in (".d", ".s") for b in ("fadd", "fsub", "fmul", "fdiv", "fmin", "fmax")]
F_FMA = [b + p for p in (".d", ".s") for b in ("fmadd", "fmsub", "fnmsub", "fnmadd")]
# fast-math flags in the order of xdsl.dialects.builtin.FastMathFlag; bit k of a flag mask = FLAG_NAMES[k]
FLAG_NAMES = ["reassoc", "nnan", "ninf", "nsz", "arcp", "contract", "afn"]


def flag_set(flags: str) -> frozenset[str]:
    fl = frozenset(x.strip() for x in flags.split(",") if x.strip())
    return frozenset(FLAG_NAMES) if "fast" in fl else fl


def flag_mask(flags: str) -> int:
    fs = flag_set(flags)
    return sum(1 << k for k, n in enumerate(FLAG_NAMES) if n in fs)


def is_float_snippet(s: dict[str, Any]) -> bool:
    return any(len(a) > 2 for a in s["args"]) or any(str(op[0]).startswith("f") for op in s["ops"])


def snip_text(s: dict[str, Any]) -> str:
    types: dict[str, str] = {}
    hdr = []
    for arg in s["args"]:
        name, reg = arg[0], arg[1]
        types[name] = fty(reg) if len(arg) > 2 else ty(reg)
        hdr.append(f"%{name} : {types[name]}")
    lines = []
    for op in s["ops"]:
        k = op[0]
        if k == "li":
            _, res, rd, imm = op
            types[res] = ty(rd)
            lines.append(f"  %{res} = rv32.li {imm} : {types[res]}")
        elif k == "zero":
            types[op[1]] = ty("zero")
            lines.append(f"  %{op[1]} = rv32.get_register : !riscv.reg<zero>")
        elif k == "mv":
            _, res, rd, src = op
            types[res] = ty(rd)
            lines.append(f"  %{res} = riscv.mv %{src} : ({types[src]}) -> {types[res]}")
        elif k in R_OPS:
            _, res, rd, a, b = op
            types[res] = ty(rd)
            lines.append(f"  %{res} = riscv.{k} %{a}, %{b} : ({types[a]}, {types[b]}) -> {types[res]}")
        elif k in I_OPS:
            _, res, rd, a, imm = op
            types[res] = ty(rd)
            lines.append(f"  %{res} = riscv.{k} %{a}, {imm} : ({types[a]}) -> {types[res]}")
        elif k in SH_OPS:
            _, res, rd, a, imm = op
            types[res] = ty(rd)
            lines.append(f"  %{res} = rv32.{k} %{a}, {imm} : ({types[a]}) -> {types[res]}")
        elif k == "lw":
            _, res, rd, a, imm = op
            types[res] = ty(rd)
            lines.append(f"  %{res} = riscv.lw %{a}, {imm} : ({types[a]}) -> {types[res]}")
        elif k == "sw":
            _, a, b, imm = op
            lines.append(f"  riscv.sw %{a}, %{b}, {imm} : ({types[a]}, {types[b]}) -> ()")
        elif k in F_BIN:
            _, res, rd, a, b, flags = op
            types[res] = fty(rd)
            fm = f" fastmath<{flags}>" if flags else ""
            lines.append(f"  %{res} = riscv.{k} %{a}, %{b}{fm} : ({types[a]}, {types[b]}) -> {types[res]}")
        elif k in F_FMA:
            _, res, rd, a, b, c = op
            types[res] = fty(rd)
            lines.append(f"  %{res} = riscv.{k} %{a}, %{b}, %{c} : ({types[a]}, {types[b]}, {types[c]}) -> {types[res]}")
        elif k in ("fmv.d", "fmv.s"):
            _, res, rd, src = op
            types[res] = fty(rd)
            lines.append(f"  %{res} = riscv.{k} %{src} : ({types[src]}) -> {types[res]}")
        elif k in ("fld", "flw"):
            _, res, rd, a, imm = op
            types[res] = fty(rd)
            lines.append(f"  %{res} = riscv.{k} %{a}, {imm} : ({types[a]}) -> {types[res]}")
        elif k in ("fsd", "fsw"):
            _, a, b, imm = op
            lines.append(f"  riscv.{k} %{a}, %{b}, {imm} : ({types[a]}, {types[b]}) -> ()")
        else:
            raise ValueError(f"bad snippet op {op}")
    rets = ", ".join("%" + r for r in s["ret"])
    rtys = ", ".join(types[r] for r in s["ret"])
    return ("builtin.module {\n  riscv_func.func @f(" + ", ".join(hdr) + ") -> (" + rtys + ") {\n"
            + "\n".join("  " + l for l in lines) + f"\n    riscv_func.return {rets} : {rtys}\n  }}\n}}\n")


# ------------------------------------------------------------------------------------------------
# xDSL adapter
# ------------------------------------------------------------------------------------------------

def parse(text: str) -> Any:
    from xdsl.context import Context
    from xdsl.dialects import builtin, riscv, riscv_cf, riscv_func, rv32
    from xdsl.parser import Parser

    ctx = Context()
    for d in (builtin.Builtin, riscv.RISCV, riscv_func.RISCV_Func, rv32.RV32, riscv_cf.RISCV_Cf):
        ctx.load_dialect(d)
    m = Parser(ctx, text).parse_module()
    m.verify()
    return m


def the_func(m: Any) -> Any:
    from xdsl.dialects import riscv_func

    return next(o for o in m.walk() if isinstance(o, riscv_func.FuncOp))


class Namer:
    def __init__(self) -> None:
        self.ids: dict[int, str] = {}
        self.keep: list[Any] = []
        self.n = 0

    def reg(self, v: Any) -> str:
        t = v.type
        name = t.register_name.data if hasattr(t, "register_name") else ""
        if name:
            return name
        k = id(v)
        if k not in self.ids:
            self.ids[k] = f"v{self.n}"
            self.n += 1
            self.keep.append(v)
        return self.ids[k]


def extract(func: Any, namer: Namer | None = None) -> tuple[list[tuple[str, list[Any]]], list[str], list[str]]:
    """straight-line function body → (program, argument registers, returned registers).  Unallocated
    values become virtual registers v0, v1… (one per SSA value)."""
    from xdsl.dialects import riscv, riscv_func
    from xdsl.dialects.builtin import IntegerAttr
    from xdsl.dialects.riscv.abstract_ops import GetAnyRegisterOperation
    from xdsl.ir import SSAValue

    nm = namer or Namer()
    blk = func.body.blocks.first
    argr = [nm.reg(a) for a in blk.args]
    prog: list[tuple[str, list[Any]]] = []
    rets: list[str] = []
    for op in blk.ops:
        if isinstance(op, riscv_func.ReturnOp):
            rets = [nm.reg(v) for v in op.operands]
            continue
        if isinstance(op, riscv.LwOp):
            prog.append(("lw", [nm.reg(op.rd), nm.reg(op.rs1), _imm(op.immediate)]))
            continue
        if isinstance(op, riscv.SwOp):
            prog.append(("sw", [nm.reg(op.rs2), nm.reg(op.rs1), _imm(op.immediate)]))
            continue
        if isinstance(op, (riscv.FSdOp, riscv.FSwOp)):
            prog.append((op.assembly_instruction_name(), [nm.reg(op.rs2), nm.reg(op.rs1), _imm(op.immediate)]))
            continue
        if isinstance(op, riscv.RISCVInstruction):
            args: list[Any] = []
            for a in op.assembly_line_args():
                if a is None:
                    continue
                if isinstance(a, SSAValue):
                    args.append(nm.reg(a))
                elif isinstance(a, IntegerAttr):
                    args.append(a.value.data)
                else:
                    args.append("?" + str(a))
            prog.append((op.assembly_instruction_name(), args))
            continue
        if isinstance(op, GetAnyRegisterOperation):
            continue  # no instruction: names a register
        prog.append(("?" + op.name, []))
    return prog, argr, rets


def float_regs(func: Any, nm: Namer) -> set[str]:
    """names (as given by `nm`) of all F/D-register values of the function"""
    from xdsl.dialects import riscv

    out: set[str] = set()
    for blk in func.body.blocks:
        for a in blk.args:
            if isinstance(a.type, riscv.FloatRegisterType):
                out.add(nm.reg(a))
        for op in blk.ops:
            for v in (*op.operands, *op.results):
                if isinstance(v.type, riscv.FloatRegisterType):
                    out.add(nm.reg(v))
    return out


def _imm(a: Any) -> Any:
    from xdsl.dialects.builtin import IntegerAttr

    return a.value.data if isinstance(a, IntegerAttr) else "?" + str(a)


def allocate(m: Any) -> None:
    from xdsl.context import Context
    from xdsl.transforms.riscv_allocate_registers import RISCVAllocateRegistersPass

    RISCVAllocateRegistersPass().apply(Context(), m)


def canonicalize(m: Any) -> None:
    from xdsl.context import Context
    from xdsl.transforms.canonicalize import CanonicalizePass

    CanonicalizePass().apply(Context(), m)


def pattern_instances() -> dict[str, Any]:
    """every RewritePattern of canonicalization_patterns/riscv.py that has an integer RV32 reading,
    instantiated the way the dialect's traits instantiate it"""
    from xdsl.dialects import rv32
    from xdsl.transforms.canonicalization_patterns import riscv as cp

    out: dict[str, Any] = {}
    for name in INT_PATTERNS + FLOAT_PATTERNS:
        cls = getattr(cp, name)
        if name == "ShiftbyZero":
            out[name] = cls(rv32.RV32RdRsImmShiftOperation)
        elif name == "ShiftConstantFolding":
            out[name] = cls(rv32.LiOp, rv32.RV32RdRsImmShiftOperation)
        else:
            out[name] = cls()
    return out


INT_PATTERNS = [
    "RemoveRedundantMv", "MultiplyImmediates", "DivideByOneIdentity", "AddImmediates", "AddImmediateZero",
    "AddImmediateConstant", "SubImmediates", "SubBySelf", "SubAddi", "AndiImmediate", "AndiZero", "OriImmediate",
    "OriImmediateZero", "XoriZero", "XoriSelfInverse", "XoriOfXori", "XoriImmediate", "ShiftbyZero",
    "ShiftConstantFolding", "LoadWordWithKnownOffset", "StoreWordWithKnownOffset",
    "AdditionOfSameVariablesToMultiplyByTwo", "BitwiseAndByZero", "BitwiseAndBySelf", "BitwiseOrByZero",
    "BitwiseOrBySelf", "XorBySelf", "BitwiseXorByZero", "LoadImmediate0",
]
# the patterns on F/D registers (executed on the float part of the machine; FuseMultiplyAddD also has a Lean rule)
FLOAT_PATTERNS = ["FuseMultiplyAddD", "RemoveRedundantFMv", "RemoveRedundantFMvD", "LoadFloatWordWithKnownOffset",
                  "StoreFloatWordWithKnownOffset", "LoadDoubleWithKnownOffset", "StoreDoubleWithKnownOffset"]
# not covered (stated in META.level_note): ScfgwOpUsingImmediate (snitch)
OTHER_PATTERNS = ["ScfgwOpUsingImmediate"]


def apply_single(m: Any, pattern: Any) -> bool:
    from xdsl.pattern_rewriter import PatternRewriteWalker

    return PatternRewriteWalker(pattern, apply_recursively=False).rewrite_module(m)


# ------------------------------------------------------------------------------------------------
# generators: for each pattern a list of snippet templates (functions of rng → snippet)
# ------------------------------------------------------------------------------------------------

class Gen:
    def __init__(self, rng: Any):
        self.rng = rng

    def c32(self) -> int:
        r = self.rng.random()
        if r < 0.7:
            return self.rng.choice(B32)
        if r < 0.85:
            return self.rng.randint(-3000, 3000)
        return self.rng.randint(-(1 << 31), (1 << 32) - 1)

    def c12(self) -> int:
        return self.rng.choice(B12) if self.rng.random() < 0.7 else self.rng.randint(-2048, 2047)

    def c5(self) -> int:
        return self.rng.choice(B5) if self.rng.random() < 0.6 else self.rng.randint(0, 31)

    def const(self, ops: list[Any], name: str, v: int) -> str:
        """a constant operand in one of the shapes get_constant_value looks through"""
        r = self.rng.random()
        if v == 0 and r < 0.3:
            ops.append(["zero", name])
        elif r < 0.75:
            ops.append(["li", name, None, v])
        else:
            ops.append(["li", name + "_", None, v])
            ops.append(["mv", name, None, name + "_"])
        return name

    def wrap(self, ops: list[Any], res: list[str], nargs: int = 2, alloc: bool | None = None, target: str = "r") -> dict[str, Any]:
        """function around `ops`: arguments a, b (moved into fresh values x, y when allocating so that
        the allocator is free to reuse their registers), results moved to a0/a1"""
        alloc = self.rng.random() < 0.5 if alloc is None else alloc
        names = ["x", "y", "z"][:nargs]
        if alloc:
            args = [[f"arg{i}", f"a{i}"] for i in range(nargs)]
            pre = [["mv", n, None, f"arg{i}"] for i, n in enumerate(names)]
            post = []
            rets = []
            for i, r in enumerate(res[:2]):
                post.append(["mv", f"ret{i}", f"a{i}", r])
                rets.append(f"ret{i}")
            return {"args": args, "ops": pre + ops + post, "ret": rets, "alloc": True, "target": target}
        return {"args": [[n, None] for n in names], "ops": ops, "ret": res[:2], "alloc": False, "target": target}


def gen_for(pattern: str, g: Gen) -> dict[str, Any]:
    rng = g.rng
    ops: list[Any] = []
    c = g.c32
    if pattern == "RemoveRedundantMv":
        k = rng.randrange(3)
        if k == 0:
            return {"args": [["x", "a0"], ["y", "a1"]], "ops": [["mv", "m", "a0", "x"], ["add", "r", "a0", "m", "y"]], "ret": ["r"], "alloc": False, "target": "m"}
        if k == 1:
            return {"args": [["x", "a0"], ["y", "a1"]], "ops": [["mv", "m", "a0", "y"], ["add", "r", "a0", "m", "y"]], "ret": ["r"], "alloc": False, "target": "m"}
        return {"args": [["x", "a0"], ["y", "a1"]], "ops": [["mv", "m", "t0", "x"], ["mv", "n", "t0", "m"], ["add", "r", "a0", "n", "y"]], "ret": ["r"], "alloc": False, "target": "n"}
    if pattern in ("MultiplyImmediates", "AddImmediates", "SubImmediates", "DivideByOneIdentity",
                   "BitwiseAndByZero", "BitwiseOrByZero", "BitwiseXorByZero"):
        opn = {"MultiplyImmediates": "mul", "AddImmediates": "add", "SubImmediates": "sub", "DivideByOneIdentity": "div",
               "BitwiseAndByZero": "and", "BitwiseOrByZero": "or", "BitwiseXorByZero": "xor"}[pattern]
        shape = rng.choice(["xc", "cx", "cc"])
        special = {"mul": [0, 1, 2, -1], "div": [1, 1, -1, 0], "and": [0, 0, -1], "or": [0, 0, -1], "xor": [0, 0, -1]}.get(opn)

        def pickc() -> int:
            if special and rng.random() < 0.6:
                return rng.choice(special)
            return c()
        a = "x" if shape[0] == "x" else g.const(ops, "c1", pickc())
        b = "y" if shape[1] == "x" else g.const(ops, "c2", pickc())
        ops.append([opn, "r", None, a, b])
        return g.wrap(ops, ["r"])
    if pattern == "AddImmediateZero":
        ops.append(["addi", "r", None, "x", 0])
        return g.wrap(ops, ["r"])
    if pattern in ("AddImmediateConstant", "AndiImmediate", "OriImmediate", "XoriImmediate"):
        opn = {"AddImmediateConstant": "addi", "AndiImmediate": "andi", "OriImmediate": "ori", "XoriImmediate": "xori"}[pattern]
        a = g.const(ops, "c1", c())
        ops.append([opn, "r", None, a, g.c12()])
        return g.wrap(ops, ["r"])
    if pattern in ("AndiZero", "OriImmediateZero", "XoriZero"):
        opn = {"AndiZero": "andi", "OriImmediateZero": "ori", "XoriZero": "xori"}[pattern]
        ops.append([opn, "r", None, "x", 0])
        return g.wrap(ops, ["r"])
    if pattern in ("SubBySelf", "BitwiseAndBySelf", "BitwiseOrBySelf", "XorBySelf", "AdditionOfSameVariablesToMultiplyByTwo"):
        opn = {"SubBySelf": "sub", "BitwiseAndBySelf": "and", "BitwiseOrBySelf": "or", "XorBySelf": "xor",
               "AdditionOfSameVariablesToMultiplyByTwo": "add"}[pattern]
        if rng.random() < 0.3:
            a = g.const(ops, "c1", c())
        else:
            a = "x"
        ops.append([opn, "r", None, a, a])
        return g.wrap(ops, ["r"])
    if pattern == "SubAddi":
        ops.append(["addi", "p", None, "x", g.c12()])
        if rng.random() < 0.5:
            ops.append(["add", "q", None, "p", "y"])  # keep the addi alive / put work in between
            ops.append(["sub", "r", None, "p", "x"])
            return g.wrap(ops, ["r", "q"])
        ops.append(["sub", "r", None, "p", "x"])
        return g.wrap(ops, ["r"])
    if pattern in ("XoriSelfInverse", "XoriOfXori"):
        i1 = g.c12()
        i2 = i1 if pattern == "XoriSelfInverse" else g.c12()
        ops.append(["xori", "p", None, "x", i1])
        k = rng.randrange(3)
        if k == 0:
            ops.append(["xori", "r", None, "p", i2])
            return g.wrap(ops, ["r"])
        if k == 1:  # inner result has a second use
            ops.append(["xori", "r", None, "p", i2])
            return g.wrap(ops, ["r", "p"])
        # work between the two xoris (after allocation the register of x may be reused there)
        ops.append(["add", "q", None, "p", "y"])
        ops.append(["mul", "q2", None, "q", "q"])
        ops.append(["xori", "r", None, "p", i2])
        ops.append(["add", "r2", None, "r", "q2"])
        return g.wrap(ops, ["r2"])
    if pattern == "ShiftbyZero":
        ops.append([rng.choice(SH_OPS), "r", None, "x", 0])
        return g.wrap(ops, ["r"])
    if pattern == "ShiftConstantFolding":
        a = g.const(ops, "c1", c())
        ops.append([rng.choice(SH_OPS), "r", None, a, g.c5()])
        return g.wrap(ops, ["r"])
    if pattern in ("LoadWordWithKnownOffset", "StoreWordWithKnownOffset"):
        # keep addresses aligned: base argument is a multiple of 4 (chosen by the input generator)
        o1 = rng.choice([0, 4, 8, -4, 12, 1024, 2044, -2048, 2040, 16])
        o2 = rng.choice([0, 4, 8, -4, 12, 1024, 2044, -2048, 4, 16])
        ops.append(["addi", "p", None, "x", o1])
        k = rng.randrange(3)
        if pattern == "LoadWordWithKnownOffset":
            if k == 2:
                ops.append(["add", "q", None, "p", "y"])
            ops.append(["lw", "r", None, "p", o2])
            res = ["r"] + (["q"] if k == 2 else ["p"] if k == 1 else [])
            s = g.wrap(ops, res)
        else:
            if k == 2:
                ops.append(["add", "q", None, "p", "y"])
            ops.append(["sw", "p", "y", o2])
            res = ["q"] if k == 2 else ["p"] if k == 1 else ["y"]
            s = g.wrap(ops, res, target="#sw")
        s["mem"] = True
        return s
    if pattern == "LoadImmediate0":
        if rng.random() < 0.3:
            return {"args": [["x", None]], "ops": [["li", "c", "zero", 0], ["add", "r", None, "x", "c"]], "ret": ["r"], "alloc": False, "target": "c"}
        ops.append(["li", "c", None, 0])
        ops.append(["add", "r", None, "x", "c"]) if rng.random() < 0.5 else ops.append(["mv", "r", None, "c"])
        return g.wrap(ops, ["r"], target="c")
    raise ValueError(pattern)


def gen_mixed(g: Gen) -> dict[str, Any]:
    """a short random dataflow snippet mixing all op kinds with constant operands (interaction of
    several patterns + folding + DCE inside one canonicalize run)"""
    rng = g.rng
    ops: list[Any] = []
    pool = ["x", "y"]
    n = rng.randint(2, 6)
    for i in range(n):
        r = rng.random()
        res = f"t{i}"
        if r < 0.25:
            ops.append(["li", res, None, g.c32()])
        elif r < 0.6:
            k = rng.choice(["add", "sub", "mul", "and", "or", "xor", "add", "sub"])
            a, b = rng.choice(pool), rng.choice(pool)
            ops.append([k, res, None, a, b])
        elif r < 0.85:
            k = rng.choice(["addi", "andi", "ori", "xori"])
            ops.append([k, res, None, rng.choice(pool), g.c12()])
        else:
            ops.append([rng.choice(SH_OPS[:3]), res, None, rng.choice(pool), g.c5()])
        pool.append(res)
    return g.wrap(ops, [pool[-1], rng.choice(pool)])


def directed() -> list[tuple[str, dict[str, Any]]]:
    """fixed minimal inputs that must be re-examined on every run (seeds of the known defects)"""
    def u(ops: list[Any], ret: list[str]) -> dict[str, Any]:
        return {"args": [["x", None], ["y", None]], "ops": ops, "ret": ret, "alloc": False, "target": "r"}
    out = [
        ("AddImmediates", u([["li", "c", None, 2048], ["add", "r", None, "x", "c"]], ["r"])),
        ("AddImmediates", u([["li", "c", None, -2049], ["add", "r", None, "c", "x"]], ["r"])),
        ("AddImmediates", u([["li", "c", None, 2047], ["add", "r", None, "x", "c"]], ["r"])),
        ("AddImmediates", u([["li", "c", None, -2048], ["add", "r", None, "x", "c"]], ["r"])),
        ("AddImmediates", u([["li", "c", None, -(1 << 31)], ["li", "d", None, -1], ["add", "r", None, "c", "d"]], ["r"])),
        ("AddImmediates", u([["li", "c", None, (1 << 31) - 1], ["li", "d", None, 1], ["add", "r", None, "c", "d"]], ["r"])),
        ("SubImmediates", u([["li", "c", None, -2048], ["sub", "r", None, "x", "c"]], ["r"])),
        ("SubImmediates", u([["li", "c", None, 2048], ["sub", "r", None, "x", "c"]], ["r"])),
        ("SubImmediates", u([["li", "c", None, 2049], ["sub", "r", None, "x", "c"]], ["r"])),
        ("SubImmediates", u([["li", "c", None, -(1 << 31)], ["li", "d", None, 1], ["sub", "r", None, "c", "d"]], ["r"])),
        ("MultiplyImmediates", u([["li", "c", None, 65536], ["li", "d", None, 65536], ["mul", "r", None, "c", "d"]], ["r"])),
        ("MultiplyImmediates", u([["li", "c", None, 46341], ["li", "d", None, 46341], ["mul", "r", None, "c", "d"]], ["r"])),
        ("MultiplyImmediates", u([["li", "c", None, -(1 << 31)], ["li", "d", None, -1], ["mul", "r", None, "c", "d"]], ["r"])),
        ("AddImmediateConstant", u([["li", "c", None, -(1 << 31)], ["addi", "r", None, "c", -1]], ["r"])),
        ("AddImmediateConstant", u([["li", "c", None, (1 << 31) - 1], ["addi", "r", None, "c", 2047]], ["r"])),
        ("ShiftConstantFolding", u([["li", "c", None, 3], ["slli", "r", None, "c", 31]], ["r"])),
        ("ShiftConstantFolding", u([["li", "c", None, -3], ["slli", "r", None, "c", 31]], ["r"])),
        ("ShiftConstantFolding", u([["li", "c", None, -1], ["binvi", "r", None, "c", 31]], ["r"])),
        ("ShiftConstantFolding", u([["li", "c", None, -1], ["srli", "r", None, "c", 0]], ["r"])),
        ("ShiftConstantFolding", u([["li", "c", None, -8], ["srai", "r", None, "c", 1]], ["r"])),
        ("BitwiseAndByZero", u([["li", "c", None, 0], ["li", "d", None, 0], ["and", "r", None, "c", "d"]], ["r"])),
        ("BitwiseXorByZero", u([["li", "c", None, 0], ["li", "d", None, 0], ["xor", "r", None, "c", "d"]], ["r"])),
        ("LoadWordWithKnownOffset", dict(u([["addi", "p", None, "x", 2044], ["lw", "r", None, "p", 4]], ["r"]), mem=True)),
        ("StoreWordWithKnownOffset", dict(u([["addi", "p", None, "x", -2048], ["sw", "p", "y", -4]], ["y"]), mem=True, target="#sw")),
        ("AddImmediates", {"args": [["x", None]], "ops": [["li", "c", "zero", 5], ["add", "r", None, "x", "c"]], "ret": ["r"], "alloc": False, "target": "r"}),
        ("ShiftbyZero", u([["binvi", "r", None, "x", 0]], ["r"])),
        ("ShiftbyZero", u([["bclri", "r", None, "x", 0]], ["r"])),
        ("ShiftbyZero", u([["bseti", "r", None, "x", 0]], ["r"])),
        ("ShiftbyZero", u([["bexti", "r", None, "x", 0]], ["r"])),
        ("ShiftbyZero", u([["rori", "r", None, "x", 0]], ["r"])),
        ("AdditionOfSameVariablesToMultiplyByTwo",
         {"args": [["arg0", "a0"]], "ops": [["mv", "x", None, "arg0"], ["add", "r", None, "x", "x"], ["mv", "ret0", "a0", "r"]], "ret": ["ret0"], "alloc": True, "target": "r"}),
        ("XoriOfXori",
         {"args": [["arg0", "a0"], ["arg1", "a1"]],
          "ops": [["mv", "x", None, "arg0"], ["mv", "y", None, "arg1"], ["xori", "p", None, "x", 5], ["add", "q", None, "p", "y"],
                  ["mul", "q2", None, "q", "q"], ["xori", "r", None, "p", 3], ["add", "r2", None, "r", "q2"], ["mv", "ret0", "a0", "r2"]],
          "ret": ["ret0"], "alloc": True, "target": "r"}),
    ]
    # the unit / absorbing constants of every binary pattern, on either side, in the three shapes
    # get_constant_value looks through (li, mv of li, the zero register)
    table = {"mul": ("MultiplyImmediates", [0, 1, 2, -1]), "div": ("DivideByOneIdentity", [1, -1, 0]),
             "add": ("AddImmediates", [0, 1, -1]), "sub": ("SubImmediates", [0, 1, -2048, 2048]),
             "and": ("BitwiseAndByZero", [0, -1]), "or": ("BitwiseOrByZero", [0, -1]), "xor": ("BitwiseXorByZero", [0, -1])}
    for opn, (pat, consts) in table.items():
        for cv in consts:
            for side in (0, 1):
                for shape in ("li", "mv", "zero"):
                    if shape == "zero" and cv != 0:
                        continue
                    ops: list[Any] = []
                    if shape == "li":
                        ops.append(["li", "c", None, cv])
                    elif shape == "mv":
                        ops += [["li", "c_", None, cv], ["mv", "c", None, "c_"]]
                    else:
                        ops.append(["zero", "c"])
                    ops.append([opn, "r", None, "c", "x"] if side == 0 else [opn, "r", None, "x", "c"])
                    out.append((pat, u(ops, ["r"])))
    return out


# ------------------------------------------------------------------------------------------------
# oracle
# ------------------------------------------------------------------------------------------------

def input_vectors(rng: Any, argr: list[str], mem: bool, n: int) -> list[dict[str, int]]:
    vals = [0, 1, 2, 0xFFFFFFFF, 0x7FFFFFFF, 0x80000000, 2047, 2048, 0xFFFFF800, 0xFFFFF7FF, 31, 32, 0x55555555, 65536]
    out = []
    for i in range(n):
        d = {}
        for j, r in enumerate(argr):
            v = rng.choice(vals) if rng.random() < 0.5 else rng.getrandbits(32)
            if mem and j == 0:
                v = 0x20000000 + 4 * rng.randrange(0, 4096)
            d[r] = v
        out.append(d)
    return out


def run_prog(prog: list[tuple[str, list[Any]]], regs: dict[str, int], rets: list[str], mem_seed: int,
             fset: frozenset[str] = frozenset(), fuse: dict[int, tuple[int, int]] | None = None) -> tuple[Any, ...]:
    """observation = ("ok", returned registers, sorted stores) or ("trap", reason).  `fset`: the names in
    `regs`/`rets` that are F/D registers (64-bit patterns); `fuse`: contraction choice (see Machine.fuse)"""
    m = rv.Machine(prog, {k: v for k, v in regs.items() if k not in fset}, mem_seed)
    for k in fset:
        if k in regs:
            m.setf(k, regs[k])
    if fuse:
        m.fuse = dict(fuse)
    try:
        m.run_straight()
    except rv.Trap as e:
        return ("trap", str(e))
    return ("ok", [m.getf(r) if r in fset else m.get(r) for r in rets], sorted(m.mem.items()))


# ------------------------------------------------------------------------------------------------
# float snippets
# ------------------------------------------------------------------------------------------------

FLAG_CHOICES = ["", "contract", "reassoc", "fast", "nnan", "ninf", "nsz", "arcp", "afn", "reassoc,nnan",
                "nnan,contract", "reassoc,contract", "reassoc,nnan,ninf,nsz,arcp,afn"]

FVALS = [0.0, -0.0, 1.0, -1.0, 1.5, 2.0, 0.1, 10.0, 3.0, 1.0 / 3.0, 1.0 + 2.0 ** -30, 1.0 - 2.0 ** -30, 1e308, -1e308, 5e-324,
         2.2250738585072014e-308, float("inf"), float("-inf"), float("nan"), 1e-160, 123456789.123, -7.25]


def rand_f64(rng: Any) -> int:
    r = rng.random()
    if r < 0.3:
        return rv.f64_bits(rng.choice(FVALS))
    if r < 0.9:   # full mantissa, moderate exponent: products and sums are inexact
        return (rng.getrandbits(1) << 63) | ((1023 + rng.randint(-40, 40)) << 52) | rng.getrandbits(52)
    return rng.getrandbits(64)


def rand_f32(rng: Any) -> int:
    """a NaN-boxed single-precision value (what a valid f32 looks like in a 64-bit F/D register)"""
    r = rng.random()
    if r < 0.3:
        v = rng.choice([0, 0x80000000, 0x3F800000, 0xBF800000, 0x3FC00000, 0x7F800000, 0xFF800000, 0x7FC00000, 1, 0x00800000, 0x7F7FFFFF, 0x3DCCCCCD])
    elif r < 0.9:
        v = (rng.getrandbits(1) << 31) | ((127 + rng.randint(-20, 20)) << 23) | rng.getrandbits(23)
    else:
        v = rng.getrandbits(32)
    return rv.box32(v)


def related_f64(rng: Any, vals: list[int]) -> list[int]:
    """float argument vector; with probability 1/2 the last one cancels a product of two others
    (the rounding error of the product then survives the addition)"""
    vals = list(vals)
    if len(vals) >= 3 and rng.random() < 0.5:
        a, b = rng.choice(vals[:-1]), rng.choice(vals[:-1])
        prod = rv.fbin("fmul", a, b, True)
        vals[-1] = prod ^ (1 << 63) if rng.random() < 0.8 else prod
    return vals


def float_names(s: dict[str, Any]) -> set[str]:
    """names of the snippet's values that live in F/D registers"""
    out = {a[0] for a in s["args"] if len(a) > 2}
    for op in s["ops"]:
        k = op[0]
        if k in F_BIN or k in F_FMA or k in ("fmv.d", "fmv.s", "fld", "flw"):
            out.add(op[1])
    return out


def licensed_contractions(s: dict[str, Any]) -> list[tuple[int, list[tuple[int, int]]]]:
    """read from the snippet itself (not from xDSL): for every fadd/fsub that carries `contract` the products it
    may be contracted with - (position of the add, [(position of the mul, operand index)]) with positions in the
    extracted instruction list (every op except `zero` is one instruction).  Contraction needs `contract` on
    BOTH operations (LLVM LangRef / MLIR arith fastmath: the flag of an instruction licenses transformations of
    that instruction; a fused multiply-add replaces both)."""
    pos: dict[str, tuple[int, Any]] = {}
    n = 0
    out = []
    for op in s["ops"]:
        if op[0] == "zero":
            continue
        if op[0] in F_BIN:
            base, prec = op[0].split(".")
            if base in ("fadd", "fsub") and "contract" in flag_set(op[5]):
                cands = []
                for idx, src in enumerate((op[3], op[4])):
                    d = pos.get(src)
                    if d is not None and d[1][0] == "fmul." + prec and "contract" in flag_set(d[1][5]):
                        cands.append((d[0], idx))
                if cands:
                    out.append((n, cands))
        if op[0] not in ("sw", "fsd", "fsw"):
            pos[op[1]] = (n, op)
        n += 1
    return out


def contraction_choices(lic: list[tuple[int, list[tuple[int, int]]]], limit: int = 81) -> list[dict[int, tuple[int, int]]]:
    outs: list[dict[int, tuple[int, int]]] = [{}]
    for add_pos, cands in lic:
        outs = [{**o, **({add_pos: c} if c is not None else {})} for o in outs for c in [None, *cands]]
        if len(outs) > limit:
            return outs[:limit]
    return outs[1:]  # without the strict evaluation


class FGen(Gen):
    def flags2(self) -> tuple[str, str]:
        f1 = self.rng.choice(FLAG_CHOICES)
        return (f1, f1) if self.rng.random() < 0.5 else (f1, self.rng.choice(FLAG_CHOICES))

    def fwrap(self, ops: list[Any], res: list[str], nf: int = 3, alloc: bool | None = None, target: str = "r",
              base: bool = False) -> dict[str, Any]:
        """function around `ops`: float arguments x, y, z (+ an integer address `b`), results to fa0/fa1"""
        alloc = self.rng.random() < 0.5 if alloc is None else alloc
        names = ["x", "y", "z"][:nf]
        if alloc:
            args: list[Any] = [[f"arg{i}", f"fa{i}", "f"] for i in range(nf)]
            pre: list[Any] = [["fmv.d", n, None, f"arg{i}"] for i, n in enumerate(names)]
            if base:
                args.insert(0, ["argb", "a0"])
                pre.insert(0, ["mv", "b", None, "argb"])
            post, rets = [], []
            for i, r in enumerate(res[:2]):
                post.append(["fmv.d", f"ret{i}", f"fa{i}", r])
                rets.append(f"ret{i}")
            return {"args": args, "ops": pre + ops + post, "ret": rets, "alloc": True, "target": target}
        args = ([["b", None]] if base else []) + [[n, None, "f"] for n in names]
        return {"args": args, "ops": ops, "ret": res[:2], "alloc": False, "target": target}


def gen_float(pattern: str, g: FGen, shape: int | None = None, flags: tuple[str, str] | None = None,
              alloc: bool | None = None) -> dict[str, Any]:
    rng = g.rng
    ops: list[Any] = []
    if pattern == "FuseMultiplyAddD":
        f1, f2 = flags if flags is not None else g.flags2()
        k = rng.randrange(10) if shape is None else shape
        if k == 0:
            ops += [["fmul.d", "m", None, "x", "y", f1], ["fadd.d", "r", None, "m", "z", f2]]
        elif k == 1:
            ops += [["fmul.d", "m", None, "x", "y", f1], ["fadd.d", "r", None, "z", "m", f2]]
        elif k == 2:   # the product has a second use
            ops += [["fmul.d", "m", None, "x", "y", f1], ["fadd.d", "r", None, "m", "z", f2]]
            return g.fwrap(ops, ["r", "m"], alloc=alloc)
        elif k == 3:   # work between product and sum
            ops += [["fmul.d", "m", None, "x", "y", f1], ["fadd.d", "w", None, "z", "z", rng.choice(FLAG_CHOICES)],
                    ["fadd.d", "r", None, "m", "w", f2]]
        elif k == 4:
            ops += [["fmul.d", "m", None, "x", "x", f1], ["fadd.d", "r", None, "m", "x", f2]]
        elif k == 5:   # both operands are products
            ops += [["fmul.d", "m", None, "x", "y", f1], ["fmul.d", "n", None, "y", "z", rng.choice([f1, f2])],
                    ["fadd.d", "r", None, "m", "n", f2]]
        elif k == 6:   # single precision: no pattern
            ops += [["fmul.s", "m", None, "x", "y", f1], ["fadd.s", "r", None, "m", "z", f2]]
            return dict(g.fwrap(ops, ["r"], alloc=alloc), f32=True)
        elif k == 7:   # subtraction: no pattern
            ops += [["fmul.d", "m", None, "x", "y", f1], ["fsub.d", "r", None, "m", "z", f2]]
        elif k == 8:   # the multiplicands die before the sum (their registers may be reused once allocated)
            ops += [["fmul.d", "m", None, "x", "y", f1], ["fadd.d", "t", None, "x", "y", ""], ["fmul.d", "u", None, "t", "t", ""],
                    ["fadd.d", "r", None, "m", "z", f2], ["fadd.d", "r2", None, "r", "u", ""]]
            return g.fwrap(ops, ["r2"], alloc=alloc)
        else:          # two sums of products in a row
            ops += [["fmul.d", "m", None, "x", "y", f1], ["fadd.d", "p", None, "m", "z", f2],
                    ["fmul.d", "n", None, "p", "y", f2], ["fadd.d", "r", None, "x", "n", f1]]
        return g.fwrap(ops, ["r"], alloc=alloc)
    if pattern in ("RemoveRedundantFMv", "RemoveRedundantFMvD"):
        sgl = pattern == "RemoveRedundantFMv"
        mv, add = ("fmv.s", "fadd.s") if sgl else ("fmv.d", "fadd.d")
        k = rng.randrange(3)
        A = [["x", "fa0", "f"], ["y", "fa1", "f"]]
        if k == 0:
            t = {"args": A, "ops": [[mv, "m", "fa0", "x"], [add, "r", "fa0", "m", "y", ""]], "ret": ["r"], "alloc": False, "target": "m"}
        elif k == 1:
            t = {"args": A, "ops": [[mv, "m", "fa0", "y"], [add, "r", "fa0", "m", "y", ""]], "ret": ["r"], "alloc": False, "target": "m"}
        else:
            t = {"args": A, "ops": [[mv, "m", "ft0", "x"], [mv, "n", "ft0", "m"], [add, "r", "fa0", "n", "y", ""]], "ret": ["r"], "alloc": False, "target": "n"}
        if sgl:
            t["f32"] = True   # arguments are NaN-boxed single-precision values
        return t
    if pattern in ("LoadFloatWordWithKnownOffset", "StoreFloatWordWithKnownOffset", "LoadDoubleWithKnownOffset", "StoreDoubleWithKnownOffset"):
        dbl = "Double" in pattern
        o1 = rng.choice([0, 4, 8, -8, 16, 1024, 2044, 2040, -2048, 24])
        o2 = rng.choice([0, 4, 8, -8, 16, 1024, 2044, -2048, 8, 2040])
        ops.append(["addi", "p", None, "b", o1])
        k = rng.randrange(3)
        if k == 2:
            ops.append(["add", "q", None, "p", "p"])
        if pattern.startswith("Load"):
            ops.append(["fld" if dbl else "flw", "r", None, "p", o2])
            ops.append(["fadd.d" if dbl else "fadd.s", "r2", None, "r", "x", ""])
            s = g.fwrap(ops, ["r2"], nf=1, base=True, alloc=alloc)
        else:
            ops.append(["fsd" if dbl else "fsw", "p", "x", o2])
            s = g.fwrap(ops, ["x"], nf=1, base=True, target="#fst", alloc=alloc)
        s["mem"] = True
        if not dbl:
            s["f32"] = True
        return s
    raise ValueError(pattern)


def float_directed() -> list[tuple[str, dict[str, Any]]]:
    """every pair of single fast-math flags (and none / fast) on product and sum, unallocated, in the two
    operand orders: the contraction licence is decided by exactly these attributes"""
    g = FGen(None)
    singles = ["", "fast"] + FLAG_NAMES
    out = []
    for f1 in singles:
        for f2 in singles:
            out.append(("FuseMultiplyAddD", gen_float("FuseMultiplyAddD", g, shape=0, flags=(f1, f2), alloc=False)))
            if f1 == f2 or "contract" in (f1, f2) or "fast" in (f1, f2):
                out.append(("FuseMultiplyAddD", gen_float("FuseMultiplyAddD", g, shape=1, flags=(f1, f2), alloc=False)))
    # allocated shapes where a multiplicand's register is overwritten before the sum
    out.append(("FuseMultiplyAddD", {
        "args": [["arg0", "fa0", "f"], ["arg1", "fa1", "f"], ["arg2", "fa2", "f"]],
        "ops": [["fmul.d", "m", "ft0", "arg0", "arg1", "contract"], ["fadd.d", "w", "fa0", "arg2", "arg2", ""],
                ["fadd.d", "r", "fa0", "m", "w", "contract"]],
        "ret": ["r"], "alloc": False, "target": "r"}))
    out.append(("FuseMultiplyAddD", gen_float("FuseMultiplyAddD", g, shape=0, flags=("contract", "contract"), alloc=True)))
    return out


def input_vectors_f(rng: Any, s: dict[str, Any], argr: list[str], n: int) -> list[dict[str, int]]:
    """register vectors for a snippet with float arguments (integer arguments as in `input_vectors`)"""
    isf = [len(a) > 2 for a in s["args"]]
    ivals = [0, 1, 2, 0xFFFFFFFF, 0x7FFFFFFF, 0x80000000, 2047, 2048, 31, 0x55555555]
    out = []
    for _ in range(n):
        fv = [rand_f32(rng) for f in isf if f] if s.get("f32") else related_f64(rng, [rand_f64(rng) for f in isf if f])
        d, k = {}, 0
        for r, f in zip(argr, isf):
            if f:
                d[r] = fv[k]
                k += 1
            elif s.get("mem"):
                d[r] = 0x20000000 + 8 * rng.randrange(0, 2048)
            else:
                d[r] = rng.choice(ivals) if rng.random() < 0.5 else rng.getrandbits(32)
        out.append(d)
    return out


# ------------------------------------------------------------------------------------------------
# riscv_cf: conditional branches with constant operands, block-structured programs
# ------------------------------------------------------------------------------------------------

BR_OPS = ["beq", "bne", "blt", "bge", "bltu", "bgeu"]
BR_PAIRS = [(0, 0), (1, 1), (-1, -1), (5, 5), (2147483647, 2147483647), (-2147483648, -2147483648), (2048, 2048),
            (0, 1), (1, 0), (-1, 0), (0, -1), (-1, 1), (1, -1), (2, 3), (3, 2), (-3, -2), (-2, -3),
            (-2147483648, 2147483647), (2147483647, -2147483648), (2147483648, 2147483647), (4294967295, 0), (0, 4294967295),
            (4294967295, -1), (2147483648, -2147483648), (-2147483648, 0), (2147483647, 0), (2047, 2048), (-2048, -2049)]


def _rt(reg: str | None) -> str:
    return "!riscv.reg" if reg is None else f"!riscv.reg<{reg}>"


def cf_branch_text(op: str, a: tuple[Any, ...], b: tuple[Any, ...], alloc: bool, same_args: bool = False) -> str:
    """`a`, `b`: ("li", v) | ("mv", v) | ("zero",) | ("arg", "x"|"y").  then → x ^ 111, else → y + 222
    (same value passed on both edges when `same_args`)."""
    R = (lambda n: _rt(n)) if alloc else (lambda n: _rt(None))
    tx, ty = R("a0"), R("a1")
    lines: list[str] = []
    names: list[tuple[str, str]] = []
    for k, (spec, treg, treg2) in enumerate(((a, "t0", "t2"), (b, "t1", "t3"))):
        nm = f"%p{k}"
        if spec[0] == "li":
            lines.append(f"    {nm} = rv32.li {spec[1]} : {R(treg)}")
            names.append((nm, R(treg)))
        elif spec[0] == "mv":
            lines.append(f"    {nm}_ = rv32.li {spec[1]} : {R(treg2)}")
            lines.append(f"    {nm} = riscv.mv {nm}_ : ({R(treg2)}) -> {R(treg)}")
            names.append((nm, R(treg)))
        elif spec[0] == "zero":
            lines.append(f"    {nm} = rv32.get_register : !riscv.reg<zero>")
            names.append((nm, "!riscv.reg<zero>"))
        else:
            names.append(("%" + spec[1], tx if spec[1] == "x" else ty))
    (p, pt), (q, qt) = names
    ea, eat = ("%x", tx) if same_args else ("%y", ty)
    tj = R("a0")
    body = "\n".join(lines)
    return (f"builtin.module {{\n  riscv_func.func @f(%x : {tx}, %y : {ty}) -> ({tj}) {{\n{body}\n"
            f"    riscv_cf.{op} {p} : {pt}, {q} : {qt}, ^then(%x : {tx}), ^else({ea} : {eat})\n"
            f"  ^else(%e : {eat}):\n    %r1 = riscv.addi %e, 222 : ({eat}) -> {tj}\n    riscv_cf.j ^join(%r1 : {tj})\n"
            f"  ^then(%t : {tx}):\n    riscv.label \"then\"\n    %r2 = riscv.xori %t, 111 : ({tx}) -> {tj}\n    riscv_cf.branch ^join(%r2 : {tj})\n"
            f"  ^join(%j : {tj}):\n    riscv.label \"join\"\n    riscv_func.return %j : {tj}\n  }}\n}}\n")


def cf_loop_text(lb: int, ub: int, st: int, guard: str = "bge", back: str = "blt") -> str:
    """the block structure convert-riscv-scf-to-riscv-cf produces for a loop, with constant bounds"""
    T = "!riscv.reg"
    return (f"builtin.module {{\n  riscv_func.func @f(%x : {T}, %y : {T}) -> ({T}) {{\n"
            f"    %lb = rv32.li {lb} : {T}\n    %ub = rv32.li {ub} : {T}\n    %st = rv32.li {st} : {T}\n"
            f"    %iv0 = riscv.mv %lb : ({T}) -> {T}\n"
            f"    riscv_cf.{guard} %iv0 : {T}, %ub : {T}, ^end(%iv0 : {T}, %x : {T}), ^body(%iv0 : {T}, %x : {T})\n"
            f"  ^body(%i : {T}, %acc : {T}):\n    riscv.label \"body\"\n"
            f"    %acc2 = riscv.add %acc, %y : ({T}, {T}) -> {T}\n    %acc3 = riscv.xori %acc2, 5 : ({T}) -> {T}\n"
            f"    %i2 = riscv.add %i, %st : ({T}, {T}) -> {T}\n"
            f"    riscv_cf.{back} %i2 : {T}, %ub : {T}, ^body(%i2 : {T}, %acc3 : {T}), ^end(%i2 : {T}, %acc3 : {T})\n"
            f"  ^end(%ie : {T}, %r : {T}):\n    riscv.label \"end\"\n    riscv_func.return %r : {T}\n  }}\n}}\n")


def cf_cases(rng: Any, nrandom: int) -> list[dict[str, Any]]:
    """every conditional branch × every boundary pair (both li), plus the other constant shapes,
    allocated variants, half-constant and register-only branches, constant loops"""
    out: list[dict[str, Any]] = []
    for op in BR_OPS:
        for a, b in BR_PAIRS:
            out.append({"leg": "A", "kind": "cf-branch", "op": op, "mlir": cf_branch_text(op, ("li", a), ("li", b), False)})
        for a, b in ((0, 0), (3, 3), (-1, -1), (0, 1), (1, 0), (-1, 0)):
            out.append({"leg": "A", "kind": "cf-branch", "op": op, "mlir": cf_branch_text(op, ("mv", a), ("li", b), True)})
            out.append({"leg": "A", "kind": "cf-branch", "op": op, "mlir": cf_branch_text(op, ("li", a), ("mv", b), False, same_args=True)})
        for v in (0, 1, -1):
            out.append({"leg": "A", "kind": "cf-branch", "op": op, "mlir": cf_branch_text(op, ("zero",), ("li", v), False)})
            out.append({"leg": "A", "kind": "cf-branch", "op": op, "mlir": cf_branch_text(op, ("li", v), ("zero",), True)})
        out.append({"leg": "A", "kind": "cf-branch", "op": op, "mlir": cf_branch_text(op, ("zero",), ("zero",), False)})
        out.append({"leg": "A", "kind": "cf-branch", "op": op, "mlir": cf_branch_text(op, ("arg", "x"), ("li", 3), False)})
        out.append({"leg": "A", "kind": "cf-branch", "op": op, "mlir": cf_branch_text(op, ("arg", "x"), ("arg", "x"), True)})
        out.append({"leg": "A", "kind": "cf-branch", "op": op, "mlir": cf_branch_text(op, ("arg", "x"), ("arg", "y"), False)})
    for lb, ub, st in ((0, 3, 1), (3, 3, 1), (0, 0, 1), (4, 2, 1), (1, 8, 3), (-2, 3, 2), (-1, -1, 1), (5, 6, 1), (2147483646, 2147483647, 1)):
        out.append({"leg": "A", "kind": "cf-loop", "op": "bge/blt", "mlir": cf_loop_text(lb, ub, st)})
    for guard, back in (("bgeu", "bltu"), ("beq", "bne")):
        for lb, ub in ((0, 3), (3, 3), (2, 5)):
            out.append({"leg": "A", "kind": "cf-loop", "op": f"{guard}/{back}", "mlir": cf_loop_text(lb, ub, 1, guard, back)})
    for _ in range(nrandom):
        op = rng.choice(BR_OPS)
        if rng.random() < 0.5:
            v = rng.choice([0, 1, -1, 7, 2147483647, -2147483648, rng.randint(-2**31, 2**31 - 1)])
            a, b = v, v + rng.choice([0, 0, 1, -1]) if abs(v) < 2**31 - 1 else v
        else:
            a, b = rng.randint(-2**31, 2**32 - 1), rng.randint(-2**31, 2**32 - 1)
        shape = lambda v: (rng.choice(["li", "li", "mv"]), v)  # noqa: E731
        out.append({"leg": "A", "kind": "cf-branch", "op": op, "mlir": cf_branch_text(op, shape(a), shape(b), rng.random() < 0.4, rng.random() < 0.2)})
    return out
