"""
C22 leg (A): RISC-V snippets for every canonicalization pattern, the xDSL adapter that runs the real
`canonicalize` pass / a single pattern on them and extracts the instruction list, and the oracle
(before/after on the independent RV32 machine of c22_rv + encodability of what was emitted).

A snippet is JSON:  {"args": [[name, reg|null]...], "ops": [op...], "ret": [name...], "alloc": bool}
  op = ["li", res, rd, imm] | ["zero", res] | ["mv", res, rd, src] | [R, res, rd, a, b]
     | [I, res, rd, a, imm] | [SH, res, rd, a, imm] | ["lw", res, rd, base, imm] | ["sw", base, val, imm]
  rd = null (unallocated `!riscv.reg`) or a register name.  "alloc": run the real register allocator
  first (the documented pipeline canonicalizes *after* allocation).
"""
from __future__ import annotations

from typing import Any

from props import c22_rv as rv

R_OPS = ["add", "sub", "mul", "and", "or", "xor", "sll", "srl", "sra", "slt", "sltu", "div", "divu", "rem", "remu"]
I_OPS = ["addi", "andi", "ori", "xori", "slti", "sltiu"]
SH_OPS = ["slli", "srli", "srai", "bclri", "bexti", "binvi", "bseti", "rori"]

B32 = [0, 1, -1, 2, -2, 3, 5, 7, 31, 32, 2047, 2048, -2047, -2048, -2049, 2049, 4095, 4096, -4096, 65535, 65536, 46341,
       (1 << 31) - 1, -(1 << 31), -(1 << 31) + 1, (1 << 30), 0x55555555, -0x55555556, 0x7FFFF800, 0x7FFFF7FF,
       (1 << 32) - 1, (1 << 31), (1 << 32) - 2048, (1 << 32) - 2049]
B12 = [0, 1, -1, 2, 3, 7, 8, 12, 255, 1024, 2040, 2044, 2047, -2048, -2047, -1024, -8, -4]
B5 = [0, 1, 2, 5, 15, 16, 30, 31]


def ty(rd: str | None) -> str:
    return "!riscv.reg" if rd is None else f"!riscv.reg<{rd}>"


def snip_text(s: dict[str, Any]) -> str:
    types: dict[str, str] = {}
    hdr = []
    for name, reg in s["args"]:
        types[name] = ty(reg)
        hdr.append(f"%{name} : {types[name]}")
    lines = []
    for op in s["ops"]:
        k = op[0]
        if k == "li":
            _, res, rd, imm = op
            types[res] = ty(rd)
            lines.append(f"  %{res} = rv32.li {imm} : {types[res]}")
        elif k == "zero":
            types[op[1]] = ty("zero")
            lines.append(f"  %{op[1]} = rv32.get_register : !riscv.reg<zero>")
        elif k == "mv":
            _, res, rd, src = op
            types[res] = ty(rd)
            lines.append(f"  %{res} = riscv.mv %{src} : ({types[src]}) -> {types[res]}")
        elif k in R_OPS:
            _, res, rd, a, b = op
            types[res] = ty(rd)
            lines.append(f"  %{res} = riscv.{k} %{a}, %{b} : ({types[a]}, {types[b]}) -> {types[res]}")
        elif k in I_OPS:
            _, res, rd, a, imm = op
            types[res] = ty(rd)
            lines.append(f"  %{res} = riscv.{k} %{a}, {imm} : ({types[a]}) -> {types[res]}")
        elif k in SH_OPS:
            _, res, rd, a, imm = op
            types[res] = ty(rd)
            lines.append(f"  %{res} = rv32.{k} %{a}, {imm} : ({types[a]}) -> {types[res]}")
        elif k == "lw":
            _, res, rd, a, imm = op
            types[res] = ty(rd)
            lines.append(f"  %{res} = riscv.lw %{a}, {imm} : ({types[a]}) -> {types[res]}")
        elif k == "sw":
            _, a, b, imm = op
            lines.append(f"  riscv.sw %{a}, %{b}, {imm} : ({types[a]}, {types[b]}) -> ()")
        else:
            raise ValueError(f"bad snippet op {op}")
    rets = ", ".join("%" + r for r in s["ret"])
    rtys = ", ".join(types[r] for r in s["ret"])
    return ("builtin.module {\n  riscv_func.func @f(" + ", ".join(hdr) + ") -> (" + rtys + ") {\n"
            + "\n".join("  " + l for l in lines) + f"\n    riscv_func.return {rets} : {rtys}\n  }}\n}}\n")


# ------------------------------------------------------------------------------------------------
# xDSL adapter
# ------------------------------------------------------------------------------------------------

def parse(text: str) -> Any:
    from xdsl.context import Context
    from xdsl.dialects import builtin, riscv, riscv_cf, riscv_func, rv32
    from xdsl.parser import Parser

    ctx = Context()
    for d in (builtin.Builtin, riscv.RISCV, riscv_func.RISCV_Func, rv32.RV32, riscv_cf.RISCV_Cf):
        ctx.load_dialect(d)
    m = Parser(ctx, text).parse_module()
    m.verify()
    return m


def the_func(m: Any) -> Any:
    from xdsl.dialects import riscv_func

    return next(o for o in m.walk() if isinstance(o, riscv_func.FuncOp))


class Namer:
    def __init__(self) -> None:
        self.ids: dict[int, str] = {}
        self.keep: list[Any] = []
        self.n = 0

    def reg(self, v: Any) -> str:
        t = v.type
        name = t.register_name.data if hasattr(t, "register_name") else ""
        if name:
            return name
        k = id(v)
        if k not in self.ids:
            self.ids[k] = f"v{self.n}"
            self.n += 1
            self.keep.append(v)
        return self.ids[k]


def extract(func: Any, namer: Namer | None = None) -> tuple[list[tuple[str, list[Any]]], list[str], list[str]]:
    """straight-line function body → (program, argument registers, returned registers).  Unallocated
    values become virtual registers v0, v1… (one per SSA value)."""
    from xdsl.dialects import riscv, riscv_func
    from xdsl.dialects.builtin import IntegerAttr
    from xdsl.dialects.riscv.abstract_ops import GetAnyRegisterOperation
    from xdsl.ir import SSAValue

    nm = namer or Namer()
    blk = func.body.blocks.first
    argr = [nm.reg(a) for a in blk.args]
    prog: list[tuple[str, list[Any]]] = []
    rets: list[str] = []
    for op in blk.ops:
        if isinstance(op, riscv_func.ReturnOp):
            rets = [nm.reg(v) for v in op.operands]
            continue
        if isinstance(op, riscv.LwOp):
            prog.append(("lw", [nm.reg(op.rd), nm.reg(op.rs1), _imm(op.immediate)]))
            continue
        if isinstance(op, riscv.SwOp):
            prog.append(("sw", [nm.reg(op.rs2), nm.reg(op.rs1), _imm(op.immediate)]))
            continue
        if isinstance(op, riscv.RISCVInstruction):
            args: list[Any] = []
            for a in op.assembly_line_args():
                if a is None:
                    continue
                if isinstance(a, SSAValue):
                    args.append(nm.reg(a))
                elif isinstance(a, IntegerAttr):
                    args.append(a.value.data)
                else:
                    args.append("?" + str(a))
            prog.append((op.assembly_instruction_name(), args))
            continue
        if isinstance(op, GetAnyRegisterOperation):
            continue  # no instruction: names a register
        prog.append(("?" + op.name, []))
    return prog, argr, rets


def _imm(a: Any) -> Any:
    from xdsl.dialects.builtin import IntegerAttr

    return a.value.data if isinstance(a, IntegerAttr) else "?" + str(a)


def allocate(m: Any) -> None:
    from xdsl.context import Context
    from xdsl.transforms.riscv_allocate_registers import RISCVAllocateRegistersPass

    RISCVAllocateRegistersPass().apply(Context(), m)


def canonicalize(m: Any) -> None:
    from xdsl.context import Context
    from xdsl.transforms.canonicalize import CanonicalizePass

    CanonicalizePass().apply(Context(), m)


def pattern_instances() -> dict[str, Any]:
    """every RewritePattern of canonicalization_patterns/riscv.py that has an integer RV32 reading,
    instantiated the way the dialect's traits instantiate it"""
    from xdsl.dialects import rv32
    from xdsl.transforms.canonicalization_patterns import riscv as cp

    out: dict[str, Any] = {}
    for name in INT_PATTERNS:
        cls = getattr(cp, name)
        if name == "ShiftbyZero":
            out[name] = cls(rv32.RV32RdRsImmShiftOperation)
        elif name == "ShiftConstantFolding":
            out[name] = cls(rv32.LiOp, rv32.RV32RdRsImmShiftOperation)
        else:
            out[name] = cls()
    return out


INT_PATTERNS = [
    "RemoveRedundantMv", "MultiplyImmediates", "DivideByOneIdentity", "AddImmediates", "AddImmediateZero",
    "AddImmediateConstant", "SubImmediates", "SubBySelf", "SubAddi", "AndiImmediate", "AndiZero", "OriImmediate",
    "OriImmediateZero", "XoriZero", "XoriSelfInverse", "XoriOfXori", "XoriImmediate", "ShiftbyZero",
    "ShiftConstantFolding", "LoadWordWithKnownOffset", "StoreWordWithKnownOffset",
    "AdditionOfSameVariablesToMultiplyByTwo", "BitwiseAndByZero", "BitwiseAndBySelf", "BitwiseOrByZero",
    "BitwiseOrBySelf", "XorBySelf", "BitwiseXorByZero", "LoadImmediate0",
]
# not covered by the integer machine (stated in META.level_note): RemoveRedundantFMv, RemoveRedundantFMvD,
# Load/Store{FloatWord,Double}WithKnownOffset, FuseMultiplyAddD, ScfgwOpUsingImmediate (snitch)
OTHER_PATTERNS = ["RemoveRedundantFMv", "RemoveRedundantFMvD", "LoadFloatWordWithKnownOffset",
                  "StoreFloatWordWithKnownOffset", "LoadDoubleWithKnownOffset", "StoreDoubleWithKnownOffset",
                  "FuseMultiplyAddD", "ScfgwOpUsingImmediate"]


def apply_single(m: Any, pattern: Any) -> bool:
    from xdsl.pattern_rewriter import PatternRewriteWalker

    return PatternRewriteWalker(pattern, apply_recursively=False).rewrite_module(m)


# ------------------------------------------------------------------------------------------------
# generators: for each pattern a list of snippet templates (functions of rng → snippet)
# ------------------------------------------------------------------------------------------------

class Gen:
    def __init__(self, rng: Any):
        self.rng = rng

    def c32(self) -> int:
        r = self.rng.random()
        if r < 0.7:
            return self.rng.choice(B32)
        if r < 0.85:
            return self.rng.randint(-3000, 3000)
        return self.rng.randint(-(1 << 31), (1 << 32) - 1)

    def c12(self) -> int:
        return self.rng.choice(B12) if self.rng.random() < 0.7 else self.rng.randint(-2048, 2047)

    def c5(self) -> int:
        return self.rng.choice(B5) if self.rng.random() < 0.6 else self.rng.randint(0, 31)

    def const(self, ops: list[Any], name: str, v: int) -> str:
        """a constant operand in one of the shapes get_constant_value looks through"""
        r = self.rng.random()
        if v == 0 and r < 0.3:
            ops.append(["zero", name])
        elif r < 0.75:
            ops.append(["li", name, None, v])
        else:
            ops.append(["li", name + "_", None, v])
            ops.append(["mv", name, None, name + "_"])
        return name

    def wrap(self, ops: list[Any], res: list[str], nargs: int = 2, alloc: bool | None = None, target: str = "r") -> dict[str, Any]:
        """function around `ops`: arguments a, b (moved into fresh values x, y when allocating so that
        the allocator is free to reuse their registers), results moved to a0/a1"""
        alloc = self.rng.random() < 0.5 if alloc is None else alloc
        names = ["x", "y", "z"][:nargs]
        if alloc:
            args = [[f"arg{i}", f"a{i}"] for i in range(nargs)]
            pre = [["mv", n, None, f"arg{i}"] for i, n in enumerate(names)]
            post = []
            rets = []
            for i, r in enumerate(res[:2]):
                post.append(["mv", f"ret{i}", f"a{i}", r])
                rets.append(f"ret{i}")
            return {"args": args, "ops": pre + ops + post, "ret": rets, "alloc": True, "target": target}
        return {"args": [[n, None] for n in names], "ops": ops, "ret": res[:2], "alloc": False, "target": target}


def gen_for(pattern: str, g: Gen) -> dict[str, Any]:
    rng = g.rng
    ops: list[Any] = []
    c = g.c32
    if pattern == "RemoveRedundantMv":
        k = rng.randrange(3)
        if k == 0:
            return {"args": [["x", "a0"], ["y", "a1"]], "ops": [["mv", "m", "a0", "x"], ["add", "r", "a0", "m", "y"]], "ret": ["r"], "alloc": False, "target": "m"}
        if k == 1:
            return {"args": [["x", "a0"], ["y", "a1"]], "ops": [["mv", "m", "a0", "y"], ["add", "r", "a0", "m", "y"]], "ret": ["r"], "alloc": False, "target": "m"}
        return {"args": [["x", "a0"], ["y", "a1"]], "ops": [["mv", "m", "t0", "x"], ["mv", "n", "t0", "m"], ["add", "r", "a0", "n", "y"]], "ret": ["r"], "alloc": False, "target": "n"}
    if pattern in ("MultiplyImmediates", "AddImmediates", "SubImmediates", "DivideByOneIdentity",
                   "BitwiseAndByZero", "BitwiseOrByZero", "BitwiseXorByZero"):
        opn = {"MultiplyImmediates": "mul", "AddImmediates": "add", "SubImmediates": "sub", "DivideByOneIdentity": "div",
               "BitwiseAndByZero": "and", "BitwiseOrByZero": "or", "BitwiseXorByZero": "xor"}[pattern]
        shape = rng.choice(["xc", "cx", "cc"])
        special = {"mul": [0, 1, 2, -1], "div": [1, 1, -1, 0], "and": [0, 0, -1], "or": [0, 0, -1], "xor": [0, 0, -1]}.get(opn)

        def pickc() -> int:
            if special and rng.random() < 0.6:
                return rng.choice(special)
            return c()
        a = "x" if shape[0] == "x" else g.const(ops, "c1", pickc())
        b = "y" if shape[1] == "x" else g.const(ops, "c2", pickc())
        ops.append([opn, "r", None, a, b])
        return g.wrap(ops, ["r"])
    if pattern == "AddImmediateZero":
        ops.append(["addi", "r", None, "x", 0])
        return g.wrap(ops, ["r"])
    if pattern in ("AddImmediateConstant", "AndiImmediate", "OriImmediate", "XoriImmediate"):
        opn = {"AddImmediateConstant": "addi", "AndiImmediate": "andi", "OriImmediate": "ori", "XoriImmediate": "xori"}[pattern]
        a = g.const(ops, "c1", c())
        ops.append([opn, "r", None, a, g.c12()])
        return g.wrap(ops, ["r"])
    if pattern in ("AndiZero", "OriImmediateZero", "XoriZero"):
        opn = {"AndiZero": "andi", "OriImmediateZero": "ori", "XoriZero": "xori"}[pattern]
        ops.append([opn, "r", None, "x", 0])
        return g.wrap(ops, ["r"])
    if pattern in ("SubBySelf", "BitwiseAndBySelf", "BitwiseOrBySelf", "XorBySelf", "AdditionOfSameVariablesToMultiplyByTwo"):
        opn = {"SubBySelf": "sub", "BitwiseAndBySelf": "and", "BitwiseOrBySelf": "or", "XorBySelf": "xor",
               "AdditionOfSameVariablesToMultiplyByTwo": "add"}[pattern]
        if rng.random() < 0.3:
            a = g.const(ops, "c1", c())
        else:
            a = "x"
        ops.append([opn, "r", None, a, a])
        return g.wrap(ops, ["r"])
    if pattern == "SubAddi":
        ops.append(["addi", "p", None, "x", g.c12()])
        if rng.random() < 0.5:
            ops.append(["add", "q", None, "p", "y"])  # keep the addi alive / put work in between
            ops.append(["sub", "r", None, "p", "x"])
            return g.wrap(ops, ["r", "q"])
        ops.append(["sub", "r", None, "p", "x"])
        return g.wrap(ops, ["r"])
    if pattern in ("XoriSelfInverse", "XoriOfXori"):
        i1 = g.c12()
        i2 = i1 if pattern == "XoriSelfInverse" else g.c12()
        ops.append(["xori", "p", None, "x", i1])
        k = rng.randrange(3)
        if k == 0:
            ops.append(["xori", "r", None, "p", i2])
            return g.wrap(ops, ["r"])
        if k == 1:  # inner result has a second use
            ops.append(["xori", "r", None, "p", i2])
            return g.wrap(ops, ["r", "p"])
        # work between the two xoris (after allocation the register of x may be reused there)
        ops.append(["add", "q", None, "p", "y"])
        ops.append(["mul", "q2", None, "q", "q"])
        ops.append(["xori", "r", None, "p", i2])
        ops.append(["add", "r2", None, "r", "q2"])
        return g.wrap(ops, ["r2"])
    if pattern == "ShiftbyZero":
        ops.append([rng.choice(SH_OPS), "r", None, "x", 0])
        return g.wrap(ops, ["r"])
    if pattern == "ShiftConstantFolding":
        a = g.const(ops, "c1", c())
        ops.append([rng.choice(SH_OPS), "r", None, a, g.c5()])
        return g.wrap(ops, ["r"])
    if pattern in ("LoadWordWithKnownOffset", "StoreWordWithKnownOffset"):
        # keep addresses aligned: base argument is a multiple of 4 (chosen by the input generator)
        o1 = rng.choice([0, 4, 8, -4, 12, 1024, 2044, -2048, 2040, 16])
        o2 = rng.choice([0, 4, 8, -4, 12, 1024, 2044, -2048, 4, 16])
        ops.append(["addi", "p", None, "x", o1])
        k = rng.randrange(3)
        if pattern == "LoadWordWithKnownOffset":
            if k == 2:
                ops.append(["add", "q", None, "p", "y"])
            ops.append(["lw", "r", None, "p", o2])
            res = ["r"] + (["q"] if k == 2 else ["p"] if k == 1 else [])
            s = g.wrap(ops, res)
        else:
            if k == 2:
                ops.append(["add", "q", None, "p", "y"])
            ops.append(["sw", "p", "y", o2])
            res = ["q"] if k == 2 else ["p"] if k == 1 else ["y"]
            s = g.wrap(ops, res, target="#sw")
        s["mem"] = True
        return s
    if pattern == "LoadImmediate0":
        if rng.random() < 0.3:
            return {"args": [["x", None]], "ops": [["li", "c", "zero", 0], ["add", "r", None, "x", "c"]], "ret": ["r"], "alloc": False, "target": "c"}
        ops.append(["li", "c", None, 0])
        ops.append(["add", "r", None, "x", "c"]) if rng.random() < 0.5 else ops.append(["mv", "r", None, "c"])
        return g.wrap(ops, ["r"], target="c")
    raise ValueError(pattern)


def gen_mixed(g: Gen) -> dict[str, Any]:
    """a short random dataflow snippet mixing all op kinds with constant operands (interaction of
    several patterns + folding + DCE inside one canonicalize run)"""
    rng = g.rng
    ops: list[Any] = []
    pool = ["x", "y"]
    n = rng.randint(2, 6)
    for i in range(n):
        r = rng.random()
        res = f"t{i}"
        if r < 0.25:
            ops.append(["li", res, None, g.c32()])
        elif r < 0.6:
            k = rng.choice(["add", "sub", "mul", "and", "or", "xor", "add", "sub"])
            a, b = rng.choice(pool), rng.choice(pool)
            ops.append([k, res, None, a, b])
        elif r < 0.85:
            k = rng.choice(["addi", "andi", "ori", "xori"])
            ops.append([k, res, None, rng.choice(pool), g.c12()])
        else:
            ops.append([rng.choice(SH_OPS[:3]), res, None, rng.choice(pool), g.c5()])
        pool.append(res)
    return g.wrap(ops, [pool[-1], rng.choice(pool)])


def directed() -> list[tuple[str, dict[str, Any]]]:
    """fixed minimal inputs that must be re-examined on every run (seeds of the known defects)"""
    def u(ops: list[Any], ret: list[str]) -> dict[str, Any]:
        return {"args": [["x", None], ["y", None]], "ops": ops, "ret": ret, "alloc": False, "target": "r"}
    out = [
        ("AddImmediates", u([["li", "c", None, 2048], ["add", "r", None, "x", "c"]], ["r"])),
        ("AddImmediates", u([["li", "c", None, -2049], ["add", "r", None, "c", "x"]], ["r"])),
        ("AddImmediates", u([["li", "c", None, 2047], ["add", "r", None, "x", "c"]], ["r"])),
        ("AddImmediates", u([["li", "c", None, -2048], ["add", "r", None, "x", "c"]], ["r"])),
        ("AddImmediates", u([["li", "c", None, -(1 << 31)], ["li", "d", None, -1], ["add", "r", None, "c", "d"]], ["r"])),
        ("AddImmediates", u([["li", "c", None, (1 << 31) - 1], ["li", "d", None, 1], ["add", "r", None, "c", "d"]], ["r"])),
        ("SubImmediates", u([["li", "c", None, -2048], ["sub", "r", None, "x", "c"]], ["r"])),
        ("SubImmediates", u([["li", "c", None, 2048], ["sub", "r", None, "x", "c"]], ["r"])),
        ("SubImmediates", u([["li", "c", None, 2049], ["sub", "r", None, "x", "c"]], ["r"])),
        ("SubImmediates", u([["li", "c", None, -(1 << 31)], ["li", "d", None, 1], ["sub", "r", None, "c", "d"]], ["r"])),
        ("MultiplyImmediates", u([["li", "c", None, 65536], ["li", "d", None, 65536], ["mul", "r", None, "c", "d"]], ["r"])),
        ("MultiplyImmediates", u([["li", "c", None, 46341], ["li", "d", None, 46341], ["mul", "r", None, "c", "d"]], ["r"])),
        ("MultiplyImmediates", u([["li", "c", None, -(1 << 31)], ["li", "d", None, -1], ["mul", "r", None, "c", "d"]], ["r"])),
        ("AddImmediateConstant", u([["li", "c", None, -(1 << 31)], ["addi", "r", None, "c", -1]], ["r"])),
        ("AddImmediateConstant", u([["li", "c", None, (1 << 31) - 1], ["addi", "r", None, "c", 2047]], ["r"])),
        ("ShiftConstantFolding", u([["li", "c", None, 3], ["slli", "r", None, "c", 31]], ["r"])),
        ("ShiftConstantFolding", u([["li", "c", None, -3], ["slli", "r", None, "c", 31]], ["r"])),
        ("ShiftConstantFolding", u([["li", "c", None, -1], ["binvi", "r", None, "c", 31]], ["r"])),
        ("ShiftConstantFolding", u([["li", "c", None, -1], ["srli", "r", None, "c", 0]], ["r"])),
        ("ShiftConstantFolding", u([["li", "c", None, -8], ["srai", "r", None, "c", 1]], ["r"])),
        ("BitwiseAndByZero", u([["li", "c", None, 0], ["li", "d", None, 0], ["and", "r", None, "c", "d"]], ["r"])),
        ("BitwiseXorByZero", u([["li", "c", None, 0], ["li", "d", None, 0], ["xor", "r", None, "c", "d"]], ["r"])),
        ("LoadWordWithKnownOffset", dict(u([["addi", "p", None, "x", 2044], ["lw", "r", None, "p", 4]], ["r"]), mem=True)),
        ("StoreWordWithKnownOffset", dict(u([["addi", "p", None, "x", -2048], ["sw", "p", "y", -4]], ["y"]), mem=True, target="#sw")),
        ("AddImmediates", {"args": [["x", None]], "ops": [["li", "c", "zero", 5], ["add", "r", None, "x", "c"]], "ret": ["r"], "alloc": False, "target": "r"}),
        ("ShiftbyZero", u([["binvi", "r", None, "x", 0]], ["r"])),
        ("ShiftbyZero", u([["bclri", "r", None, "x", 0]], ["r"])),
        ("ShiftbyZero", u([["bseti", "r", None, "x", 0]], ["r"])),
        ("ShiftbyZero", u([["bexti", "r", None, "x", 0]], ["r"])),
        ("ShiftbyZero", u([["rori", "r", None, "x", 0]], ["r"])),
        ("AdditionOfSameVariablesToMultiplyByTwo",
         {"args": [["arg0", "a0"]], "ops": [["mv", "x", None, "arg0"], ["add", "r", None, "x", "x"], ["mv", "ret0", "a0", "r"]], "ret": ["ret0"], "alloc": True, "target": "r"}),
        ("XoriOfXori",
         {"args": [["arg0", "a0"], ["arg1", "a1"]],
          "ops": [["mv", "x", None, "arg0"], ["mv", "y", None, "arg1"], ["xori", "p", None, "x", 5], ["add", "q", None, "p", "y"],
                  ["mul", "q2", None, "q", "q"], ["xori", "r", None, "p", 3], ["add", "r2", None, "r", "q2"], ["mv", "ret0", "a0", "r2"]],
          "ret": ["ret0"], "alloc": True, "target": "r"}),
    ]
    # the unit / absorbing constants of every binary pattern, on either side, in the three shapes
    # get_constant_value looks through (li, mv of li, the zero register)
    table = {"mul": ("MultiplyImmediates", [0, 1, 2, -1]), "div": ("DivideByOneIdentity", [1, -1, 0]),
             "add": ("AddImmediates", [0, 1, -1]), "sub": ("SubImmediates", [0, 1, -2048, 2048]),
             "and": ("BitwiseAndByZero", [0, -1]), "or": ("BitwiseOrByZero", [0, -1]), "xor": ("BitwiseXorByZero", [0, -1])}
    for opn, (pat, consts) in table.items():
        for cv in consts:
            for side in (0, 1):
                for shape in ("li", "mv", "zero"):
                    if shape == "zero" and cv != 0:
                        continue
                    ops: list[Any] = []
                    if shape == "li":
                        ops.append(["li", "c", None, cv])
                    elif shape == "mv":
                        ops += [["li", "c_", None, cv], ["mv", "c", None, "c_"]]
                    else:
                        ops.append(["zero", "c"])
                    ops.append([opn, "r", None, "c", "x"] if side == 0 else [opn, "r", None, "x", "c"])
                    out.append((pat, u(ops, ["r"])))
    return out


# ------------------------------------------------------------------------------------------------
# oracle
# ------------------------------------------------------------------------------------------------

def input_vectors(rng: Any, argr: list[str], mem: bool, n: int) -> list[dict[str, int]]:
    vals = [0, 1, 2, 0xFFFFFFFF, 0x7FFFFFFF, 0x80000000, 2047, 2048, 0xFFFFF800, 0xFFFFF7FF, 31, 32, 0x55555555, 65536]
    out = []
    for i in range(n):
        d = {}
        for j, r in enumerate(argr):
            v = rng.choice(vals) if rng.random() < 0.5 else rng.getrandbits(32)
            if mem and j == 0:
                v = 0x20000000 + 4 * rng.randrange(0, 4096)
            d[r] = v
        out.append(d)
    return out


def run_prog(prog: list[tuple[str, list[Any]]], regs: dict[str, int], rets: list[str], mem_seed: int) -> tuple[Any, ...]:
    """observation = ("ok", returned registers, sorted stores) or ("trap", reason)"""
    m = rv.Machine(prog, regs, mem_seed)
    try:
        m.run_straight()
    except rv.Trap as e:
        return ("trap", str(e))
    return ("ok", [m.get(r) for r in rets], sorted(m.mem.items()))


# ------------------------------------------------------------------------------------------------
# riscv_cf: conditional branches with constant operands, block-structured programs
# ------------------------------------------------------------------------------------------------

BR_OPS = ["beq", "bne", "blt", "bge", "bltu", "bgeu"]
BR_PAIRS = [(0, 0), (1, 1), (-1, -1), (5, 5), (2147483647, 2147483647), (-2147483648, -2147483648), (2048, 2048),
            (0, 1), (1, 0), (-1, 0), (0, -1), (-1, 1), (1, -1), (2, 3), (3, 2), (-3, -2), (-2, -3),
            (-2147483648, 2147483647), (2147483647, -2147483648), (2147483648, 2147483647), (4294967295, 0), (0, 4294967295),
            (4294967295, -1), (2147483648, -2147483648), (-2147483648, 0), (2147483647, 0), (2047, 2048), (-2048, -2049)]


def _rt(reg: str | None) -> str:
    return "!riscv.reg" if reg is None else f"!riscv.reg<{reg}>"


def cf_branch_text(op: str, a: tuple[Any, ...], b: tuple[Any, ...], alloc: bool, same_args: bool = False) -> str:
    """`a`, `b`: ("li", v) | ("mv", v) | ("zero",) | ("arg", "x"|"y").  then → x ^ 111, else → y + 222
    (same value passed on both edges when `same_args`)."""
    R = (lambda n: _rt(n)) if alloc else (lambda n: _rt(None))
    tx, ty = R("a0"), R("a1")
    lines: list[str] = []
    names: list[tuple[str, str]] = []
    for k, (spec, treg, treg2) in enumerate(((a, "t0", "t2"), (b, "t1", "t3"))):
        nm = f"%p{k}"
        if spec[0] == "li":
            lines.append(f"    {nm} = rv32.li {spec[1]} : {R(treg)}")
            names.append((nm, R(treg)))
        elif spec[0] == "mv":
            lines.append(f"    {nm}_ = rv32.li {spec[1]} : {R(treg2)}")
            lines.append(f"    {nm} = riscv.mv {nm}_ : ({R(treg2)}) -> {R(treg)}")
            names.append((nm, R(treg)))
        elif spec[0] == "zero":
            lines.append(f"    {nm} = rv32.get_register : !riscv.reg<zero>")
            names.append((nm, "!riscv.reg<zero>"))
        else:
            names.append(("%" + spec[1], tx if spec[1] == "x" else ty))
    (p, pt), (q, qt) = names
    ea, eat = ("%x", tx) if same_args else ("%y", ty)
    tj = R("a0")
    body = "\n".join(lines)
    return (f"builtin.module {{\n  riscv_func.func @f(%x : {tx}, %y : {ty}) -> ({tj}) {{\n{body}\n"
            f"    riscv_cf.{op} {p} : {pt}, {q} : {qt}, ^then(%x : {tx}), ^else({ea} : {eat})\n"
            f"  ^else(%e : {eat}):\n    %r1 = riscv.addi %e, 222 : ({eat}) -> {tj}\n    riscv_cf.j ^join(%r1 : {tj})\n"
            f"  ^then(%t : {tx}):\n    riscv.label \"then\"\n    %r2 = riscv.xori %t, 111 : ({tx}) -> {tj}\n    riscv_cf.branch ^join(%r2 : {tj})\n"
            f"  ^join(%j : {tj}):\n    riscv.label \"join\"\n    riscv_func.return %j : {tj}\n  }}\n}}\n")


def cf_loop_text(lb: int, ub: int, st: int, guard: str = "bge", back: str = "blt") -> str:
    """the block structure convert-riscv-scf-to-riscv-cf produces for a loop, with constant bounds"""
    T = "!riscv.reg"
    return (f"builtin.module {{\n  riscv_func.func @f(%x : {T}, %y : {T}) -> ({T}) {{\n"
            f"    %lb = rv32.li {lb} : {T}\n    %ub = rv32.li {ub} : {T}\n    %st = rv32.li {st} : {T}\n"
            f"    %iv0 = riscv.mv %lb : ({T}) -> {T}\n"
            f"    riscv_cf.{guard} %iv0 : {T}, %ub : {T}, ^end(%iv0 : {T}, %x : {T}), ^body(%iv0 : {T}, %x : {T})\n"
            f"  ^body(%i : {T}, %acc : {T}):\n    riscv.label \"body\"\n"
            f"    %acc2 = riscv.add %acc, %y : ({T}, {T}) -> {T}\n    %acc3 = riscv.xori %acc2, 5 : ({T}) -> {T}\n"
            f"    %i2 = riscv.add %i, %st : ({T}, {T}) -> {T}\n"
            f"    riscv_cf.{back} %i2 : {T}, %ub : {T}, ^body(%i2 : {T}, %acc3 : {T}), ^end(%i2 : {T}, %acc3 : {T})\n"
            f"  ^end(%ie : {T}, %r : {T}):\n    riscv.label \"end\"\n    riscv_func.return %r : {T}\n  }}\n}}\n")


def cf_cases(rng: Any, nrandom: int) -> list[dict[str, Any]]:
    """every conditional branch × every boundary pair (both li), plus the other constant shapes,
    allocated variants, half-constant and register-only branches, constant loops"""
    out: list[dict[str, Any]] = []
    for op in BR_OPS:
        for a, b in BR_PAIRS:
            out.append({"leg": "A", "kind": "cf-branch", "op": op, "mlir": cf_branch_text(op, ("li", a), ("li", b), False)})
        for a, b in ((0, 0), (3, 3), (-1, -1), (0, 1), (1, 0), (-1, 0)):
            out.append({"leg": "A", "kind": "cf-branch", "op": op, "mlir": cf_branch_text(op, ("mv", a), ("li", b), True)})
            out.append({"leg": "A", "kind": "cf-branch", "op": op, "mlir": cf_branch_text(op, ("li", a), ("mv", b), False, same_args=True)})
        for v in (0, 1, -1):
            out.append({"leg": "A", "kind": "cf-branch", "op": op, "mlir": cf_branch_text(op, ("zero",), ("li", v), False)})
            out.append({"leg": "A", "kind": "cf-branch", "op": op, "mlir": cf_branch_text(op, ("li", v), ("zero",), True)})
        out.append({"leg": "A", "kind": "cf-branch", "op": op, "mlir": cf_branch_text(op, ("zero",), ("zero",), False)})
        out.append({"leg": "A", "kind": "cf-branch", "op": op, "mlir": cf_branch_text(op, ("arg", "x"), ("li", 3), False)})
        out.append({"leg": "A", "kind": "cf-branch", "op": op, "mlir": cf_branch_text(op, ("arg", "x"), ("arg", "x"), True)})
        out.append({"leg": "A", "kind": "cf-branch", "op": op, "mlir": cf_branch_text(op, ("arg", "x"), ("arg", "y"), False)})
    for lb, ub, st in ((0, 3, 1), (3, 3, 1), (0, 0, 1), (4, 2, 1), (1, 8, 3), (-2, 3, 2), (-1, -1, 1), (5, 6, 1), (2147483646, 2147483647, 1)):
        out.append({"leg": "A", "kind": "cf-loop", "op": "bge/blt", "mlir": cf_loop_text(lb, ub, st)})
    for guard, back in (("bgeu", "bltu"), ("beq", "bne")):
        for lb, ub in ((0, 3), (3, 3), (2, 5)):
            out.append({"leg": "A", "kind": "cf-loop", "op": f"{guard}/{back}", "mlir": cf_loop_text(lb, ub, 1, guard, back)})
    for _ in range(nrandom):
        op = rng.choice(BR_OPS)
        if rng.random() < 0.5:
            v = rng.choice([0, 1, -1, 7, 2147483647, -2147483648, rng.randint(-2**31, 2**31 - 1)])
            a, b = v, v + rng.choice([0, 0, 1, -1]) if abs(v) < 2**31 - 1 else v
        else:
            a, b = rng.randint(-2**31, 2**32 - 1), rng.randint(-2**31, 2**32 - 1)
        shape = lambda v: (rng.choice(["li", "li", "mv"]), v)  # noqa: E731
        out.append({"leg": "A", "kind": "cf-branch", "op": op, "mlir": cf_branch_text(op, shape(a), shape(b), rng.random() < 0.4, rng.random() < 0.2)})
    return out
