"""C07 — parsing any text terminates promptly and fails only with diagnostics (partial by design)."""
from __future__ import annotations

import glob
import hashlib
import os
import pickle
import re
import select
import signal
import struct
import sys
import tempfile
import time
from collections import Counter
from typing import Any

from vp import core

META = {
    "title": "Parsing any text terminates promptly and fails only with diagnostics",
    "category": "proof",
    "design_ref": "DESIGN.md §5 C07",
    "lean_modules": ["XdslProofs.C07", "XdslProofs.C07Scan", "XdslProofs.C07SsaNames", "XdslProofs.C07Names"],
    "text": (
        "PARTIAL (by design, DESIGN.md §5 C07). Proved in Lean for the model of MLIRLexer (xdsl/utils/mlir_lexer.py "
        "with the C07 repairs; every token regex hand-transcribed as a total matcher on code points that carry CPython's "
        "isalpha/isnumeric/isspace bits; STRING_LIT/BYTES_LIT decided by strict UTF-8 validity of the unescaped bytes): lex_progress — every token of every input consumes >= 1 code point, lies inside "
        "the text, tokens are ordered and disjoint; lex_steps_le — the model's own count of code-point reads over the whole "
        "run is <= 14n+7; lex_total / lexE_cases / lex_error_span — the token loop ends within n+1 calls with either an "
        "EOF-terminated stream or one of the six lexer ParseErrors whose span is non-empty and inside the text; "
        "lex_ignores_numeric_space — no decision depends on isnumeric/isspace (numbers start at ASCII digits only). The "
        "model is tied to /repo on every run by differential lexing (token kinds and spans, or error id and span) of "
        "mutated corpus chunks, token soups, short random strings and every code point's class membership. Also proved, for the "
        "model of AttrParser._raw_scan_balanced (the raw character scan over the body of an unregistered dialect attribute / "
        "type, which bypasses the lexer; bracket stack + string skipping as one structurally recursive function): "
        "scan_steps_le — the two loops together iterate at most once per code point after the start position, plus one; "
        "scan_ok_steps — a successful scan never reads past the `>` it returns; scan_cases — the outcome is the position of a "
        "`>` inside the text at or after the start, or one of the function's three ParseErrors, whose position lies inside the "
        "text at the offending closer / opening quote. Tied to /repo by calling the real function on generated bodies "
        "(result, error kind, position). And for the model of the parser's SSA-name table (Parser.resolve_operand, "
        "_register_ssa_definition, the value scope of regions, the final 'values used but not defined' test; every Python "
        "subscript carries an explicit `internal` outcome for the missing key): run_no_internal / run_cases — from any table "
        "state no sequence of uses, definitions and region boundaries reaches a KeyError / IndexError, a parse ends with "
        "`done` or one of six ParseErrors; resolve_forward_again, resolve_keeps_forward — forward references `%x#i`, `%x#j` "
        "of an undefined name are all kept and answered with the same placeholders; define_clears_forward. Tied to /repo "
        "by generated modules of generic operations, regions and block arguments: IR / which ParseError of parse_module "
        "against the model on the module's event sequence. And for the model of the name hints the parser gives to values and "
        "blocks (IRWithName.is_valid_name / extract_valid_name / the name_hint setter with its ValueError as an explicit "
        "outcome, Block.is_default_block_name, the guarded setter calls of _register_ssa_definition, _parse_block, "
        "_get_block_from_name, parse_optional_successor): valueHint_no_error / blockHint_no_error — no identifier reaches the "
        "ValueError; stripped_prefix, stripped_valid_or_empty — the stored hint is the name without trailing `_<digits>` "
        "groups, empty or again a valid name. Tied to /repo by parsing every identifier shape as a result name, a block label "
        "and a forward-referenced block label and comparing the name_hint of the parsed object. NOT proved, "
        "explored only (failing-input search): the parser proper with all ~80 dialects registered (parse_module / "
        "parse_attribute / parse_type, allow_unregistered both ways) must end with IR, ParseError or a "
        "DiagnosticException (VerifyException, ...), within a CPU budget scaled to the input length, and growth families "
        "(unterminated literals — also inside unregistered dialect attribute bodies —, nesting, long numbers/identifiers; numbers just "
        "beyond CPython's int <-> str digit limit are a deterministic family of their own, independent of the growth ladder, "
        "many ops/regions/attributes) must not grow "
        "super-linearly. Every other exception class, budget overrun, uninterruptible hang or super-linear family is a "
        "failing input, shrunk by delta debugging and keyed by (function that raised, exception class)."
    ),
    "technique": "Lean 4 proofs on a hand model of the lexer + differential lexing; mutational/generative fuzzing of the whole parser in a forked sandbox with CPU-time budget, watchdog and growth-ratio timing",
    "level_note": (
        "Partial claim. Trusted/not verified: CPython's `re` engine (the repaired regexes are deterministic; linear wall "
        "time is only measured), every dialect's custom parser, printing of diagnostics beyond 'str(e) does not raise'. "
        "Allowed outcomes of a parse: IR, xdsl.utils.exceptions.ParseError (incl. MultipleSpansParseError) whose str() "
        "renders, any DiagnosticException (VerifyException etc. — what xdsl-opt reports as a diagnostic). Everything else "
        "that leaves Parser.parse_module/parse_attribute/parse_type counts as an internal error (the statement's list is "
        "'such as'): ValueError, KeyError, IndexError, AssertionError, TypeError, AttributeError, NotImplementedError, "
        "PyRDL*/InvalidIRException/BuilderNotFoundException/UnregisteredConstructException, MemoryError... "
        "RecursionError is counted only when the bracket nesting depth of the input is < 25 (deeper nesting exhausting "
        "the Python stack of a recursive-descent parser is treated as outside the statement; measured thresholds are in "
        "the evidence). Inputs containing lone surrogates are not 'text' (cannot be read from a file): they are still "
        "fuzzed, but a UnicodeEncodeError on them is not counted. Operation verification (module.verify()) is not run: "
        "only diagnostics raised while parsing are in scope. Time: CPU time of the parse (ITIMER_VIRTUAL) against a "
        "budget of 2 s + 0.5 ms per character — two to three orders of magnitude above the normal rate — plus a "
        "wall-clock watchdog for code stuck inside C (regex); growth-family members shorter than 1000 characters run under "
        "this same guard (an exponential matcher shows there at 25-30 characters), larger ones flag only ratio > 4x linear over a 16x size "
        "span with the larger run > 0.5 s CPU and slower than 10 us/char overall, re-measured twice. "
        "The parser is run in one long-lived process (one Context per allow_unregistered value, for a part of the "
        "parses a clone of it per parse). A failure that does not reproduce in a fresh process is searched for in the "
        "history of that process: when a fresh process that first parses some of the earlier texts and then the input "
        "fails in the same way, the history (usually one earlier text + the input) is the failing input and is reported "
        "like any other; only failures that cannot be reproduced from the history are left in the evidence. A parse that "
        "ends with IR after one history and with a diagnostic after another is recorded in the evidence only (both are "
        "outcomes the statement allows)."
    ),
    "rule": (
        "streams: (a) corpus chunks (tests/**/*.mlir split on '// -----', <= 6000 chars) mutated 1-4 times by "
        "insertion/deletion/replacement/duplication/truncation with grammar tokens, quotes, backslashes, brackets, "
        "non-ASCII digits/letters/combining marks, NUL, lone surrogates; (b) token soups drawn from the lexer's own "
        "token kinds (all punctuation spellings, identifier/literal samples), free or embedded in a generic op / after a "
        "registered custom-syntax op name / inside a dialect or builtin attribute or type; an SSA-reference family (operand uses rewritten to %x#k for k in {0, 1, arity-1, arity, "
        "arity+1, huge} where arity comes from the definition %x:n, also %x:0, %x#, %x#-1, %x#0x1, undefined and forward-referenced "
        "names with indices, changed result counts; applied to corpus chunks and, as a deterministic sweep, to every registered "
        "custom-syntax op name in small operand templates); a forward-reference family (small-scope enumeration over generic ops: a value of arity 1-3 used with every pair of "
        "tuple indices 0..arity before / around its definition — in one op, two ops, inside regions, never defined, defined "
        "twice, wrong type; the same pairs in two-operand templates of custom-syntax ops; uses of `%x#i, %x#j` inserted in "
        "front of definitions of corpus chunks; generated SSA-name programs — 1-4 names of arity 0-3, uses anywhere, "
        "definitions as results or block arguments, nested regions, sometimes a wrong index / type / second or missing "
        "definition — whose outcome is compared with the Lean model); a raw-scan family (bodies of unregistered dialect attributes / types in "
        "pretty and opaque syntax, as attribute, type, dictionary entry, result / argument / block-argument type: fixed and "
        "random balanced bodies with strings — half of them >= 32 characters —, escapes, `->`, nested brackets, each under 12 "
        "truncation-style edits: last / first / random quote deleted, last / random closer or opener deleted, the closing "
        "`>` deleted, closer inserted, closers swapped, backslash before the last quote, cut anywhere; corpus chunks with "
        "every dialect symbol renamed to an unregistered dialect and the last quote / bracket deleted; each text goes "
        "through the parser and through _raw_scan_balanced alone); a sigil family (one dialect symbol name — pretty, opaque, bare; unregistered and registered — "
        "as `#` attribute and as `!` type in both orders: in one module, in two parses with one Context, in two parses with "
        "a new Context each, through parse_attribute / parse_type; the same as a mutation of corpus chunks: a symbol of the "
        "chunk added under the other sigil); an identifier family (every string over {letter, digit, `_`, `$`, `.`, `-`} of "
        "length <= 3, quick: + 120 seeded of length 4, thorough: <= 4 + 1500 seeded of length 5, as result name, `:2` result, second result, block "
        "argument, second block argument, block label with / without arguments, forward successor, forward value use, "
        "function argument, `cf.br` successor, `scf.for` induction variable, symbol name; one module with all positions, "
        "each position alone when that module is rejected; name_hint compared with the Lean model); a literal family (23 "
        "element types x 41 literals x 12 dense / array / sparse / typed-literal forms, affine `a op b` over constants incl. "
        "0, dimensions, symbols in maps and sets; quick: a seeded twentieth covering every type, literal and form); a digit-run family (digit strings at the "
        "interpreter's int <-> str conversion limit L = sys.get_int_max_str_digits(), 4300 unless configured: L nines (still converts), then L+1 "
        "nines, 1 followed by L zeros, L+1 zeros in front of 8, L+1 zeros, 2L+4 digits; in ~100 number positions of the grammar -- the width in "
        "i<N> / si<N> / ui<N> alone and as element / result / argument / attribute type, f<N>, shape dimensions, strides, offsets, memory spaces, "
        "plain / negative / typed / float / exponent / hexadecimal literals, dense / array / sparse elements, affine constants and d<N> / s<N>, "
        "locations, %<N>, %x#<N>, %x:<N>, ^<N>, numeric suffixes of value / block / alias / symbol / attribute names, dialect resources, llvm "
        "array / pointer types, arith.constant, affine.for bounds and steps --; as the only parameter of every registered dialect attribute / "
        "type name (quick: a seeded 150); and as a mutation: one ASCII digit run of a corpus chunk, whatever it means there, respelled with "
        "more than L digits -- old digits + filler, or leading zeros in front; quick: 150 chunks + a fifteenth of the fuzz iterations); a deterministic sweep of every "
        "registered custom-syntax op name and attribute/type name through small templates; (c) short random strings over "
        "a lexer-focused alphabet (lexer correspondence only); (d) growth families at doubling sizes. Non-trivial = the "
        "text is not a verbatim corpus chunk and lexes to >= 5 tokens (or ends in a lexer error after >= 2 tokens); "
        "distinct = distinct (entry point, text)."
    ),
    "trusted_base": [
        "harness/props/c07.py (sandboxed differential lexing + outcome classification)",
        "hand-written Lean model XdslModel/Lexer.lean of xdsl/utils/mlir_lexer.py (tied by correspondence only)",
        "hand-written Lean model XdslModel/RawScan.lean of AttrParser._raw_scan_balanced (tied by correspondence only)",
        "hand-written Lean model XdslModel/SsaNames.lean of Parser.resolve_operand / _register_ssa_definition (tied by correspondence only)",
        "hand-written Lean model XdslModel/ValueNames.lean of IRWithName.is_valid_name / extract_valid_name and the parser's guarded name_hint assignments (tied by correspondence only)",
        "CPython `re` semantics of the lexer's regular expressions (character classes compared for every code point in thorough)",
    ],
    "assumptions": [
        "CPython's re engine matches the repaired (deterministic) token regexes in time linear in the match length; measured, not proved",
        "text = sequence of Unicode scalar values; lone surrogates excluded",
    ],
    "budget": {"quick": 72, "thorough": 1100},
    "hard_timeout": {"quick": 1500, "thorough": 7200},
}

REC_DEPTH_LIMIT = 25
CPU_BASE, CPU_PER_CHAR = 2.0, 0.0005
SMALL_TEXT = 1000   # characters


# =============================================================================================
# sandbox: a forked child of this (pristine) process runs the real lexer / parser
# =============================================================================================

class _Budget(BaseException):
    pass


_CTX: dict[bool, Any] = {}
_NAMES: dict[str, list[str]] = {}


def preload() -> None:
    """Import xDSL and load every registered dialect in *this* process (which never parses itself)."""
    if _CTX:
        return
    from xdsl.context import Context
    from xdsl.dialects import get_all_dialects
    from xdsl.ir import Operation, TypeAttribute

    for allow in (False, True):
        c = Context(allow_unregistered=allow)
        for n, f in get_all_dialects().items():
            c.register_dialect(n, f)
        for n in list(c.registered_dialect_names):
            c.load_registered_dialect(n)
        _CTX[allow] = c
    c = _CTX[False]
    ops = sorted(o.name for o in c.loaded_ops)
    custom = sorted(o.name for o in c.loaded_ops if getattr(o.parse, "__func__", None) is not Operation.parse.__func__)
    attrs = sorted(a.name for a in c.loaded_attrs if not issubclass(a, TypeAttribute))
    types = sorted(a.name for a in c.loaded_types)
    _NAMES.update(ops=ops, custom_ops=custom, attrs=attrs, types=types)
    # keep the collector of forked children away from the (large, shared) preloaded heap: copy-on-write faults
    # of a first full collection cost seconds of system time per child on a loaded machine
    import gc

    gc.collect()
    gc.freeze()


def _xdsl_root() -> str:
    import xdsl

    return os.path.dirname(os.path.abspath(xdsl.__file__)) + os.sep


def _site_of(exc: BaseException) -> tuple[str, int]:
    """dotted path of the deepest xdsl function on the traceback (the function that raised, or the
    xdsl function that called the builtin / stdlib code that raised)"""
    root = _xdsl_root()
    tb = exc.__traceback__
    best = ("<outside xdsl>", 0)
    while tb is not None:
        code = tb.tb_frame.f_code
        if os.path.abspath(code.co_filename).startswith(root):
            best = (tb.tb_frame.f_globals.get("__name__", "?") + "." + code.co_qualname, tb.tb_lineno)
        tb = tb.tb_next
    return best


_MSG_IDS = [
    ("Expected three consecutive", "ellipsis"), ("Unexpected end of file after @", "eof-after-at"),
    ("@ identifier expected", "at-expected"), ("Expected suffix identifier", "suffix-expected"),
    ("End of file reached before closing", "unterminated-string"), ("Unexpected character", "unexpected-character"),
]


def _lex_line(text: str) -> str:
    from xdsl.utils.exceptions import ParseError
    from xdsl.utils.lexer import Input
    from xdsl.utils.mlir_lexer import MLIRLexer, MLIRTokenKind

    lx = MLIRLexer(Input(text, "<fuzz>"))
    out = ["toks"]
    while True:
        try:
            t = lx.lex()
        except ParseError as e:
            str(e)
            mid = next((m for p, m in _MSG_IDS if e.msg.startswith(p)), "other-message")
            out.append(f"ERR:{mid}:{e.span.start}:{e.span.end}")
            break
        out.append(f"{t.kind.name}:{t.span.start}:{t.span.end}")
        if t.kind == MLIRTokenKind.EOF:
            break
    return " ".join(out)


_SCAN_MSGS = [("Unterminated string literal in dialect symbol body", "unterminated"),
              ("Unexpected end of file in dialect symbol body", "eof")]


def _scan_line(text: str, pos: int) -> str:
    """`AttrParser._raw_scan_balanced(pos)` of the real code on `text`, as a line of the `raw_scan` model protocol"""
    from xdsl.parser import Parser
    from xdsl.utils.exceptions import ParseError

    try:
        parser = Parser(_CTX[True], text, "<fuzz>")
    except ParseError:
        return "skip"          # the first token of the text does not lex: nothing to scan from
    scan = getattr(parser, "_raw_scan_balanced", None)
    if scan is None:
        return "unavailable"
    try:
        r = scan(pos)
    except ParseError as e:
        str(e)
        m = e.msg
        if m.startswith("Unbalanced '") and len(m) > 12:
            return f"ERR:unbalanced:{ord(m[12])}:{e.span.start}"
        mid = next((i for p, i in _SCAN_MSGS if m.startswith(p)), None)
        if mid == "unterminated":
            return f"ERR:unterminated:{e.span.start}"
        return "ERR:eof" if mid == "eof" else "ERR:other-message"
    return f"ok {r}"


HINT_TEMPLATES = {
    "value": '%{N} = "test.op"() : () -> i32',
    "block": '"test.op"() ({{\n^{N}:\n  "test.op"() : () -> ()\n}}) : () -> ()',
    "successor": '"test.op"() ({{\n  "test.op"()[^{N}] : () -> ()\n^{N}:\n  "test.op"() : () -> ()\n}}) : () -> ()',
}


def _hint_line(name: str, which: str) -> str:
    """the `name_hint` the parser leaves on the value `%name` / the block `^name`, as a line of the `value_names`
    model protocol (`skip` when the text is not accepted: the name is not one identifier token)"""
    from xdsl.parser import Parser
    from xdsl.utils.exceptions import ParseError

    try:
        module = Parser(_CTX[True], HINT_TEMPLATES[which].format(N=name), "<fuzz>").parse_module()
    except ParseError:
        return "skip"
    op = module.body.block.first_op
    obj = op.results[0] if which == "value" else op.regions[0].blocks[-1]
    h = obj.name_hint
    return "none" if h is None else " ".join(["hint"] + [f"{ord(c):x}" for c in h])


def _do_job(job: dict) -> dict:
    from xdsl.parser import Parser
    from xdsl.utils.exceptions import DiagnosticException, ParseError

    text = job["text"]
    parser = None
    t0 = time.process_time()
    res: dict[str, Any]
    signal.setitimer(signal.ITIMER_VIRTUAL, job["cpu"])
    try:
        try:
            if job["kind"] == "lex":
                res = {"out": "ok", "lex": _lex_line(text)}
            elif job["kind"] == "scan":
                res = {"out": "ok", "scan": _scan_line(text, job["pos"])}
            elif job["kind"] == "hint":
                res = {"out": "ok", "hint": _hint_line(text, job["which"])}
            else:
                # `clone`: a new Context per parse (what a tool that handles several files in one process does);
                # what is left over from earlier parses is then process-wide state only
                pctx = _CTX[job["allow"]].clone() if job.get("clone") else _CTX[job["allow"]]
                parser = Parser(pctx, text, "<fuzz>")
                if job["entry"] == "module":
                    parser.parse_module()
                elif job["entry"] == "attr":
                    parser.parse_attribute()
                else:
                    parser.parse_type()
                res = {"out": "ok"}
        finally:
            signal.setitimer(signal.ITIMER_VIRTUAL, 0)
    except ParseError as e:
        try:
            str(e)
            res = {"out": "diag", "cls": type(e).__name__, "emsg": str(getattr(e, "msg", ""))[:160]}
        except BaseException as e2:  # noqa: BLE001
            site, line = _site_of(e2)
            res = {"out": "esc", "cls": type(e2).__name__, "site": site, "line": line,
                   "msg": "while rendering the ParseError: " + repr(e2)[:200]}
    except DiagnosticException as e:
        res = {"out": "diag", "cls": type(e).__name__}
    except _Budget as e:
        site, line = _site_of(e)
        res = {"out": "budget", "cls": "CpuBudget", "site": site, "line": line, "msg": f"cpu budget {job['cpu']:.2f}s exceeded"}
    except RecursionError as e:
        site, line = _site_of(e)
        res = {"out": "recursion", "cls": "RecursionError", "site": site, "line": line, "msg": ""}
    except BaseException as e:  # noqa: BLE001
        site, line = _site_of(e)
        res = {"out": "esc", "cls": type(e).__name__, "site": site, "line": line, "msg": repr(e)[:240]}
    res["cpu"] = time.process_time() - t0
    if parser is not None and res["out"] not in ("ok", "diag"):
        try:
            tok = parser._current_token  # noqa: SLF001
            res["token"] = f"{tok.kind.name} {tok.text[:24]!r} @{tok.span.start}"
        except BaseException:  # noqa: BLE001
            pass
    return res


def _child_main(rfd: int, wfd: int, dump_path: str) -> None:
    import faulthandler
    import resource

    def on_vt(signum, frame):  # type: ignore[no-untyped-def]
        raise _Budget()

    signal.signal(signal.SIGVTALRM, on_vt)
    signal.signal(signal.SIGALRM, signal.SIG_DFL)
    try:
        resource.setrlimit(resource.RLIMIT_AS, (6 << 30, 6 << 30))
    except (ValueError, OSError):
        pass
    dump = open(dump_path, "w")
    r = os.fdopen(rfd, "rb", buffering=0)
    w = os.fdopen(wfd, "wb", buffering=0)
    while True:
        hdr = r.read(4)
        if len(hdr) < 4:
            os._exit(0)
        (n,) = struct.unpack("<I", hdr)
        buf = b""
        while len(buf) < n:
            chunk = r.read(n - len(buf))
            if not chunk:
                os._exit(0)
            buf += chunk
        job = pickle.loads(buf)
        dump.seek(0)
        dump.truncate()
        faulthandler.dump_traceback_later(job["wall"], exit=True, file=dump)
        try:
            res = _do_job(job)
        finally:
            faulthandler.cancel_dump_traceback_later()
        out = pickle.dumps(res)
        w.write(struct.pack("<I", len(out)) + out)


def _resolve_dump_site(dump: str) -> tuple[str, int]:
    """most recent xdsl frame of a faulthandler dump, as module.Class.function"""
    root = _xdsl_root()
    for m in re.finditer(r'File "([^"]+)", line (\d+) in (\S+)', dump):
        fn, line, func = m.group(1), int(m.group(2)), m.group(3)
        if not os.path.abspath(fn).startswith(root):
            continue
        mod = next((mm for mm in sys.modules.values() if getattr(mm, "__file__", None) and os.path.abspath(mm.__file__) == os.path.abspath(fn)), None)
        name = (mod.__name__ if mod else fn) + "." + func
        if mod is not None:
            best = None
            for obj in vars(mod).values():
                if isinstance(obj, type) and obj.__module__ == mod.__name__:
                    f = vars(obj).get(func)
                    f = getattr(f, "__func__", f)
                    code = getattr(f, "__code__", None)
                    if code is not None and code.co_firstlineno <= line and (best is None or code.co_firstlineno > best[0]):
                        best = (code.co_firstlineno, mod.__name__ + "." + code.co_qualname)
            if best:
                name = best[1]
        return name, line
    return "<outside xdsl>", 0


class Sandbox:
    def __init__(self) -> None:
        preload()
        self.pid: int | None = None
        self.spawned = 0
        # the parser / scan jobs this child has run since it was forked, in order (the history of its process state)
        self.log: list[dict] = []

    def _spawn(self) -> None:
        p2c_r, p2c_w = os.pipe()
        c2p_r, c2p_w = os.pipe()
        fd, self.dump_path = tempfile.mkstemp(prefix="c07_dump_")
        os.close(fd)
        sys.stdout.flush()
        sys.stderr.flush()
        pid = os.fork()
        if pid == 0:
            try:
                os.close(p2c_w)
                os.close(c2p_r)
                _child_main(p2c_r, c2p_w, self.dump_path)
            finally:
                os._exit(3)
        os.close(p2c_r)
        os.close(c2p_w)
        self.pid, self.w, self.r = pid, p2c_w, c2p_r
        self.spawned += 1
        self.log = []

    def _read(self, n: int, deadline: float) -> bytes | None:
        buf = b""
        while len(buf) < n:
            left = deadline - time.time()
            if left <= 0:
                return None
            rl, _, _ = select.select([self.r], [], [], min(left, 5.0))
            if not rl:
                continue
            chunk = os.read(self.r, n - len(buf))
            if not chunk:
                return None
            buf += chunk
        return buf

    def _cleanup(self) -> None:
        for fd in (self.w, self.r):
            try:
                os.close(fd)
            except OSError:
                pass
        try:
            os.unlink(self.dump_path)
        except OSError:
            pass
        self.pid = None

    def close(self) -> None:
        if self.pid is None:
            return
        try:
            os.kill(self.pid, signal.SIGKILL)
        except OSError:
            pass
        try:
            os.waitpid(self.pid, 0)
        except OSError:
            pass
        self._cleanup()

    def call(self, job: dict) -> dict:
        if self.pid is None:
            self._spawn()
        job.setdefault("cpu", CPU_BASE + CPU_PER_CHAR * len(job["text"]))
        job.setdefault("wall", max(15.0, 8.0 * job["cpu"]))
        data = pickle.dumps(job)
        try:
            os.write(self.w, struct.pack("<I", len(data)))
            off = 0
            while off < len(data):
                off += os.write(self.w, data[off:off + 65536])
        except OSError:
            self.close()
            return self.call(job)
        deadline = time.time() + job["wall"] + 30.0
        hdr = self._read(4, deadline)
        body = self._read(struct.unpack("<I", hdr)[0], deadline) if hdr else None
        if body is not None:
            if job["kind"] != "lex" and not job.get("nolog"):
                self.log.append(job)
            return pickle.loads(body)
        # the child died (watchdog, crash) or is stuck beyond the backstop
        expired = time.time() >= deadline
        try:
            dump = open(self.dump_path).read()
        except OSError:
            dump = ""
        status = None
        try:
            os.kill(self.pid, signal.SIGKILL)
        except OSError:
            pass
        try:
            _, status = os.waitpid(self.pid, 0)
        except OSError:
            pass
        self._cleanup()
        if "Timeout" in dump or expired:
            site, line = _resolve_dump_site(dump)
            return {"out": "hang", "cls": "Hang", "site": site, "line": line, "cpu": job["wall"],
                    "msg": f"no answer within {job['wall']:.0f}s wall clock (not interruptible: inside C code)"}
        return {"out": "died", "cls": "ProcessDied", "site": "<interpreter>", "line": 0, "cpu": 0.0,
                "msg": f"child exited with status {status}"}


def fresh_call(job: dict, history: list[dict] | None = None) -> dict:
    """the job in a new process — after the jobs of `history`, if given, in that same process.  A CPU-budget overrun
    is measured again in that same process: first-use costs of a new process (lazily built assembly formats,
    copy-on-write faults after the fork — seconds on a loaded machine) are not part of the parse time of the input"""
    sb = Sandbox()
    try:
        for h in history or []:
            h = {k: v for k, v in h.items() if k not in ("cpu", "wall")}
            sb.call(h)
        r = sb.call(dict(job))
        if r["out"] == "budget" and not history:
            r = sb.call(dict(job))
        return r
    finally:
        sb.close()


# =============================================================================================
# generators
# =============================================================================================

NONASCII = ["²", "٣", "½", "𝟘", "੩", "é", "λ", "Ω", "ß", "中", "́", "​", " ", " ", "\x1c", "\x85",
            "\0", "\x7f", "﻿", "\ud800", "\udfff", "😀"]
GRAMMAR = ['"', '"', "\\", "\\", "(", ")", "{", "}", "[", "]", "<", ">", ",", ":", "=", "->", "...", ".", "-", "+", "?", "*", "|",
           "/", "//", "{-#", "#-}", "#", "!", "@", "%", "^", "\n", " ", "\t", "\r", "\v", "\f",
           "%0", "%x", "%0#1", "%0:2", "^bb0", "^0", "^1", "^-", "@f", '@"s"', "#a", "#0", "!t", "!0",
           "i32", "i1", "f32", "index", "si8", "ui8", "i0", "i99999999999", "bf16", "none",
           "0", "1", "-1", "0x", "0xFF", "0x1p3", "1.5", "1.", "1e", "1e5", "1.0e+", "9" * 25, "4294967296", "-9223372036854775809",
           "x", "dense", "loc", "true", "false", "array", "vector", "tensor", "memref", "affine_map", "affine_set", "unit",
           "opaque", "sparse", "dense_resource", "strided", "complex", "tuple", "offset", "attributes", "to", "step", "iter_args",
           "ins", "outs", "private", "public", "nested", "unknown", "callsite", "fused", "at", "ceildiv", "floordiv", "mod",
           "symbol", "d0", "s0", "x4", "4x", "?x", "*x", "x?", '"x"', '"\\', '"\\00"', '"\\ff"', '"\\n"', '""', '"a.b"',
           '"\\C3\\A9"', '"é\\n"', '"\\E2\\82"', '"\\ED\\A0\\80"', "\\C3", "\\A9",
           '"test.op"', '"builtin.module"', "func.func", "builtin.module", "arith.constant", "scf.for", "() -> ()", ": i32",
           "{a = 1}", "<{a = 1}>", "({})", "[^bb0]", "(%0)", "loc(unknown)", 'loc("f":1:1)']


def load_chunks() -> list[str]:
    chunks: list[str] = []
    for f in sorted(glob.glob(str(core.REPO / "tests" / "**" / "*.mlir"), recursive=True)):
        try:
            t = open(f, encoding="utf-8").read()
        except (OSError, UnicodeDecodeError):
            continue
        for c in t.split("// -----"):
            c = c.strip("\n")
            if c.strip() and len(c) <= 6000:
                chunks.append(c)
    if len(chunks) < 100:
        raise core.InfraError(f"corpus too small: {len(chunks)} chunks under {core.REPO}/tests")
    return chunks


def mutate(rng, s: str) -> str:
    for _ in range(rng.choice([1, 1, 1, 2, 2, 3, 4])):
        if not s:
            s = rng.choice(GRAMMAR)
            continue
        k = rng.random()
        i = rng.randrange(len(s) + 1)
        tok = rng.choice(NONASCII) if rng.random() < 0.15 else rng.choice(GRAMMAR)
        if k < 0.29:
            s = s[:i] + tok + s[i:]
        elif k < 0.32:
            s = drop_last_of(rng, s)
        elif k < 0.33:
            s = unregister_dialect_symbols(s)
        elif k < 0.50:
            s = s[:i] + s[min(len(s), i + rng.choice([1, 1, 2, 3, 5, 8, 13])):]
        elif k < 0.72:
            s = s[:i] + tok + s[min(len(s), i + rng.choice([1, 1, 2, 3, 6])):]
        elif k < 0.80:
            s = s[:i]
        elif k < 0.86:
            s = s[i:]
        elif k < 0.93:
            j = min(len(s), i + rng.choice([1, 2, 5, 20, 80]))
            s = s[:j] + s[i:j] * rng.choice([1, 1, 2, 5]) + s[j:]
        else:
            # swap two lines / delete a line
            lines = s.split("\n")
            if len(lines) > 1:
                a = rng.randrange(len(lines))
                if rng.random() < 0.5:
                    del lines[a]
                else:
                    b = rng.randrange(len(lines))
                    lines[a], lines[b] = lines[b], lines[a]
                s = "\n".join(lines)
    return s


def token_samples() -> dict[str, list[str]]:
    from xdsl.utils.mlir_lexer import KIND_BY_PUNCTUATION_SPELLING, MLIRTokenKind

    samples: dict[str, list[str]] = {k.name: [] for k in MLIRTokenKind}
    for sp, k in KIND_BY_PUNCTUATION_SPELLING.items():
        samples[k.name].append(sp)
    samples["EOF"] = [""]
    samples["BARE_IDENT"] = ["a", "x", "i32", "f32", "index", "i1", "si8", "x4", "_", "a.b", "func.func", "true", "false", "dense",
                             "loc", "unit", "array", "vector", "tensor", "memref", "affine_map", "to", "step", "attributes",
                             "d0", "s0", "ceildiv", "mod", "offset", "strided", "é", "none", "unknown", "opaque", "tuple", "complex"]
    samples["AT_IDENT"] = ["@f", "@_", '@"s"', '@"\\00"', "@a.b"]
    samples["HASH_IDENT"] = ["#a", "#0", "#1", "#builtin.int", "#-x", "#a.b", "#llvm.linkage", "#arith.fastmath"]
    samples["PERCENT_IDENT"] = ["%0", "%1", "%x", "%a_1", "%-", "%0x"]
    samples["CARET_IDENT"] = ["^bb0", "^0", "^1", "^-", "^a"]
    samples["EXCLAMATION_IDENT"] = ["!t", "!0", "!llvm.ptr", "!builtin.int", "!a.b", "!x86.reg"]
    samples["FLOAT_LIT"] = ["1.0", "1.", "0.5e10", "1.e-3", "123456789.123456789e300", "1.0E+400"]
    samples["INTEGER_LIT"] = ["0", "1", "2", "42", "0x1F", "0xdeadbeef", "18446744073709551616", "007", "9" * 30]
    samples["STRING_LIT"] = ['"a"', '""', '"\\n"', '"\\00"', '"a b"', '"é"', '"test.op"', '"\\\\"', '"\\""', '"0x00"', '"0xZZ"']
    samples["STRING_LIT"] += ['"é\\n"', '"\\C3\\A9"', '"\\F0\\9F\\98\\80"']
    samples["BYTES_LIT"] = ['"\\ff"', '"\\80a"', '"\\C3"', '"\\ED\\A0\\80"', '"é\\C3"']
    return samples


def soup(rng, samples: dict[str, list[str]], n: int, bias: list[str] | None = None) -> str:
    kinds = [k for k in samples if k != "EOF"]
    parts = []
    for _ in range(n):
        if bias and rng.random() < 0.6:
            parts.append(rng.choice(bias))
        else:
            parts.append(rng.choice(samples[rng.choice(kinds)]))
        parts.append(rng.choice([" ", " ", " ", "", "\n"]))
    return "".join(parts)


OP_BIAS = ["%0", "%1", "%m", "%v", ",", ":", "(", ")", "->", "i32", "index", "f32", "memref<4xf32>", "vector<4xf32>", "tensor<4xf32>",
           "{", "}", "[", "]", "=", "0", "1", "@f", "^bb0", "attributes", "{a = 1}", "<", ">", "to", "step", '"s"', "2.0", "true",
           "loc(unknown)", "x", "?", "*", "+", "-", "#a", "!t", "...", "|"]
ATTR_BIAS = ["<", ">", "[", "]", "(", ")", ",", ":", "0", "1", "-", "?", "x", "4x", "i32", "f32", "index", "=", "->", '"s"', "1.0",
             "true", "d0", "s0", "+", "*", "{", "}", "@f", "offset", "#a", "!t", "0x00", '"0xFF"', "dense", "unit", "...", "|"]
PRELUDE = ('%0, %1 = "test.op"() : () -> (i32, index)\n%m, %v = "test.op"() : () -> (memref<4xf32>, vector<4xf32>)\n')
BUILTIN_ATTR_FORMS = ["dense<{}> : tensor<2xi32>", "dense<[{}]> : tensor<2x2xf32>", "dense<{}>", "array<i32: {}>", "array<{}>",
                      "affine_map<{}>", "affine_set<{}>", "affine_map<(d0, d1)[s0] -> ({})>", "affine_set<(d0)[s0] : ({})>",
                      "loc({})", "vector<{}>", "tensor<{}>", "memref<{}>", "memref<4xf32, {}>", "complex<{}>", "tuple<{}>",
                      "({}) -> ({})", "strided<[{}], offset: {}>", "strided<{}>", "opaque<{}>", "sparse<{}, {}> : tensor<2xi32>",
                      "dense_resource<{}> : tensor<2xi32>", "#builtin.int<{}>", "!builtin.{}", "[{}]", "{{{}}}", "{} : i32",
                      "{} : f32", "{} : index", "@{}", "i{}", "f{}", "#{}", "!{}", "{}"]


def gen_soup_case(rng, samples) -> tuple[str, str, str]:
    """(stream, entry, text)"""
    k = rng.random()
    n = rng.choice([1, 2, 3, 4, 6, 8, 12, 20])
    if k < 0.15:
        return "soup.free", "module", soup(rng, samples, n * 2)
    if k < 0.30:
        form = rng.choice(['"test.op"() {{a = {}}} : () -> ()', '%r = "test.op"() : () -> {}', '"test.op"({}) : () -> ()',
                           '"test.op"() <{{{}}}> : () -> ()', '"test.op"() [{}] : () -> ()', '"test.op"() ({{ {} }}) : () -> ()',
                           '"test.op"() : {}', '"test.op"() : () -> () loc({})', '{{-# {} #-}}', '#al = {}', '!al = {}',
                           '"test.op"() ({{ ^{}: }}) : () -> ()', '%r:{} = "test.op"() : () -> i32'])
        return "soup.generic_op", "module", PRELUDE + form.format(soup(rng, samples, n, ATTR_BIAS))
    if k < 0.65:
        name = rng.choice(_NAMES["custom_ops"])
        res = rng.choice(["", "", "%r = ", "%r, %s = ", "%r:2 = "])
        if rng.random() < 0.3:
            return "ssa.soup", "module", SSA_PRELUDE + res + name + " " + soup(rng, samples, n, OP_BIAS + SSA_OPERANDS * 2) + SSA_TAIL
        return "soup.custom_op", "module", PRELUDE + res + name + " " + soup(rng, samples, n, OP_BIAS)
    if k < 0.80:
        pool = _NAMES["attrs"] if rng.random() < 0.5 else _NAMES["types"]
        name = rng.choice(pool)
        sig = "#" if pool is _NAMES["attrs"] else "!"
        body = soup(rng, samples, n, ATTR_BIAS)
        form = rng.choice(["{}{}<{}>", "{}{}<{}>", "{}{}{}", "{}{} {}"])
        entry = "attr" if sig == "#" or rng.random() < 0.3 else "type"
        return "soup.dialect_attr", entry, form.format(sig, name, body)
    form = rng.choice(BUILTIN_ATTR_FORMS)
    text = form.format(*[soup(rng, samples, rng.choice([1, 2, 3, 5, 8]), ATTR_BIAS) for _ in range(form.count("{}"))])
    return "soup.builtin_attr", rng.choice(["attr", "attr", "type"]), text


OP_TEMPLATES = ["{n}", "{n} %0", "%r = {n} %0, %1 : i32", "{n} %m[%1] : memref<4xf32>", "{n}()", "{n} {{a = 1}}",
                "%r = {n} %0 : i32 -> i32", "{n} @f", '{n} "s"', "%r = {n} %v, %v : vector<4xf32>", "{n} %0 : i32 {{", "%r = {n} : () -> i32",
                "{n} <", "{n} [", "{n} 0", "{n} x", "{n} (%0 : i32)", "%r, %s = {n} %0"]
ATTR_TEMPLATES = ["{s}{n}", "{s}{n}<", "{s}{n}<>", "{s}{n}<0>", "{s}{n}<i32>", '{s}{n}<"s">', "{s}{n}<[1]>", "{s}{n}<0, 0>", "{s}{n}<x>",
                  "{s}{n}<-1>", "{s}{n}<1.0>", "{s}{n}<i32, i32>", "{s}{n}<x, x>", "{s}{n}<@f>", "{s}{n}<{{a = 1}}>", "{s}{n}<?>", "{s}{n} x",
                  "{s}{n}<x = 1>", "{s}{n}<0 : i32>", "{s}{n}<true>", "{s}{n}<()>", "{s}{n}<<>>", '{s}{n}<"">', "{s}{n}<4xi32>"]


# ---- SSA-reference family: indexed operand uses `%x#k`, result counts `%x:n`, undefined / forward names --------
SSA_PRELUDE = (PRELUDE + '%t:2 = "test.op"() : () -> (i32, i32)\n%z:0 = "test.op"() : () -> ()\n'
               '%c = "test.op"() : () -> i1\n%i:3 = "test.op"() : () -> (index, index, index)\n')
# operand spellings: index == arity first (one past the last value), then the other boundary values
SSA_OPERANDS = ["%t#2", "%0#1", "%z", "%i#3", "%c#1", "%t#1", "%t#0", "%t#3", "%z#0", "%t#99999999999999999999", "%t#", "%t#-1",
                "%t#0x1", "%t:0", "%t:2", "%undefined", "%undefined#0", "%undefined#1", "%fwd#1", "%t#2#2", "%0#0", "%fwd#0", "%fwd#2"]
SSA_OP_TEMPLATES = ["{n} {a}", "{n} {a}, {a} : i32", "%r = {n} {a} : i32", "{n} %0, {a} : i32", "{n} {a}[{a}] : memref<4xf32>",
                    "{n}({a}) : (i32) -> ()", "{n} ({a} : i32)", "%r = {n} {a}, %1 : index", '{n} "s", {a} : i32',
                    "{n} %w = {a} to {a} step {a} {{", "{n} @f({a}) : (i32) -> ()", "{n} {a} {{\n}}"]
SSA_TAIL = '\n%fwd:2 = "test.op"() : () -> (i32, i32)\n'
# in templates with two operand slots the second slot takes the partner: another tuple index of the same forward name
SSA_PARTNER = {"%fwd#1": "%fwd#0", "%fwd#0": "%fwd#1", "%fwd#2": "%fwd#1", "%undefined#1": "%undefined#0", "%undefined#0": "%undefined#1"}


def _second_slot(template: str) -> str:
    i = template.find("{a}")
    j = template.find("{a}", i + 1) if i >= 0 else -1
    return template if j < 0 else template[:j] + "{b}" + template[j + 3:]

_DEF_RE = re.compile(r"^[ \t]*((?:%[\w$.-]+(?::\d+)?[ \t]*,[ \t]*)*%[\w$.-]+(?::\d+)?)[ \t]*=", re.M)
_REF_RE = re.compile(r"%[A-Za-z0-9_$.-]+")


def ssa_arities(text: str) -> dict[str, int]:
    """arity of every result definition `%a, %b:n = ...` (block / function arguments: 1)"""
    ar: dict[str, int] = {}
    for m in _DEF_RE.finditer(text):
        for part in m.group(1).split(","):
            part = part.strip()
            name, _, cnt = part.partition(":")
            try:
                ar[name] = int(cnt) if cnt else 1
            except ValueError:
                ar[name] = 1
    return ar


def ssa_mutate(rng, text: str, focus_count: bool = False) -> str:
    """rewrite 1-3 SSA references: `%x` -> `%x#k` (k around the arity of the definition), `%x:0`, `%x#`, `%x#-1`,
    `%x#0x1`, undefined or forward-referenced names with an index, or change the arity of a definition"""
    ar = ssa_arities(text)
    for _ in range(1 if focus_count else rng.choice([1, 1, 2, 3])):
        refs = list(_REF_RE.finditer(text))
        if not refs:
            return text + " %undefined#1"
        m = rng.choice(refs)
        name = m.group(0)
        count = ar.get(name, 1)
        end = m.end()
        # swallow an existing `#k` / `:n` suffix half of the time
        sfx = re.match(r"[#:]\d+", text[end:])
        if sfx and (focus_count or rng.random() < 0.5):
            end += sfx.end()
        k = rng.random()
        if focus_count or k < 0.35:
            new = f"{name}#{count}"
        elif k < 0.60:
            new = f"{name}#{rng.choice([0, 1, max(count - 1, 0), count + 1, 2, 7, 4294967296, 10 ** 30])}"
        elif k < 0.72:
            new = name + rng.choice([":0", "#", "#-1", "#0x1", ":2", "#1#1", "# 1", "#01", ":" + str(count), "#x"])
        elif k < 0.82:
            new = rng.choice(["%undefined", "%undefined_q", "%" + name[1:] + "_"]) + rng.choice(["", "#0", "#1", "#2"])
        elif k < 0.86:
            later = [r.group(0) for r in refs if r.start() > m.start() and r.group(0) != name]
            new = (rng.choice(later) if later else "%fwd") + rng.choice(["", "#0", "#1", f"#{count}"])
        elif k < 0.90:
            text = ssa_forward_use(rng, text, ar)
            continue
        else:
            # change the arity of a definition: `%x = ` -> `%x:0 = ` / `%x:2 = `
            defs = list(_DEF_RE.finditer(text))
            if defs:
                d = rng.choice(defs)
                first = re.match(r"[ \t]*%[\w$.-]+(?::\d+)?", d.group(0))
                stem = first.group(0).split(":")[0]
                text = text[:d.start()] + stem + rng.choice([":0", ":2", ":1", ":3"]) + text[d.start() + first.end():]
                continue
            new = f"{name}#{count}"
        text = text[:m.start()] + new + text[end:]
    return text


_RESULT_TYPES_RE = re.compile(r"->\s*\(?([^()\n/]*?)\)?\s*(?:loc\([^/\n]*)?(?://.*)?$")


def ssa_forward_use(rng, text: str, ar: dict[str, int]) -> str:
    """insert, in front of a definition `%x:n = ...`, an operation that uses `%x#i` and `%x#j` (two tuple indices
    of one not yet defined name; i, j in 0..n, n being one past the end), with the result types of the definition
    where its line ends in `-> (T0, T1, ...)`, so that the forward references usually resolve"""
    defs = [d for d in _DEF_RE.finditer(text)]
    if not defs:
        return text + '\n"test.op"(%fwd#0, %fwd#1) : (i32, i32) -> ()' + SSA_TAIL
    multi = [d for d in defs if ":" in d.group(1)]
    d = rng.choice(multi if multi and rng.random() < 0.7 else defs)
    part = rng.choice([q.strip() for q in d.group(1).split(",")])
    name = part.partition(":")[0]
    n = ar.get(name, 1)
    eol = text.find("\n", d.end())
    line = text[d.start():eol if eol >= 0 else len(text)]
    tm = _RESULT_TYPES_RE.search(line)
    tys = [t.strip() for t in tm.group(1).split(",")] if tm and "<" not in tm.group(1) else []
    idx = [rng.randint(0, n) for _ in range(rng.choice([2, 2, 3]))]
    if len(set(idx)) == 1:
        idx[-1] = (idx[0] + 1) % (n + 1)
    ops = ", ".join(f"{name}#{i}" for i in idx)
    types = ", ".join(tys[i] if i < len(tys) and tys[i] else "i32" for i in idx)
    indent = re.match(r"[ \t]*", d.group(0)).group(0)
    use = f'{indent}"test.op"({ops}) : ({types}) -> ()\n'
    if rng.random() < 0.3:    # the uses in two operations
        use = "".join(f'{indent}"test.op"({name}#{i}) : ({tys[i] if i < len(tys) and tys[i] else "i32"}) -> ()\n' for i in idx)
    return text[:d.start()] + use + text[d.start():]


def ssa_sweep_cases(rng, quick: bool):
    """deterministic: every registered custom-syntax op name with indexed operands in small templates.  The
    `index == arity` spellings come first; quick takes `%t#2` in the bare template (always run to the end) and
    `%0#1` plus a seeded third spelling in a seeded second template; thorough takes every template with the first five spellings and
    the first template with all spellings."""
    two_slot = [t for t in SSA_OP_TEMPLATES if t.count("{a}") >= 2]
    if quick:
        operands = SSA_OPERANDS[:2] + [rng.choice(SSA_OPERANDS[2:])]
        templates = [SSA_OP_TEMPLATES[0], rng.choice(SSA_OP_TEMPLATES[1:])]
        combos = [(templates[0], operands[0]), (templates[1], operands[1]), (templates[1], operands[2])]
        if rng.random() < 0.5:   # two tuple indices of one forward-referenced name in a template with two operand slots
            combos[2] = (rng.choice(two_slot), rng.choice(["%fwd#1", "%fwd#0", "%fwd#2"]))
    else:
        combos = [(t, a) for t in SSA_OP_TEMPLATES for a in SSA_OPERANDS[:5]] + [(SSA_OP_TEMPLATES[0], a) for a in SSA_OPERANDS[5:]]
        combos += [(t, a) for t in two_slot for a in ("%fwd#1", "%fwd#0", "%fwd#2")]
    for t, a in combos:
        t2 = _second_slot(t)
        for name in _NAMES["custom_ops"]:
            yield "ssa.sweep", "module", SSA_PRELUDE + t2.format(n=name, a=a, b=SSA_PARTNER.get(a, a)) + SSA_TAIL


def sweep_cases(rng, quick: bool):
    """deterministic sweep: every registered custom-syntax op name and every attribute / type name in a few
    small templates (all templates in thorough, a seeded selection of them in quick)"""
    ots = rng.sample(OP_TEMPLATES, 3) if quick else OP_TEMPLATES
    for name in _NAMES["custom_ops"]:
        for t in ots:
            yield "sweep.op", "module", PRELUDE + t.format(n=name)
    ats = rng.sample(ATTR_TEMPLATES, 6) if quick else ATTR_TEMPLATES
    for sig, pool in (("#", _NAMES["attrs"]), ("!", _NAMES["types"])):
        for name in pool:
            for t in ats:
                yield "sweep.attr", ("attr" if sig == "#" else "type"), t.format(s=sig, n=name)


# ---- forward-reference family: `%f#i`, `%f#j` used before `%f:n = ...` is defined -----------------------------
FWD_TYPES = ["i32", "i64", "index"]


def ssa_forward_cases(quick: bool):
    """small-scope enumeration over generic operations (the operand resolution shared by every format): a value of
    arity n in {1,2,3} is used with every pair of tuple indices (i, j) in {0..n}^2 (n = one past the end) before / around
    its definition: both uses in one operation, in two operations, one before and one after the definition, inside
    a region whose body also holds the definition, inside a region while the definition follows the region's
    operation, and with the first use inside a nested region and the second one after it; plus the bare spelling
    `%f` next to `%f#j`, a use with a type the definition does not have, and three uses with three indices."""
    def use(*ops: tuple[str, str]) -> str:
        return '"test.op"(' + ", ".join(o for o, _ in ops) + ") : (" + ", ".join(t for _, t in ops) + ") -> ()"

    for n in (1, 2, 3):
        rtys = FWD_TYPES[:n]
        d = (f"%f:{n}" if n > 1 else "%f") + ' = "test.op"() : () -> (' + ", ".join(rtys) + ")"
        for i in range(n + 1):
            for j in range(n + 1):
                if quick and n == 3 and (i == j or 0 < min(i, j) < max(i, j) < n):
                    continue          # quick: arity 3 with the pairs that involve the first / the last / the out-of-range index
                a = (f"%f#{i}", FWD_TYPES[min(i, 2)])
                b = (f"%f#{j}", FWD_TYPES[min(j, 2)])
                yield f"{use(a, b)}\n{d}\n"
                yield f"{use(a)}\n{use(b)}\n{d}\n"
                yield f"{use(a)}\n{d}\n{use(b)}\n"
                yield '"test.op"() ({\n  ' + use(a) + "\n  " + use(b) + "\n  " + d + "\n}) : () -> ()\n"
                yield '"test.op"() ({\n  ' + use(a) + "\n  " + use(b) + "\n}) : () -> ()\n" + d + "\n"
                yield '"test.op"() ({\n  "test.op"() ({\n    ' + use(a) + "\n  }) : () -> ()\n  " + use(b) + "\n  " + d + "\n}) : () -> ()\n"
                if quick and (n != 2 or (i, j) not in ((0, 1), (1, 0), (n, 0), (0, n))):
                    continue
                yield f"{use(('%f', 'i32'), b)}\n{d}\n"
                yield f"{use(a, (b[0], 'f32'))}\n{d}\n"
                yield f"{use(a, b, ('%f#' + str(max(i, j) + 1), 'i32'))}\n{d}\n"
                yield f"{use(a, b)}\n{use(b, a)}\n"                                   # never defined
                yield f"{use(a, b)}\n{d}\n{d}\n"                                      # defined twice
                yield f"func.func @f() {{\n  {use(a, b)}\n  {d}\n  func.return\n}}\n"


# ---- SSA-name programs: generic operations, regions, block arguments; with the event sequence of their parse ----
SSA_PROG_MSGS = [("tuple index out of bounds", "index-out-of-bounds"), ("operand is used with type", "use-type"),
                 ("is already defined", "redefined"), ("is referenced with an index larger than its size", "forward-index"),
                 ("is defined with type", "forward-type"), ("values used but not defined", "used-not-defined")]


def gen_ssa_prog(rng) -> tuple[str, str]:
    """(module text, `prog` line of the `ssa_names` model).  A few names with arities 0-3 and typed elements; uses
    `%v#i` anywhere (before / after the definition, inside / outside regions), mostly with an index and type the
    definition has, sometimes one past the end / another type; definitions as operation results or block arguments,
    sometimes twice or never.  Events in the order in which the parser performs them: for an operation the events
    of its regions (push, block arguments, body, pop), then its operand uses, then its result definitions."""
    nn = rng.choice([1, 2, 2, 3, 4])
    blockarg = {n for n in range(nn) if rng.random() < 0.2}
    size = {n: 1 if n in blockarg else rng.choice([1, 1, 1, 2, 2, 2, 3, 3, 3, 0]) for n in range(nn)}
    tys = {n: [rng.randrange(3) for _ in range(size[n])] for n in range(nn)}
    todo = [n for n in range(nn) if n not in blockarg] + [n for n in range(nn) if n not in blockarg and rng.random() < 0.06]
    todo_args = [n for n in range(nn) if n in blockarg] + [n for n in range(nn) if n in blockarg and rng.random() < 0.06]
    rng.shuffle(todo)
    events: list[str] = []

    def mk_use() -> tuple[int, int, int, bool]:
        n = rng.randrange(nn)
        sz = size[n]
        if sz == 0 or rng.random() < 0.06:
            i, t = rng.choice([sz, sz + 1, 0]), rng.randrange(3)
        else:
            i = rng.randrange(sz)
            t = tys[n][i] if rng.random() < 0.96 else (tys[n][i] + 1) % 3
        return n, i, t, (i == 0 and rng.random() < 0.5)

    def one_op(depth: int, indent: str, uses: list, defs: list[int]) -> str:
        region = ""
        if depth < 2 and (rng.random() < 0.35 or (todo_args and rng.random() < 0.6)):
            events.append("push")
            label = ""
            args = [todo_args.pop() for _ in range(rng.choice([1, 1, 2])) if todo_args] if rng.random() < 0.8 else []
            if args or rng.random() < 0.2:
                label = indent + "^bb0(" + ", ".join(f"%v{a} : {FWD_TYPES[tys[a][0]]}" for a in args) + "):\n"
                events.extend(f"d {a} {tys[a][0]}" for a in args)
            body = ops(depth + 1, indent + "  ")
            events.append("pop")
            region = " ({\n" + label + body + indent + "})"
        events.extend(f"u {n} {i} {t}" for n, i, t, _ in uses)
        events.extend("d " + " ".join(map(str, [d] + tys[d])) for d in defs)
        res = ", ".join(f"%v{d}" + (f":{size[d]}" if size[d] != 1 or rng.random() < 0.2 else "") for d in defs)
        rtys = [FWD_TYPES[t] for d in defs for t in tys[d]]
        return (indent + (res + " = " if defs else "") + '"test.op"(' +
                ", ".join(f"%v{n}" + ("" if bare else f"#{i}") for n, i, _, bare in uses) + ")" + region +
                " : (" + ", ".join(FWD_TYPES[t] for _, _, t, _ in uses) + ") -> (" + ", ".join(rtys) + ")\n")

    def ops(depth: int, indent: str) -> str:
        out = []
        for _ in range(rng.choice([1, 2, 2, 3])):
            uses = [mk_use() for _ in range(rng.choice([0, 1, 2, 2, 3]))]
            defs = []
            while todo and rng.random() < (0.6 if not defs else 0.25) * (1.0 if depth == 0 else 0.5):
                defs.append(todo.pop())
            out.append(one_op(depth, indent, uses, defs))
        if depth == 0:   # most of the names not defined so far are defined at the end (all uses of them were forward)
            while todo:
                d = todo.pop()
                if rng.random() < 0.85:
                    out.append(one_op(0, indent, [], [d]))
        return "".join(out)

    text = ops(0, "")
    events.append("end")
    return text, "prog " + " ; ".join(events)


# ---- raw-scan family: bodies of unregistered dialect attributes / types (`AttrParser._raw_scan_balanced`) -----
RAW_PAIRS = {"<": ">", "(": ")", "[": "]", "{": "}"}
RAW_ATOMS = ["a", "x1", " ", ", ", " = ", ":", "->", "-", "a-b", "-->", "é", "\n", "#", "!t", "?", "*", "0x1F", "1.5", "@f", "%0", "'",
             "//", "\0", "😀", "\\", "\t", "=", "|", "+"]
RAW_STR_CHARS = list("abcxyz   ,=<>()[]{}-:/") + ["é"]
RAW_STR_ESCAPES = ['\\"', "\\\\", "\\n", "\\00", "\\"]
RAW_BODIES = [
    '"row_major, tile = [4, 4]"',
    'a<b>, "x>\\"" -> (c)',
    '"s", {k = "v w x y z 0 1 2 3 4 5 6 7 8 9 a b c d e f"}, [1, 2]',
    "(a -> b) -> <c>",
    '"\\\\"',
    "",
    '"' + "a" * 40 + '"',
    'x = "ab\\"cd\\"ef gh ij kl mn op qr st uv wx yz 01 23 45 67 89"',
    '[("a", "b"), {"c"}], "a string that is followed by nothing else with a quote"',
    "a - > b, ->, -",
    'é "😀" λ, "tail of the body: no further quote up to the end of the text"',
    '"<" , ">" , "(" , ")]}"',
]
# (entry point, text before the body, text after the body); the scan starts right after the `<` of the prefix
RAW_WRAPPERS = [
    ("module", '"test.op"() {a = #zz.n<', ">} : () -> () loc(unknown)"),
    ("attr", "#zz.n<", ">"),
    ("type", "!zz.n<", ">"),
    ("attr", "#zz<n ", ">"),
    ("type", "!zz<n ", ">"),
    ("module", '%0 = "test.op"() : () -> !zz.n<', ">"),
    ("module", '"test.op"() {a = #zz<n ', ">, b = unit} : () -> ()"),
    ("module", "func.func private @f(!zz.n<", ">) -> ()"),
    ("module", '"test.op"() ({\n^b(%a : !zz<n ', ">):\n}) : () -> ()"),
]
RAW_MUTATIONS = ["none", "drop_last_quote", "drop_last_closer", "drop_final_gt", "drop_random_quote", "drop_random_closer",
                 "drop_random_opener", "insert_closer", "truncate", "backslash_before_last_quote", "swap_closers", "drop_first_quote"]


def raw_string(rng) -> str:
    """a string literal; half of them long (>= 32 characters) and free of backslashes"""
    n = rng.choice([0, 1, 3, 8, 33, 40, 70])
    esc = rng.random() < 0.4
    return '"' + "".join(rng.choice(RAW_STR_ESCAPES[:4]) if esc and rng.random() < 0.2 else rng.choice(RAW_STR_CHARS) for _ in range(n)) + '"'


def raw_body(rng, depth: int = 0) -> str:
    """a balanced body: atoms, string literals (brackets inside them do not count) and bracketed sub-bodies"""
    parts = []
    for _ in range(rng.choice([0, 1, 1, 2, 3, 5])):
        k = rng.random()
        if k < 0.25 and depth < 4:
            o = rng.choice("<([{")
            parts.append(o + raw_body(rng, depth + 1) + RAW_PAIRS[o])
        elif k < 0.50:
            parts.append(raw_string(rng))
        else:
            parts.append(rng.choice(RAW_ATOMS))
    return "".join(parts)


def _drop_at(s: str, i: int) -> str:
    return s[:i] + s[i + 1:]


def raw_mutate(rng, kind: str, prefix: str, body: str, suffix: str) -> str:
    """one truncation-style edit of `prefix body suffix` (positions are chosen inside the body where possible)"""
    text = prefix + body + suffix
    lo, hi = len(prefix), len(prefix) + len(body)

    def positions(chars: str) -> list[int]:
        return [i for i in range(lo, hi) if text[i] in chars]

    if kind == "drop_last_quote":          # the closing quote of the last string of the text
        i = text.rfind('"')
        return _drop_at(text, i) if i >= 0 else text
    if kind == "drop_first_quote":
        ps = positions('"')
        return _drop_at(text, ps[0]) if ps else text
    if kind == "drop_random_quote":
        ps = positions('"')
        return _drop_at(text, rng.choice(ps)) if ps else text
    if kind == "drop_last_closer":
        ps = positions(">)]}")
        return _drop_at(text, ps[-1]) if ps else text
    if kind == "drop_final_gt":            # the `>` that closes the body
        return _drop_at(text, hi) if suffix.startswith(">") else text
    if kind == "drop_random_closer":
        ps = positions(">)]}")
        return _drop_at(text, rng.choice(ps)) if ps else text
    if kind == "drop_random_opener":
        ps = positions("<([{")
        return _drop_at(text, rng.choice(ps)) if ps else text
    if kind == "insert_closer":
        i = rng.randint(lo, hi)
        return text[:i] + rng.choice(">)]}") + text[i:]
    if kind == "truncate":
        return text[:rng.randint(lo, max(lo, hi))]
    if kind == "backslash_before_last_quote":
        i = text.rfind('"')
        return text[:i] + "\\" + text[i:] if i >= 0 else text
    if kind == "swap_closers":
        ps = positions(">)]}")
        if len(ps) >= 2:
            a, b = rng.sample(ps, 2)
            t = list(text)
            t[a], t[b] = t[b], t[a]
            return "".join(t)
    return text


def rawscan_cases(rng, quick: bool):
    """(entry, text, scan position): every fixed body and seeded random bodies under the edits of RAW_MUTATIONS;
    thorough: every fixed body under every wrapper and edit; quick: that for the first body, the wrapper rotates for
    the others, which get the unedited text, the deleted last quote and four seeded edits"""
    bodies = RAW_BODIES + [raw_body(rng) for _ in range(6 if quick else 300)]
    for bi, body in enumerate(bodies):
        wrappers = [RAW_WRAPPERS[bi % len(RAW_WRAPPERS)]] if quick and bi >= 1 else RAW_WRAPPERS
        kinds = RAW_MUTATIONS
        if not quick and bi >= len(RAW_BODIES):
            wrappers = rng.sample(RAW_WRAPPERS, 2)
        if quick and bi >= 1:     # quick: the first body under every wrapper and edit, the others under half of the edits
            kinds = RAW_MUTATIONS[:2] + rng.sample(RAW_MUTATIONS[2:], 4)
        for entry, prefix, suffix in wrappers:
            for kind in kinds:
                yield entry, raw_mutate(rng, kind, prefix, body, suffix), len(prefix)


_DIALECT_SYM_RE = re.compile(r"([#!])([A-Za-z_][\w$]*)(?=[.<])")


def unregister_dialect_symbols(text: str) -> str:
    """`#llvm.x<...>` -> `#zz_llvm.x<...>`: every dialect attribute / type of the text gets an unregistered dialect
    name, so that its body is raw-scanned instead of being parsed by the dialect's parser"""
    return _DIALECT_SYM_RE.sub(lambda m: m.group(1) + "zz_" + m.group(2), text)


def drop_last_of(rng, text: str) -> str:
    """delete the last occurrence of a closing quote / bracket (the typical incomplete edit)"""
    ch = rng.choice(['"', '"', '"', ">", ")", "]", "}"])
    i = text.rfind(ch)
    return _drop_at(text, i) if i >= 0 else text


# ---- sigil family: one dialect symbol name under both sigils (`#d.n` attribute, `!d.n` type), and parse histories ----
SIGIL_ATTR_USES = ['"test.op"() {{a = {a}}} : () -> ()', '"test.op"() <{{p = {a}}}> : () -> ()', '#al = {a}\n"test.op"() {{a = #al}} : () -> ()']
SIGIL_TYPE_USES = ['%0 = "test.op"() : () -> {t}', '"test.op"() ({{\n^b(%a : {t}):\n}}) : () -> ()', "func.func private @f({t}) -> ()",
                   '"test.op"() {{a = {t}}} : () -> ()', '!al = {t}\n%0 = "test.op"() : () -> !al']
SIGIL_SPELLINGS = ["{s}{d}.{n}<x>", "{s}{d}<{n} x>", "{s}{d}.{n}", '{s}{d}.{n}<"s", [1]>', "{s}{d}<{n}>"]


def sigil_cases(rng, quick: bool, prefix: str = "zs"):
    """lists of (entry, text, clone): the parses of one history, run one after the other in one process.  The same
    name `d.n` of an unregistered dialect — pretty `d.n<..>`, opaque `d<n ..>`, bare `d.n` — as an attribute and as
    a type, in both orders: in one module; in two parses with one Context; in two parses with a new Context each;
    through parse_attribute / parse_type.  Every history has its own name, so that it starts from a process that has
    not seen the name; registered names (`#builtin.int`, `!builtin.int`, `#llvm.ptr`, `!arith.fastmath`) likewise."""
    k = [0]

    def fresh_name() -> tuple[str, str]:
        k[0] += 1
        return f"{prefix}{k[0]}", f"n{k[0]}"

    spell = [(a, t) for a in SIGIL_SPELLINGS for t in SIGIL_SPELLINGS]
    if quick:   # every spelling on either side at least once with the first spelling of the other side, plus a seeded rest
        spell = [(a, t) for a, t in spell if a == SIGIL_SPELLINGS[0] or t == SIGIL_SPELLINGS[0]] + rng.sample(spell, 4)
    for sa, st in spell:
        for mode in ("one_module", "two_parses", "two_contexts", "entries"):
            for attr_first in (True, False):
                d, n = fresh_name()
                a, t = sa.format(s="#", d=d, n=n), st.format(s="!", d=d, n=n)
                ua = rng.choice(SIGIL_ATTR_USES).format(a=a)
                ut = rng.choice(SIGIL_TYPE_USES).format(t=t)
                pair = [("module", ua), ("module", ut)] if mode != "entries" else [("attr", a), ("type", t)]
                if not attr_first:
                    pair.reverse()
                if mode == "one_module":
                    # alias definitions go first in a module
                    lines = sorted(pair[0][1].split("\n") + pair[1][1].split("\n"), key=lambda l: not l.startswith(("#al", "!al")))
                    yield [("module", "\n".join(lines), False)]
                else:
                    yield [(e, x, mode == "two_contexts") for e, x in pair]
    # registered names under the other sigil, and a type name asked for as an attribute after it was used as a type
    for name in (["builtin.int", "llvm.ptr", "arith.fastmath", "builtin.index"] if quick else
                 ["builtin.int", "llvm.ptr", "arith.fastmath", "builtin.index"] + _NAMES["attrs"][:: max(1, len(_NAMES["attrs"]) // 40)] +
                 _NAMES["types"][:: max(1, len(_NAMES["types"]) // 40)]):
        yield [("type", "!" + name, False), ("attr", "#" + name, False), ("type", "!" + name + "<>", False)]
        yield [("attr", "#" + name + "<1>", True), ("type", "!" + name, True)]


_SYMBOL_RE = re.compile(r"([#!])([A-Za-z_][\w$]*(?:\.[A-Za-z_][\w$.]*)?)")


def _symbol_end(text: str, i: int) -> int:
    """end of the dialect symbol whose name ends at `i`: the balanced `<...>` body if there is one"""
    if i >= len(text) or text[i] != "<":
        return i
    depth, j, in_str = 0, i, False
    while j < len(text):
        c = text[j]
        if in_str:
            if c == "\\":
                j += 1
            elif c == '"':
                in_str = False
        elif c == '"':
            in_str = True
        elif c in "<([{":
            depth += 1
        elif c in ">)]}":
            depth -= 1
            if depth == 0:
                return j + 1
        j += 1
    return i


def both_sigils(rng, text: str) -> str:
    """take a dialect symbol `#d.n<...>` / `!d.n<...>` of the text and add an operation that holds the same symbol
    under the other sigil (as an attribute value / as a result type), in front of the text or behind it; half of the
    time every dialect symbol gets an unregistered dialect name first"""
    if rng.random() < 0.5:
        text = unregister_dialect_symbols(text)
    ms = [m for m in _SYMBOL_RE.finditer(text) if "." in m.group(2) or text[m.end():m.end() + 1] == "<"]
    if not ms:
        d = "zt" + str(rng.randrange(10 ** 6))
        return f'"test.op"() {{a = #{d}.n<x>}} : () -> !{d}.n<x>\n' + text
    m = rng.choice(ms)
    sym = text[m.start() + 1:_symbol_end(text, m.end())]
    as_type = f'%twin{rng.randrange(100)} = "test.op"() : () -> !{{}}\n'
    as_attr = '"test.op"() {{twin = #{}}} : () -> ()\n'
    if rng.random() < 0.5:
        # a name no earlier parse of the process has seen, under both sigils in the added operations
        sym = "q" + str(rng.randrange(10 ** 6)) + "_" + sym
        twin = as_attr.format(sym) + as_type.format(sym) if rng.random() < 0.5 else as_type.format(sym) + as_attr.format(sym)
    else:
        twin = as_type.format(sym) if m.group(1) == "#" else as_attr.format(sym)
    return twin + text if rng.random() < 0.5 else text + "\n" + twin


# ---- literal family: builtin attribute literals at the boundaries of their element types -------------------------
LIT_TYPES = ["i0", "i1", "i8", "si8", "ui8", "i32", "i64", "i1000", "index", "f16", "bf16", "f32", "f64", "f80", "f128", "tf32",
             "complex<f32>", "complex<i8>", "complex<f80>", "none", "!zz.t", "tensor<1xi8>", "i4294967296"]
LIT_VALUES = ["0", "1", "-1", "127", "128", "-128", "-129", "255", "256", "300", "65536", "9223372036854775808", "18446744073709551616",
              "0.0", "-0.0", "1.5", "70000.0", "3.5e38", "3.5e39", "1.0e309", "-1.0e309", "0x7F", "0xFF", "0x7C00", "0xFFFF", "0x7FC00000",
              "0x1p3", "true", "false", "(1, 2)", "(1.0, 2.0)", "(1, 2.0)", "(300, 0)", "(70000.0, 0.0)", '"0x00"', '"0x0000803F"', '"0xZZ"', '"s"',
              "[]", "unit", "1e", "1" + "0" * 309]
LIT_FORMS = ["dense<{v}> : tensor<1x{t}>", "dense<[{v}]> : tensor<1x{t}>", "dense<[{v}, {v}]> : vector<2x{t}>", "dense<[[{v}]]> : tensor<1x1x{t}>",
             "dense<{v}> : tensor<0x{t}>", "dense<[]> : tensor<0x{t}>", "array<{t}: {v}>", "array<{t}: {v}, {v}>", "array<{t}>", "{v} : {t}",
             "sparse<[0], [{v}]> : tensor<1x{t}>", "sparse<0, {v}> : tensor<1x{t}>"]
AFF_ATOMS = ["0", "1", "-1", "5", "d0", "s0", "(d0 + 1)", "-d0", "9223372036854775808"]
AFF_OPS = ["+", "-", "*", "floordiv", "ceildiv", "mod"]
AFF_FORMS = ["affine_map<(d0)[s0] -> ({e})>", "affine_set<(d0)[s0] : ({e} >= 0)>", "affine_map<(d0)[s0] -> ({e}, {e})>",
             "affine_set<(d0)[s0] : ({e} == 0, d0 >= 0)>"]


def literal_cases(rng, quick: bool):
    """(entry, text): every element type x literal x literal form (quick: a seeded twentieth, every type, value and form at
    least once) and every affine expression `a op b` over small atoms (constants incl. 0 on the right of a division, a
    dimension, a symbol, a sum) in maps and sets"""
    combos = [(f, t, v) for f in LIT_FORMS for t in LIT_TYPES for v in LIT_VALUES]
    if quick:
        n = max(len(LIT_FORMS), len(LIT_TYPES), len(LIT_VALUES))
        fs, ts, vs = (rng.sample(x, len(x)) for x in (LIT_FORMS, LIT_TYPES, LIT_VALUES))
        cover = [(fs[i % len(fs)], ts[i % len(ts)], vs[i % len(vs)]) for i in range(n)]
        combos = cover + rng.sample(combos, len(combos) // 20)
    for f, t, v in combos:
        yield "attr", f.format(t=t, v=v)
    exprs = [f"{a} {op} {b}" for a in AFF_ATOMS for op in AFF_OPS for b in AFF_ATOMS]
    if quick:
        exprs = [e for e in exprs if e.split()[-1] in ("0", "1", "s0")] [::2] + rng.sample(exprs, 40)
    for i, e in enumerate(exprs):
        for form in (AFF_FORMS if not quick else [AFF_FORMS[i % len(AFF_FORMS)]]):
            yield "attr", form.format(e=e)


# ---- digit-run family: numbers whose spelling crosses the interpreter's int <-> str conversion limit ----------------
# CPython refuses `int(s)` / `str(n)` / f"{n}" beyond sys.get_int_max_str_digits() decimal digits (4300 unless
# configured) with a ValueError.  Every place of the grammar that holds digits is a place where parser code converts
# (or prints, in a diagnostic) a number, so a digit run just beyond that limit is a boundary of *every* such place --
# like 2^63 is one of every 64-bit place.  None of the other streams reaches it: fuzz tokens are <= 30 digits and the
# growth ladder of the quick tier stops at 4096.
DIGIT_POSITIONS = [
    # builtin types whose *name* carries the number (one bare identifier for the lexer)
    ("type", "i{D}"), ("type", "si{D}"), ("type", "ui{D}"), ("type", "f{D}"), ("type", "bf{D}"), ("type", "tensor<2xui{D}>"),
    ("type", "vector<4xsi{D}>"), ("type", "memref<?xi{D}>"), ("type", "complex<i{D}>"), ("type", "tuple<i32, i{D}>"),
    ("type", "(i{D}) -> ()"), ("attr", "array<i{D}: 1>"), ("attr", "1 : i{D}"), ("attr", "dense<1> : tensor<1xi{D}>"),
    ("module", '%0 = "test.op"() : () -> i{D}'), ("module", '"test.op"() ({{\n^b(%a : si{D}):\n}}) : () -> ()'),
    ("module", '"test.op"() {{t = ui{D}}} : () -> ()'), ("module", "func.func private @f(i{D}) -> ()"),
    # shapes, layouts, memory spaces
    ("type", "tensor<{D}xi32>"), ("type", "tensor<?x{D}xi32>"), ("type", "vector<{D}xi32>"), ("type", "vector<[{D}]xi32>"),
    ("type", "memref<{D}xi32>"), ("type", "memref<4xi32, {D}>"), ("type", "memref<4xi32, strided<[{D}]>>"),
    ("type", "memref<4xi32, strided<[1], offset: {D}>>"), ("type", "tensor<4x{D}>"), ("type", "tensor<{D}>"),
    # integer / float / index literals, plain, signed, typed
    ("attr", "{D}"), ("attr", "-{D}"), ("attr", "{D} : i32"), ("attr", "-{D} : i64"), ("attr", "{D} : index"), ("attr", "{D} : f32"),
    ("attr", "{D}.0 : f32"), ("attr", "1.{D} : f64"), ("attr", "1.0e{D} : f32"), ("attr", "1.0e-{D} : f64"), ("attr", "{D} : i1000000"),
    ("attr", "0x{D} : i32"), ("attr", "0x{D} : f32"), ("attr", "[{D}, 1]"), ("attr", "{{a = {D}}}"),
    # dense / array / sparse element lists
    ("attr", "dense<{D}> : tensor<1xi32>"), ("attr", "dense<[{D}]> : tensor<1xi64>"), ("attr", "dense<{D}> : tensor<1xf32>"),
    ("attr", "dense<-{D}> : tensor<1xi8>"), ("attr", "dense<{D}> : tensor<1xi1>"), ("attr", "dense<({D}, 1)> : tensor<1xcomplex<i32>>"),
    ("attr", "dense<{D}> : tensor<1xindex>"), ("attr", "dense<0x{D}> : tensor<1xi32>"), ("attr", "array<i32: {D}>"),
    ("attr", "array<i64: 1, -{D}>"), ("attr", "array<f32: {D}>"), ("attr", "array<i1: {D}>"), ("attr", "sparse<[[{D}]], [1]> : tensor<1xi32>"),
    ("attr", "sparse<[[0]], [{D}]> : tensor<1xi32>"), ("attr", "dense_resource<r{D}> : tensor<1xi32>"), ("attr", 'dense<"0x{D}"> : tensor<1xi32>'),
    # affine maps and sets
    ("attr", "affine_map<(d0) -> (d0 + {D})>"), ("attr", "affine_map<(d0) -> (d0 * {D})>"), ("attr", "affine_map<(d0) -> ({D})>"),
    ("attr", "affine_map<(d0) -> (d0 floordiv {D})>"), ("attr", "affine_map<(d0) -> (d0 mod {D})>"), ("attr", "affine_map<(d0) -> (-{D})>"),
    ("attr", "affine_set<(d0) : (d0 - {D} >= 0)>"), ("attr", "affine_map<(d{D}) -> (d{D})>"), ("attr", "affine_map<(d0)[s{D}] -> (s{D})>"),
    # locations, SSA names / indices / result counts, block names, aliases, symbols
    ("module", '"test.op"() : () -> () loc("f":{D}:1)'), ("module", '"test.op"() : () -> () loc("f":1:{D})'),
    ("module", '%0:2 = "test.op"() : () -> (i32, i32)\n"test.op"(%0#{D}) : (i32) -> ()'), ("module", '%0:{D} = "test.op"() : () -> i32'),
    ("module", '%{D} = "test.op"() : () -> i32\n"test.op"(%{D}) : (i32) -> ()'), ("module", '%a_{D} = "test.op"() : () -> i32'),
    ("module", '%a_{D}_{D} = "test.op"() : () -> i32'), ("module", '"test.op"() ({{\n^{D}:\n}}) : () -> ()'),
    ("module", '"test.op"() ({{\n  "test.op"()[^bb{D}] : () -> ()\n^bb{D}:\n}}) : () -> ()'), ("module", '"test.op"() ({{\n^b_{D}(%x_{D} : i32):\n}}) : () -> ()'),
    ("module", '#a{D} = 1\n"test.op"() {{a = #a{D}}} : () -> ()'), ("module", '!t{D} = i32\n%0 = "test.op"() : () -> !t{D}'),
    ("module", '"test.op"() {{a = @s{D}}} : () -> ()'), ("module", '"test.op"() {{a{D} = 1}} : () -> ()'), ("module", '"test.op{D}"() : () -> ()'),
    ("module", '"test.op"() {{a = #zd.n{D}<{D}>}} : () -> !zd.t{D}<{D}>'), ("module", '{{-# dialect_resources: {{ builtin: {{ r{D}: "0x{D}" }} }} #-}}'),
    # a few dialects whose attributes / types / custom op syntax hold a number
    ("type", "!llvm.array<{D} x i32>"), ("type", "!llvm.ptr<{D}>"), ("type", "!llvm.struct<(i{D})>"), ("attr", "#builtin.int<{D}>"),
    ("module", "%c = arith.constant {D} : i32"), ("module", "%c = arith.constant {D} : index"), ("module", "%c = arith.constant dense<{D}> : tensor<1xi32>"),
    ("module", 'func.func @f(%a : memref<4xi32>) {{\n  %0 = affine.load %a[{D}] : memref<4xi32>\n  func.return\n}}'),
    ("module", "func.func @f() {{\n  affine.for %i = 0 to {D} {{\n  }}\n  func.return\n}}"),
    ("module", "func.func @f() {{\n  affine.for %i = 0 to 4 step {D} {{\n  }}\n  func.return\n}}"),
    ("module", "func.func @f{D}(%a{D} : i32) -> i32 {{\n  func.return %a{D} : i32\n}}"),
]
_DIGITS_RE = re.compile(r"[0-9]+")


def int_digit_limit() -> int:
    """CPython's limit on the decimal digits of an int <-> str conversion (4300 unless configured; 0 = switched off,
    the family then still uses 4300: long numbers are inputs like any other)"""
    lim = getattr(sys, "get_int_max_str_digits", lambda: 4300)()
    return lim if lim > 0 else 4300


def digit_runs(lim: int) -> list[str]:
    """digit strings at the limit: the longest one that still converts, then just beyond it -- all nines, a power of ten,
    leading zeros in front of a small value (the *spelling* is long, the number is 8), only zeros -- and far beyond it"""
    return ["9" * lim, "9" * (lim + 1), "1" + "0" * lim, "0" * (lim + 1) + "8", "0" * (lim + 1), "1" + "7" * (2 * lim + 3)]


def inflate_digits(rng, text: str, lim: int) -> str:
    """`text` with one of its ASCII digit runs (a literal, a shape dimension, the width in `i32`, the number in `%12`,
    `^bb3`, `#map1`, `d0`, `loc(..:3:4)`, whatever number the dialect syntax of the chunk holds) spelled with more digits
    than the conversion limit: the old digits first (same leading digit), then filler, or leading zeros in front"""
    runs = list(_DIGITS_RE.finditer(text))
    if not runs:
        return text
    m = rng.choice(runs)
    old = m.group(0)
    k = rng.random()
    if k < 0.5:
        new = old + rng.choice("0179") * (lim + 1 - len(old) + rng.choice([0, 0, 1, 40]))
    elif k < 0.8:
        new = "0" * (lim + 1) + old
    else:
        new = rng.choice(digit_runs(lim)[1:])
    return text[:m.start()] + new + text[m.end():]


def digitrun_cases(rng, quick: bool):
    """(stream, entry, text): every number position x every digit run at the limit (quick: the first run beyond the limit
    for every position, one seeded other run per position), then every registered dialect attribute / type name with a
    long number as its only parameter (quick: a seeded 150 of them)"""
    lim = int_digit_limit()
    runs = digit_runs(lim)
    for entry, t in DIGIT_POSITIONS:
        for d in ([runs[1], rng.choice(runs[2:]), runs[0]] if quick else runs):
            yield "digits.position", entry, t.format(D=d)
    names = [("#", n) for n in _NAMES["attrs"]] + [("!", n) for n in _NAMES["types"]]
    if quick:
        names = rng.sample(names, min(150, len(names)))
    for sig, n in names:
        for t in (["{s}{n}<{D}>"] if quick else ["{s}{n}<{D}>", "{s}{n}<i{D}>", "{s}{n}<{D}, {D}>", "{s}{n}<[{D}]>", "{s}{n}<-{D}>"]):
            yield "digits.dialect_attr", ("attr" if sig == "#" else "type"), t.format(s=sig, n=n, D=rng.choice(runs[1:4]))


# ---- identifier shapes: every short name over the classes of characters an identifier can hold, in every position ----
IDENT_ALPHABET = "a1_$.-"
IDENT_POSITIONS = [
    ("result", '%{N} = "test.op"() : () -> i32\n"test.op"(%{N}) : (i32) -> ()'),
    ("results", '%{N}:2 = "test.op"() : () -> (i32, i32)\n"test.op"(%{N}#1) : (i32) -> ()'),
    ("result_list", '%x, %{N} = "test.op"() : () -> (i32, i32)\n"test.op"(%{N}, %x) : (i32, i32) -> ()'),
    ("block_arg", '"test.op"() ({{\n^bb0(%{N} : i32):\n  "test.op"(%{N}) : (i32) -> ()\n}}) : () -> ()'),
    ("block_label", '"test.op"() ({{\n^{N}:\n  "test.op"() : () -> ()\n}}) : () -> ()'),
    ("block_label_args", '"test.op"() ({{\n^{N}(%x : i32):\n  "test.op"()[^{N}] : () -> ()\n}}) : () -> ()'),
    ("successor_forward", '"test.op"() ({{\n  "test.op"()[^{N}] : () -> ()\n^{N}:\n  "test.op"() : () -> ()\n}}) : () -> ()'),
    ("forward_use", '"test.op"() ({{\n  "test.op"(%{N}) : (i32) -> ()\n  %{N} = "test.op"() : () -> i32\n}}) : () -> ()'),
    ("func_arg", "func.func @f(%{N} : i32) -> i32 {{\n  func.return %{N} : i32\n}}"),
    ("custom_successor", 'func.func @g() {{\n  cf.br ^{N}\n^{N}:\n  func.return\n}}'),
    ("custom_region_arg", 'func.func @h(%lb : index) {{\n  scf.for %{N} = %lb to %lb step %lb {{\n    "test.op"(%{N}) : (index) -> ()\n  }}\n  func.return\n}}'),
    ("block_arg_second", '"test.op"() ({{\n^bb0(%x : i32, %{N} : i32):\n  "test.op"(%{N}) : (i32) -> ()\n}}) : () -> ()'),
]
IDENT_SYMBOL = [("symbol", 'func.func private @{N}() -> ()\n"test.op"() {{s = @{N}::@{N}}} : () -> ()')]


def ident_shapes(maxlen: int):
    """all strings over IDENT_ALPHABET (a letter, a digit, `_`, `$`, `.`, `-`) of length 1..maxlen, shortest first"""
    import itertools

    for n in range(1, maxlen + 1):
        for tup in itertools.product(IDENT_ALPHABET, repeat=n):
            yield "".join(tup)


def ident_module(name: str, positions=None) -> str:
    """one module that uses `name` in every naming position, each inside a region of its own (sibling regions do not
    see each other's names)"""
    body = []
    for _, t in positions or IDENT_POSITIONS:
        if t.startswith("func.func"):
            body.append(t.format(N=name))
        else:
            body.append('"test.op"() ({\n' + t.format(N=name) + "\n}) : () -> ()")
    return "\n".join(body) + "\n"


LEX_ALPHA = list('"\\\n\v\f\t /.-{#}@!^%>x0123456789abefABEFxX_$+-:,()[]<>=*?|') + [
    "é", "²", "٣", "́", "\0", "\xa0", "\x1c", '"', '"', "\\", "\\n", "\\00", "\\zz", "//", "...", "->", "{-#", "#-}",
    "0x", "1e+5", "1.", '@"', "\ud800", "λ", " ",
    # escapes whose bytes are / are not valid UTF-8 (STRING_LIT vs BYTES_LIT since xdsl 3ffc35d)
    "\\C3", "\\A9", "\\C3\\A9", "\\E2\\82\\AC", "\\F0\\9F\\98\\80", "\\ED\\A0\\80", "\\C0\\80", "\\E0\\80\\80",
    "\\F4\\90\\80\\80", "\\F4\\8F\\BF\\BF", "\\ff", "\\80", "\\t", '\\"', "\\\\", "€", "😀"]


def nesting_depth(text: str) -> int:
    d = m = 0
    for ch in text:
        if ch in "([{<":
            d += 1
            m = max(m, d)
        elif ch in ")]}>" and d:
            d -= 1
    return m


def has_surrogate(s: str) -> bool:
    return any(0xD800 <= ord(c) <= 0xDFFF for c in s)


def enc_cps(text: str) -> str:
    ws = []
    for c in text:
        f = ("a" if c.isalpha() else "") + ("n" if c.isnumeric() else "") + ("s" if c.isspace() else "")
        ws.append(f"{ord(c):x}" + (":" + f if f else ""))
    return " ".join(ws)


# =============================================================================================
# evaluation
# =============================================================================================

SIG_HANG = "no answer within the wall-clock limit (stuck inside C code)"
SIG_BUDGET = "CPU budget scaled to the input length exceeded"
SIG_DIED = "interpreter process died"
SIG_REC = f"RecursionError at bracket nesting depth < {REC_DEPTH_LIMIT}"


def signature_of(res: dict) -> str:
    return {"hang": SIG_HANG, "budget": SIG_BUDGET, "died": SIG_DIED, "recursion": SIG_REC}.get(
        res["out"], f"{res.get('cls')} escapes")


def is_failure(res: dict, text: str) -> bool:
    o = res["out"]
    if o in ("ok", "diag"):
        return False
    if o == "recursion":
        return nesting_depth(text) < REC_DEPTH_LIMIT
    if o == "esc" and res.get("cls") == "UnicodeEncodeError" and has_surrogate(text):
        return False
    return True


def job_for(entry: str, allow: bool, text: str) -> dict:
    """entry: module / attr / type (the parser), lex (the lexer alone), scan:<pos> (`_raw_scan_balanced(pos)` alone)"""
    if entry == "lex":
        return {"kind": "lex", "text": text}
    if entry.startswith("scan:"):
        return {"kind": "scan", "text": text, "pos": min(int(entry[5:]), len(text))}
    return {"kind": "parse", "entry": entry, "allow": allow, "text": text}


class Explorer:
    def __init__(self, ctx: core.Ctx):
        self.ctx = ctx
        self.sb = Sandbox()
        self.seen: dict[tuple[str, str], int] = {}
        self.known = {(k["call_site"], k["signature"]) for k in core.load_known_findings()
                      if k.get("property") == "C07" and k.get("status") == "known"}
        self.slow = 0
        self.unconfirmed: list[dict] = []
        self.outcomes: Counter[str] = Counter()
        self.max_cpu_per_char = 0.0
        self.lex_lines: list[tuple[str, str]] = []   # (text, impl line)
        self.scan_lines: list[tuple[str, int, str]] = []   # (text, pos, impl line)
        self.scan_unavailable = 0
        self.prog_lines: list[tuple[str, str, str]] = []   # (text, model input line, impl outcome)
        self.hint_lines: list[tuple[str, str, str]] = []   # (name, which, impl line)
        self.rec_depths: list[int] = []
        self.shrink_steps = 60 if ctx.tier == "quick" else 400

    # -- one input through the parser ------------------------------------------------------
    def job(self, entry: str, allow: bool, text: str) -> dict:
        return {"kind": "parse", "entry": entry, "allow": allow, "text": text}

    def parse(self, stream: str, entry: str, allow: bool, text: str, seed_text: str | None = None, clone: bool = False) -> dict:
        ctx = self.ctx
        res = self.sb.call(self.job_for(entry, allow, text, clone))
        ctx.ev()
        ctx.count(f"{stream}.{res['out']}" + (":" + res["cls"] if res["out"] in ("diag", "esc") else ""))
        self.outcomes[res["out"]] += 1
        if len(text) >= 200 and res["out"] in ("ok", "diag"):
            self.max_cpu_per_char = max(self.max_cpu_per_char, res["cpu"] / len(text))
        if res["out"] == "recursion":
            self.rec_depths.append(nesting_depth(text))
        if text != seed_text:
            ctx.nt(hashlib.sha1((entry + "\0" + text).encode("utf-8", "surrogatepass")).hexdigest()[:16])
        if is_failure(res, text):
            self.failure(stream, entry, allow, text, res, clone)
        return res

    def job_for(self, entry: str, allow: bool, text: str, clone: bool = False) -> dict:
        j = job_for(entry, allow, text)
        if clone and j["kind"] == "parse":
            j["clone"] = True
        return j

    def same(self, entry: str, allow: bool, text: str, key: tuple[str, str], wall: float | None = None, clone: bool = False) -> bool:
        job = self.job_for(entry, allow, text, clone)
        if wall is not None:
            job["wall"] = wall
        r = self.sb.call(job)
        return is_failure(r, text) and (r.get("site"), signature_of(r)) == key

    # -- a failure that needs the parses before it ---------------------------------------------
    def history_failure(self, stream: str, entry: str, allow: bool, texts: list[str], key: tuple[str, str], clone: bool,
                        log: list[dict]) -> bool:
        """`texts` (the shrunk and the original input) fail with `key` in the long-lived child but not in a fresh
        process.  Replays jobs that child ran before (`log`) in a fresh process in front of the input: first the earlier
        texts that share a rare identifier with it, then (short logs, thorough tier) the whole log with a bisection for
        the shortest failing prefix; reduces the history (usually to one earlier parse), shrinks the texts and reports
        the history as the failing input.  False when the failure cannot be reproduced from the log."""
        ctx = self.ctx
        if not log:
            return False

        def mk(t: str) -> dict:
            return self.job_for(entry, allow, t, clone)

        def run_after(hist: list[dict], t: str) -> dict:
            r = fresh_call(mk(t), hist)
            if r["out"] == "budget" and key[1] != SIG_BUDGET:   # a new process on a loaded machine: once more
                r = fresh_call(mk(t), hist)
            return r

        def fails(hist: list[dict], t: str) -> bool:
            r = run_after(hist, t)
            return is_failure(r, t) and (r.get("site"), signature_of(r)) == key

        ctx.count("history.searches")
        text, hist = None, None
        # (1) the likely culprits first: earlier texts that share a rare identifier (dialect symbol, value / block /
        # symbol name) with the failing text, alone in front of it
        for t in texts:
            toks = set(re.findall(r"[A-Za-z_][\w$]*(?:\.[\w$]+)+|[A-Za-z_][\w$]{2,}", t))
            holders = {tok: [j for j in log if tok in j["text"]] for tok in toks}
            rare = sorted((tok for tok in toks if 0 < len(holders[tok]) <= 12), key=lambda tok: (len(holders[tok]), -len(tok), tok))
            for tok in rare[:6]:
                if fails(holders[tok], t):
                    text, hist = t, holders[tok]
                    break
            if text is not None:
                break
        # (2) the whole log: shortest failing prefix by bisection (state only accumulates)
        if text is None and (len(log) <= 300 or ctx.tier != "quick") and ctx.time_left() > 20:
            text = next((t for t in texts if fails(log, t)), None)
            if text is not None:
                lo, hi = 0, len(log)
                while hi - lo > 1:
                    mid = (lo + hi) // 2
                    if fails(log[:mid], text):
                        hi = mid
                    else:
                        lo = mid
                hist = log[:hi]
        if text is None or hist is None:
            return False
        if len(hist) > 1 and fails(hist[-1:], text):
            hist = hist[-1:]
        elif len(hist) > 1:
            hist = core.shrink_list(hist, lambda c: ctx.time_left() > 5 and fails(c, text), 40)
        if len(hist) <= 3:
            steps = 8 if ctx.tier == "quick" else 150
            text = shrink_text(text, lambda t: ctx.time_left() > 5 and fails(hist, t), steps)
            for k in range(len(hist)):
                def with_k(t: str, k=k) -> bool:
                    return ctx.time_left() > 5 and fails(hist[:k] + [{**hist[k], "text": t}] + hist[k + 1:], text)
                hist[k] = {**hist[k], "text": shrink_text(hist[k]["text"], with_k, steps)}
        r = run_after(hist, text)
        if not (is_failure(r, text) and (r.get("site"), signature_of(r)) == key):
            return False
        alone = run_after([], text)
        case = {"stream": stream, "entry": entry, "allow_unregistered": allow, "text": text,
                "history": [{k: v for k, v in h.items() if k in ("kind", "entry", "allow", "text", "pos", "clone", "which")} for h in hist]}
        if clone:
            case["clone_context"] = True
        ctx.count("history.failures")
        ctx.fail(key[0], key[1], case,
                 f"{entry} parse of a {len(text)}-character input ended with {r['out']} ({r.get('cls')}) in a process that had parsed "
                 f"{len(hist)} other text(s) before; alone in a new process it ends with {alone['out']}: {r.get('msg', '')}",
                 {"outcome": r["out"], "exception": r.get("cls"), "raised_in": r.get("site"), "line": r.get("line"),
                  "message": r.get("msg"), "current_token": r.get("token"), "outcome_alone": alone["out"]},
                 "IR, ParseError or a DiagnosticException within the CPU budget, whatever was parsed before")
        return True

    def failure(self, stream: str, entry: str, allow: bool, text: str, res: dict, clone: bool = False) -> None:
        ctx = self.ctx
        key = (res.get("site", "?"), signature_of(res))
        before = self.sb.log[:-1] if self.seen.get(key, 0) == 0 and res["out"] in ("esc", "recursion") and entry != "lex" else []
        if res["out"] in ("hang", "budget"):
            self.slow += 1
        self.seen[key] = self.seen.get(key, 0) + 1
        if self.seen[key] > 1:
            return
        if key in self.known and ctx.tier == "quick":
            # listed known finding: reported as KNOWN-FINDING whatever the input looks like; neither shrinking
            # nor the fresh-process confirmation (about a second each on a loaded machine) is spent on it
            ctx.fail(key[0], key[1], {"stream": stream, "entry": entry, "allow_unregistered": allow, "text": text[:400]},
                     f"{entry} parse ended with {res['out']} ({res.get('cls')}): {res.get('msg', '')}",
                     {"outcome": res["out"], "exception": res.get("cls"), "raised_in": res.get("site")},
                     "IR, ParseError or a DiagnosticException within the CPU budget")
            return
        small = text
        if ctx.time_left() > 15:
            if res["out"] == "hang":
                if len(text) > 300:
                    small = shrink_text(text, lambda t: self.same(entry, allow, t, key, wall=10.0, clone=clone), 8, True)
            else:
                steps = 25 if key in self.known else self.shrink_steps
                small = shrink_text(text, lambda t: self.same(entry, allow, t, key, clone=clone), steps, res["out"] == "budget")
        # confirm in a fresh process (no state left over from earlier parses): the shrunk text, else the original
        r3 = None
        for cand in ([small, text] if small != text else [text]):
            r = fresh_call(self.job_for(entry, allow, cand, clone))
            if is_failure(r, cand) and (r.get("site"), signature_of(r)) == key:
                small, r3 = cand, r
                break
        if r3 is None:
            # not a function of the text alone.  Is it a function of the text and of what this process parsed before?
            # Then a process that parses those texts first and this one next fails in the same way: a failing input
            # of the statement (a history of parses, the last of which escapes)
            found = before and self.history_failure(stream, entry, allow, [small, text] if small != text else [text], key, clone, before)
            if found:
                return
            self.unconfirmed.append({"stream": stream, "entry": entry, "text": text[:300],
                                     "first": [res["out"], res.get("cls"), res.get("site")], "fresh": [r["out"], r.get("cls"), r.get("site")]})
            del self.seen[key]
            return
        case = {"stream": stream, "entry": entry, "allow_unregistered": allow, "text": small}
        if clone:
            case["clone_context"] = True
        ctx.fail(key[0], key[1], case,
                 f"{entry} parse of a {len(small)}-character input ended with {r3['out']} ({r3.get('cls')}): {r3.get('msg', '')}",
                 {"outcome": r3["out"], "exception": r3.get("cls"), "raised_in": r3.get("site"), "line": r3.get("line"),
                  "message": r3.get("msg"), "current_token": r3.get("token"), "cpu_s": round(r3.get("cpu", 0.0), 3)},
                 "IR, ParseError or a DiagnosticException within the CPU budget")

    # -- the lexer alone, for the correspondence ---------------------------------------------
    def lex(self, stream: str, text: str) -> None:
        ctx = self.ctx
        res = self.sb.call({"kind": "lex", "text": text})
        ctx.ev()
        if res["out"] == "ok":
            line = res["lex"]
            ntok = line.count(":") // 2
            if ntok >= 5 or ("ERR:" in line and ntok >= 3):
                ctx.nt("lex:" + hashlib.sha1(text.encode("utf-8", "surrogatepass")).hexdigest()[:16])
            ctx.count(f"lex.{stream}." + ("error" if "ERR:" in line else "tokens"))
            self.lex_lines.append((text, line))
            if "other-message" in line:
                ctx.fail("xdsl.utils.mlir_lexer.MLIRLexer.lex", "lexer ParseError with an unknown message",
                         {"stream": "lex", "text": text}, "the lexer raised a ParseError the model does not know", line, None)
            return
        ctx.count(f"lex.{stream}.{res['out']}")
        if is_failure(res, text):
            self.failure("lex." + stream, "lex", False, text, res)


    # -- `_raw_scan_balanced` alone, for the correspondence with the `raw_scan` model ---------------
    def scan(self, stream: str, text: str, pos: int) -> None:
        ctx = self.ctx
        res = self.sb.call({"kind": "scan", "text": text, "pos": pos})
        ctx.ev()
        if res["out"] == "ok":
            line = res["scan"]
            if line == "unavailable":
                self.scan_unavailable += 1
                return
            if line == "skip":
                ctx.count(f"{stream}.scan.first_token_does_not_lex")
                return
            ctx.count(f"{stream}.scan." + line.split(":")[0].split()[0] + (":" + line.split(":")[1] if line.startswith("ERR:") else ""))
            ctx.nt("scan:" + hashlib.sha1(f"{pos}\0{text}".encode("utf-8", "surrogatepass")).hexdigest()[:16])
            self.scan_lines.append((text, pos, line))   # a ParseError with a message the model does not know: a mismatch there
            return
        ctx.count(f"{stream}.scan.{res['out']}")
        if is_failure(res, text):
            self.failure(stream + ".scan", f"scan:{pos}", True, text, res)


    # -- the name hint of one parsed value / block, for the correspondence with the `value_names` model ----------
    def hint(self, name: str, which: str) -> None:
        ctx = self.ctx
        res = self.sb.call({"kind": "hint", "text": name, "which": which})
        ctx.ev()
        if res["out"] == "ok":
            line = res["hint"]
            ctx.count(f"ident.hint.{which}." + line.split()[0])
            if line != "skip":
                ctx.nt(f"hint:{which}:{name}")
                self.hint_lines.append((name, which, line))
            return
        ctx.count(f"ident.hint.{which}.{res['out']}")
        text = HINT_TEMPLATES[which].format(N=name)
        if is_failure(res, text):
            # the same text through the ordinary parse job: that is the failing input
            self.parse("ident.hint", "module", True, text)


def shrink_text(text: str, pred, max_steps: int, keep_long: bool = False) -> str:
    """delta debugging: lines first, then characters"""
    calls = [0]

    def p(parts: list[str], sep: str) -> bool:
        calls[0] += 1
        return pred(sep.join(parts))

    lines = text.split("\n")
    if len(lines) > 1:
        lines = core.shrink_list(lines, lambda c: p(c, "\n"), max_steps // 2)
    cur = "\n".join(lines)
    if not keep_long and len(cur) <= 4000:
        budget = max(0, max_steps - calls[0])
        if budget:
            cur = "".join(core.shrink_list(list(cur), lambda c: p(c, ""), budget))
    return cur


# =============================================================================================
# growth families
# =============================================================================================

def _ops(n: int, line: str) -> str:
    return "".join(line.replace("$", str(i)) for i in range(n))


FAMILIES: dict[str, Any] = {
    "unterminated_string": lambda n: '"' + "a" * n,
    "unterminated_string_in_attr": lambda n: '"test.op"() {a = "' + "a" * n + "\n} : () -> ()",
    "unterminated_at_string": lambda n: '@"' + "a" * n,
    "string_with_escapes": lambda n: '"test.op"() {a = "' + "ab\\n\\00" * n + '"} : () -> ()',
    "string_bad_escape_at_end": lambda n: '"test.op"() {a = "' + "ab\\n" * n + '\\q"} : () -> ()',
    "long_comment": lambda n: "//" + "a" * n + '\n"test.op"() : () -> ()',
    "many_comment_lines": lambda n: "// c\n" * n + '"test.op"() : () -> ()',
    "whitespace_run": lambda n: " \t\n" * n + '"test.op"() : () -> ()',
    "slashes": lambda n: "/ " * n,
    "nested_array_attr": lambda n: '"test.op"() {a = ' + "[" * n + "]" * n + "} : () -> ()",
    "unclosed_brackets": lambda n: '"test.op"() {a = ' + "[" * n,
    "nested_regions": lambda n: '"test.op"() ({' * n + "}) : () -> ()" * n,
    "nested_tuple_type": lambda n: '%0 = "test.op"() : () -> ' + "tuple<" * n + "i32" + ">" * n,
    "nested_function_type": lambda n: '%0 = "test.op"() : () -> ' + "(" * n + "i32" + ")" * n,
    "long_decimal_literal": lambda n: '"test.op"() {a = ' + "1" * n + "} : () -> ()",
    "long_hex_literal": lambda n: '"test.op"() {a = 0x' + "f" * n + "} : () -> ()",
    "long_float_literal": lambda n: '"test.op"() {a = 1.' + "0" * n + "1 : f64} : () -> ()",
    "long_float_exponent": lambda n: '"test.op"() {a = 1.0e' + "9" * n + " : f64} : () -> ()",
    "long_tuple_index": lambda n: '%0 = "test.op"() : () -> i32\n"test.op"(%0#' + "0" * n + ") : (i32) -> ()",
    "long_result_count": lambda n: "%0:" + "1" * n + ' = "test.op"() : () -> i32',
    "long_tensor_dim": lambda n: '%0 = "test.op"() : () -> tensor<' + "9" * n + "xi32>",
    "long_integer_type_width": lambda n: '%0 = "test.op"() : () -> i' + "9" * n,
    "long_bare_identifier": lambda n: '"test.op"() {' + "a" * n + " = 1} : () -> ()",
    "long_ssa_name": lambda n: "%" + "a" * n + ' = "test.op"() : () -> i32',
    "ssa_name_numeric_suffixes": lambda n: "%" + "_1" * n + 'x = "test.op"() : () -> i32',
    "block_name_numeric_suffixes": lambda n: '"test.op"() ({ ^' + "_1" * n + "x: }) : () -> ()",
    "long_symbol_name": lambda n: '"test.op"() {a = @' + "a" * n + "} : () -> ()",
    "long_op_name": lambda n: '"' + "a." + "b" * n + '"() : () -> ()',
    "many_ops": lambda n: _ops(n, '%$ = "test.op"() : () -> i32\n'),
    "many_ops_with_regions": lambda n: _ops(n, '%$ = "test.op"() ({}) : () -> i32\n'),
    "many_ops_using_values": lambda n: '%a = "test.op"() : () -> i32\n' + _ops(n, '"test.op"(%a, %a) : (i32, i32) -> ()\n'),
    "many_forward_references": lambda n: '"test.op"() ({\n' + _ops(n, '"test.op"(%$) : (i32) -> ()\n') + _ops(n, '%$ = "test.op"() : () -> i32\n') + "}) : () -> ()",
    "many_blocks": lambda n: '"test.op"() ({\n' + _ops(n, '^b$:\n "test.op"() : () -> ()\n') + "}) : () -> ()",
    "many_block_forward_refs": lambda n: '"test.op"() ({\n"test.op"()[' + ", ".join(f"^b{i}" for i in range(n)) + "] : () -> ()\n" + _ops(n, "^b$:\n") + "}) : () -> ()",
    "many_block_args": lambda n: '"test.op"() ({\n^b(' + ", ".join(f"%a{i} : i32" for i in range(n)) + "):\n}) : () -> ()",
    "many_results": lambda n: ", ".join(f"%r{i}" for i in range(n)) + ' = "test.op"() : () -> (' + ", ".join(["i32"] * n) + ")",
    "many_dict_entries": lambda n: '"test.op"() {' + ", ".join(f"a{i} = {i}" for i in range(n)) + "} : () -> ()",
    "many_properties": lambda n: '"test.op"() <{' + ", ".join(f"a{i} = {i}" for i in range(n)) + "}> : () -> ()",
    "long_array_attr": lambda n: '"test.op"() {a = [' + ", ".join(["1"] * n) + "]} : () -> ()",
    "long_dense_int": lambda n: '"test.op"() {a = dense<[' + ", ".join(["1"] * n) + f"]> : tensor<{n}xi32>" + "} : () -> ()",
    "long_dense_float": lambda n: '"test.op"() {a = dense<[' + ", ".join(["1.5"] * n) + f"]> : tensor<{n}xf32>" + "} : () -> ()",
    "long_dense_hex_string": lambda n: '"test.op"() {a = dense<"0x' + "00" * (4 * n) + f'"> : tensor<{n}xi32>' + "} : () -> ()",
    "long_dense_array": lambda n: '"test.op"() {a = array<i32: ' + ", ".join(["1"] * n) + ">} : () -> ()",
    "long_shape": lambda n: '%0 = "test.op"() : () -> tensor<' + "1x" * n + "i32>",
    "long_function_type": lambda n: '%0 = "test.op"() : () -> ((' + ", ".join(["i32"] * n) + ") -> ())",
    "long_affine_sum": lambda n: '"test.op"() {a = affine_map<(d0) -> (' + " + ".join(["d0"] * n) + ")>} : () -> ()",
    "long_affine_results": lambda n: '"test.op"() {a = affine_map<(d0) -> (' + ", ".join(["d0"] * n) + ")>} : () -> ()",
    "affine_many_dims": lambda n: '"test.op"() {a = affine_map<(' + ", ".join(f"d{i}" for i in range(n)) + ") -> (d0)>} : () -> ()",
    "nested_affine_parens": lambda n: '"test.op"() {a = affine_map<(d0) -> (' + "(" * n + "d0" + ")" * n + ")>} : () -> ()",
    "many_aliases": lambda n: _ops(n, "#al$ = $\n") + '"test.op"() {a = #al0} : () -> ()',
    "alias_chain": lambda n: "#al0 = 0\n" + "".join(f"#al{i + 1} = [#al{i}]\n" for i in range(n)) + '"test.op"() : () -> ()',
    "fused_loc": lambda n: '"test.op"() : () -> () loc(fused[' + ", ".join(['"a"'] * n) + "])",
    "unregistered_attr_body": lambda n: '"test.op"() {a = #foo.bar<' + "a(b)" * n + ">} : () -> ()",
    "unregistered_attr_nested": lambda n: '"test.op"() {a = #foo.bar<' + "<" * n + ">" * n + ">} : () -> ()",
    # bodies of unregistered dialect attributes / types are not lexed but raw-scanned (`_raw_scan_balanced`)
    "unterminated_string_in_unregistered_attr": lambda n: '"test.op"() {a = #foo.bar<"' + "a" * n + ">} : () -> ()",
    "unterminated_string_in_unregistered_type": lambda n: '%0 = "test.op"() : () -> !foo.bar<"' + "a" * n + ">",
    "unterminated_string_in_opaque_attr": lambda n: '"test.op"() {a = #foo<bar "' + "ab " * n + ">} : () -> ()",
    "unterminated_string_with_escapes_in_unregistered_attr": lambda n: '"test.op"() {a = #foo.bar<"' + 'ab\\"' * n + ">} : () -> ()",
    "unterminated_string_nested_in_unregistered_attr": lambda n: '"test.op"() {a = #foo.bar<[(x, {k = "' + "a, " * n + "})]>} : () -> ()",
    "long_string_in_unregistered_attr": lambda n: '"test.op"() {a = #foo.bar<"' + "a" * n + '">} : () -> ()',
    "many_strings_in_unregistered_attr": lambda n: '"test.op"() {a = #foo.bar<' + '"a", ' * n + ">} : () -> ()",
    "string_escapes_in_unregistered_attr": lambda n: '"test.op"() {a = #foo.bar<"' + 'a\\"\\\\' * n + '">} : () -> ()',
    "unclosed_unregistered_attr_body": lambda n: '"test.op"() {a = #foo.bar<' + "(a" * n,
    "unregistered_attr_arrows": lambda n: '"test.op"() {a = #foo.bar<' + "->-" * n + ">} : () -> ()",
    "error_after_many_lines": lambda n: _ops(n, '%$ = "test.op"() : () -> i32\n') + "}",
    "undefined_values_at_end": lambda n: '"test.op"(' + ", ".join(f"%u{i}" for i in range(n)) + ") : (" + ", ".join(["i32"] * n) + ") -> ()",
    "func_many_args": lambda n: "func.func @f(" + ", ".join(f"%a{i} : i32" for i in range(n)) + ") {\n  func.return\n}",
    "arith_chain": lambda n: "func.func @f(%a0 : i32) -> i32 {\n" + "".join(f"  %a{i + 1} = arith.addi %a{i}, %a{i} : i32\n" for i in range(n)) + f"  func.return %a{n} : i32\n}}",
}
# families whose *input* nests n levels deep: a RecursionError beyond REC_DEPTH_LIMIT is outside the statement
NESTED = {"nested_array_attr", "unclosed_brackets", "nested_regions", "nested_tuple_type", "nested_function_type",
          "nested_affine_parens", "unregistered_attr_nested", "alias_chain"}
LADDER = [4, 8, 12, 16, 20, 24, 28, 32, 48, 64, 96, 128, 192, 256, 512, 1024, 2048, 4096, 8192, 16384, 32768, 65536,
          131072, 262144, 524288, 1048576]


def run_family(ex: Explorer, name: str, nmax: int, chars_max: int, cap: float) -> None:
    ctx = ex.ctx
    gen = FAMILIES[name]
    pts: list[tuple[int, int, float]] = []   # (n, chars, cpu)
    last_res = None
    for n in LADDER:
        if n > nmax:
            break
        text = gen(n)
        if len(text) > chars_max:
            break
        job = ex.job("module", True, text)
        # texts below 1 kB run under the per-parse guard of every other stream (exceeding it is "no prompt
        # termination" whatever the ratios say); larger ones get room for the ratio measurement
        small = len(text) < SMALL_TEXT
        job["cpu"] = CPU_BASE + CPU_PER_CHAR * len(text) if small else max(CPU_BASE + CPU_PER_CHAR * len(text), 8.0)
        res = ex.sb.call(job)
        ctx.ev()
        ctx.count(f"growth.{name}.{res['out']}" + (":" + res["cls"] if res["out"] in ("diag", "esc") else ""))
        last_res = (n, text, res)
        if res["out"] == "recursion":
            ex.rec_depths.append(nesting_depth(text))
        if is_failure(res, text):
            ex.failure("growth." + name, "module", True, text, res)
            break
        if res["out"] not in ("ok", "diag"):
            break
        pts.append((n, len(text), res["cpu"]))
        if res["cpu"] > cap and not small:
            break
    ctx.extra.setdefault("growth", {})[name] = [[n, c, round(t, 4)] for n, c, t in pts][-6:]
    if len(pts) < 2:
        return
    verdict = superlinear(pts)
    if verdict is None:
        return
    (nj, cj, tj), (nl, cl, tl) = verdict
    # re-measure four times (spaced out: a loaded machine inflates single CPU-time samples); keep the most
    # favourable numbers for the code -- a genuinely super-linear family is confirmed every time
    for _k in range(4):
        time.sleep(0.3 * _k)
        a = ex.sb.call({**ex.job("module", True, gen(nj)), "cpu": 30.0})
        b = ex.sb.call({**ex.job("module", True, gen(nl)), "cpu": 60.0})
        if a["out"] not in ("ok", "diag") or b["out"] not in ("ok", "diag", "budget"):
            return
        tj, tl = max(tj, a["cpu"]), min(tl, b["cpu"])
        if superlinear([(nj, cj, tj), (nl, cl, tl)]) is None:
            ctx.count("growth.flag_not_confirmed")
            return
    # find the hot spot: interrupt the large run part-way a few times and look at the innermost xdsl frame
    sites: Counter[str] = Counter()
    for frac in (0.3, 0.5, 0.7, 0.85):
        r = ex.sb.call({**ex.job("module", True, gen(nl)), "cpu": max(0.05, tl * frac), "wall": 120.0})
        if r["out"] == "budget":
            sites[r.get("site", "?")] += 1
    site = sites.most_common(1)[0][0] if sites else "xdsl.parser.core.Parser.parse_module"
    key = (site, "super-linear parse time")
    ex.seen[key] = ex.seen.get(key, 0) + 1
    small_n = nl
    ctx.fail(site, "super-linear parse time",
             {"stream": "growth", "family": name, "n": small_n, "n_ref": nj, "chars": cl},
             f"family {name}: {cl} chars take {tl:.2f}s CPU but {cj} chars take {tj:.4f}s: x{tl / max(tj, 1e-9):.0f} time for x{cl / cj:.1f} size",
             {"points": [[n, c, round(t, 4)] for n, c, t in pts], "confirmed": [[nj, cj, round(tj, 4)], [nl, cl, round(tl, 4)]],
              "hot_spots": dict(sites)},
             "time roughly proportional to the input size (<= 4x the linear extrapolation over a 16x size span)")


RATE_FLOOR = 10e-6   # s per character: below this overall rate a run is never called super-linear


def superlinear(pts: list[tuple[int, int, float]]):
    """last point > 0.5 s CPU, slower than 10 us per character overall, and more than 4x the linear
    extrapolation from the point ~16x smaller (allocator/cache cliffs on megabyte inputs that still run
    at a normal per-character rate are not flagged)"""
    nl, cl, tl = pts[-1]
    if tl <= 0.5 or tl / max(cl, 1) <= RATE_FLOOR:
        return None
    ref = None
    for p in pts[:-1]:
        if p[1] * 16 <= cl:
            ref = p
    if ref is None:
        ref = pts[0]
    nj, cj, tj = ref
    if cl < 2 * cj:
        return None
    if tl > 4.0 * (cl / cj) * max(tj, 0.002):
        return ref, pts[-1]
    return None


# =============================================================================================
# correspondence with the Lean model
# =============================================================================================

def run_correspondence(ctx: core.Ctx, ex: Explorer) -> None:
    pairs = ex.lex_lines
    lines = ["lex " + enc_cps(t) if t else "lex" for t, _ in pairs]
    if not lines:
        return
    model = ctx.model("mlir_lexer", lines)
    bad = 0
    for (text, impl), m in zip(pairs, model):
        if impl != m:
            bad += 1
            if bad == 1:
                def differs(t: str) -> bool:
                    r = ex.sb.call({"kind": "lex", "text": t})
                    return r["out"] == "ok" and ctx.model("mlir_lexer", ["lex " + enc_cps(t) if t else "lex"])[0] != r["lex"]

                small = text
                if len(text) > 12:
                    small = "".join(core.shrink_list(list(text), lambda c: differs("".join(c)), 80))
                    r = ex.sb.call({"kind": "lex", "text": small})
                    impl, m = r.get("lex", impl), ctx.model("mlir_lexer", ["lex " + enc_cps(small) if small else "lex"])[0]
                ctx.mismatch("correspondence:C07/mlir_lexer", {"stream": "lex", "text": small}, impl, m,
                             "token kinds/spans (or error) of MLIRLexer differ from the Lean model")
    ctx.count("lex.correspondence_compared", len(pairs))
    ctx.count("lex.correspondence_mismatch", bad)
    # step counter of the model on the same inputs (reported; the bound itself is a theorem)
    sample = [t for t, _ in pairs[:: max(1, len(pairs) // 300)]]
    st = ctx.model("mlir_lexer", ["steps " + enc_cps(t) for t in sample])
    worst = 0.0
    for l in st:
        w = l.split()
        if len(w) == 3 and w[0] == "steps":
            s, n = int(w[1]), int(w[2])
            if s > 14 * n + 7:
                ctx.mismatch("theorem:lex_steps_le", {"steps": s, "n": n}, None, l, "model step count above the proved bound")
            worst = max(worst, s / (n + 1))
    ctx.extra["model_steps_per_codepoint_max"] = round(worst, 3)


def run_rawscan(ctx: core.Ctx, ex: "Explorer", chunks: list[str], quick: bool) -> None:
    """bodies of unregistered dialect attributes / types: every text through the parser (outcome class, CPU guard)
    and through `_raw_scan_balanced` alone (compared with the Lean model afterwards)"""
    rng = ctx.rng
    for entry, text, pos in rawscan_cases(rng, quick):
        ex.parse("rawscan", entry, True, text)
        ex.scan("rawscan", text, pos)
        if ex.slow >= 4:
            return
    # corpus chunks whose dialect attributes / types get an unregistered dialect name, as they are and with the last
    # closing quote / bracket of the text deleted
    cand = [c for c in chunks if len(c) <= 2500 and '"' in c and _DIALECT_SYM_RE.search(c)]
    for c in rng.sample(cand, min(len(cand), 20 if quick else len(cand))):
        u = unregister_dialect_symbols(c)
        for t in [u, _drop_at(u, u.rfind('"'))] + [drop_last_of(rng, u) for _ in range(1 if quick else 3)]:
            ex.parse("rawscan.corpus", "module", True, t, seed_text=c)
            m = re.search(r"[#!]zz_[\w$.]*<", t)
            if m:
                ex.scan("rawscan.corpus", t, m.end())
        if ex.slow >= 4:
            return


def run_sigils(ctx: core.Ctx, ex: "Explorer", quick: bool) -> None:
    """histories of parses in which one dialect symbol name occurs under both sigils.  Every parse goes through the
    oracle of the statement (an escape that needs the earlier parses is searched for and reported with its history);
    for a sample of histories the outcome class of the last parse is compared with that of the same text in a new
    process — a difference between IR and a diagnostic is evidence only (both are outcomes the statement allows)"""
    rng = ctx.rng
    hists = list(sigil_cases(rng, quick))
    checked = set(rng.sample(range(len(hists)), min(len(hists), 2 if quick else 80)))
    differs: list[dict] = []
    for hi, hist in enumerate(hists):
        res = None
        for entry, text, clone in hist:
            res = ex.parse("sigil." + ("one_parse" if len(hist) == 1 else "history"), entry, True, text, clone=clone)
        ctx.count("sigil.histories")
        if len(hist) > 1 and hi in checked and res is not None and res["out"] in ("ok", "diag"):
            entry, text, clone = hist[-1]
            alone = fresh_call(ex.job_for(entry, True, text, clone))
            ctx.count("sigil.compared_with_new_process")
            if alone["out"] in ("ok", "diag") and alone["out"] != res["out"]:
                ctx.count("sigil.outcome_depends_on_history")
                differs.append({"history": [t for _, t, _ in hist], "after_history": [res["out"], res.get("cls"), res.get("emsg")],
                                "alone": [alone["out"], alone.get("cls"), alone.get("emsg")]})
        if ex.slow >= 4:
            break
    ctx.extra["outcome_depends_on_history"] = differs[:10]


def run_digitruns(ctx: core.Ctx, ex: "Explorer", chunks: list[str], quick: bool) -> None:
    """deterministic (not time-boxed; texts of 4-9 kB that lex as a handful of tokens, about a millisecond each)"""
    rng = ctx.rng
    lim = int_digit_limit()
    ctx.extra["int_max_str_digits"] = lim
    for i, (stream, entry, text) in enumerate(digitrun_cases(rng, quick)):
        ex.parse(stream, entry, i % 3 != 0, text)
        if ex.slow >= 4:
            return
    small = [c for c in chunks if len(c) <= 2500 and _DIGITS_RE.search(c)]
    for i, c in enumerate(rng.sample(small, min(len(small), 150)) if quick else small * 3):
        ex.parse("digits.corpus", "module", i % 2 == 0, inflate_digits(rng, c, lim), seed_text=c)
        if ex.slow >= 4:
            return


def run_idents(ctx: core.Ctx, ex: "Explorer", quick: bool) -> None:
    """every identifier shape of length <= 3 (quick: plus a seeded sample of length 4; thorough: <= 4 plus 1500 seeded of length 5) in every naming
    position.  One module holds all positions; when it ends in a diagnostic (one position rejects the name) every
    position is parsed alone, so that the others are still reached"""
    rng = ctx.rng
    names = list(ident_shapes(3 if quick else 4))
    if quick:
        names += rng.sample([n for n in ident_shapes(4) if len(n) == 4], 120)
    else:
        names += rng.sample([n for n in ident_shapes(5) if len(n) == 5], 1500)
    for i, name in enumerate(names):
        allow = i % 2 == 0
        res = ex.parse("ident.all_positions", "module", allow, ident_module(name))
        if res["out"] == "diag":
            for pos in IDENT_POSITIONS:
                r = ex.parse("ident." + pos[0], "module", allow, ident_module(name, [pos]))
                if r["out"] == "ok":
                    ctx.count("ident.accepted." + pos[0])
        elif res["out"] == "ok":
            ctx.count("ident.accepted_everywhere")
        ex.parse("ident.symbol", "module", allow, ident_module(name, IDENT_SYMBOL))
        for which in HINT_TEMPLATES:
            ex.hint(name, which)
        # names of length <= 2 always; quick: the longer ones while the budget lasts
        if ex.slow >= 4 or (quick and len(name) >= 2 and i + 1 < len(names) and len(names[i + 1]) > 2 and
                            ctx.time_left() < (12 if len(names[i + 1]) == 3 else 30)):
            ctx.count("ident.cut_short")
            break
    ctx.count("ident.names", len(names))


def run_ssa_progs(ctx: core.Ctx, ex: "Explorer", n: int) -> None:
    """generated SSA-name programs through `Parser.parse_module`; the outcome (IR / which ParseError) is kept for
    the comparison with the `ssa_names` model"""
    for i in range(n):
        text, line = gen_ssa_prog(ctx.rng)
        res = ex.parse("ssa.prog", "module", i % 2 == 0, text)
        if res["out"] == "ok":
            ex.prog_lines.append((text, line, "ok"))
        elif res["out"] == "diag":
            m = res.get("emsg", "")
            ex.prog_lines.append((text, line, "ERR:" + next((i for p, i in SSA_PROG_MSGS if p in m), "other:" + m[:60])))
        if ex.slow >= 4:
            return


def run_prog_correspondence(ctx: core.Ctx, ex: "Explorer") -> None:
    rows = ex.prog_lines
    if not rows:
        return
    model = ctx.model("ssa_names", [l for _, l, _ in rows])
    bad = 0
    kinds: Counter[str] = Counter()
    for (text, line, impl), m in zip(rows, model):
        kinds[m] += 1
        if m.startswith("INTERNAL"):
            ctx.mismatch("theorem:run_no_internal", {"events": line}, None, m, "the model reached a failing subscript")
        if impl.startswith("ERR:other:") and m.startswith("ERR:"):
            # a diagnostic whose wording the harness does not know (reworded message): both sides report a ParseError,
            # which is all the property asks for; counted, not flagged
            ctx.count("ssa.prog.diagnostic_with_unknown_wording")
            continue
        if impl != m:
            bad += 1
            if bad == 1:
                ctx.mismatch("correspondence:C07/ssa_names", {"stream": "ssa.prog", "entry": "module", "text": text, "events": line},
                             impl, m, "outcome of Parser.parse_module (IR / which ParseError) differs from the SSA-name table model")
    for k, v in kinds.items():
        ctx.count("ssa.prog.model." + k, v)
    ctx.count("ssa.prog.correspondence_compared", len(rows))
    ctx.count("ssa.prog.correspondence_mismatch", bad)


def run_hint_correspondence(ctx: core.Ctx, ex: "Explorer") -> None:
    """`name_hint` of the parsed value / block against `ValueNames.valueHint` / `blockHint`"""
    rows = ex.hint_lines
    if not rows:
        return
    model = ctx.model("value_names", [("value " if w == "value" else "block ") + " ".join(f"{ord(c):x}" for c in n) for n, w, _ in rows])
    bad = 0
    for (name, which, impl), m in zip(rows, model):
        if m == "ERR:ValueError":
            ctx.mismatch("theorem:valueHint_no_error", {"name": name, "which": which}, None, m, "the model reached the ValueError of the setter")
        if impl != m:
            bad += 1
            if bad == 1:
                ctx.mismatch("correspondence:C07/value_names", {"stream": "ident.hint", "entry": "module", "which": which, "name": name,
                                                                "text": HINT_TEMPLATES[which].format(N=name)}, impl, m,
                             "name_hint of the parsed value / block differs from the Lean model of is_valid_name / extract_valid_name")
    ctx.count("ident.hint.correspondence_compared", len(rows))
    ctx.count("ident.hint.correspondence_mismatch", bad)


def run_scan_correspondence(ctx: core.Ctx, ex: "Explorer") -> None:
    """result / error kind / position of the real `_raw_scan_balanced` against `RawScan.scan`; the model's own
    iteration count against the proved bounds (`scan_steps_le`, `scan_ok_steps`)"""
    rows = ex.scan_lines
    ctx.extra["raw_scan_direct_calls_unavailable"] = ex.scan_unavailable
    if not rows:
        return

    def enc(text: str, pos: int) -> str:
        return f"scan {pos} " + " ".join(f"{ord(c):x}" for c in text)

    model = ctx.model("raw_scan", [enc(t, p) for t, p, _ in rows])
    bad = 0
    worst = 0.0
    for (text, pos, impl), m in zip(rows, model):
        res, _, tail = m.partition(" steps ")
        w = tail.split()
        if len(w) == 2:
            steps, n = int(w[0]), int(w[1])
            worst = max(worst, steps / (n + 1))
            limit = n + 1
            if res.startswith("ok "):
                limit = min(limit, int(res[3:]) - pos + 1)
            if steps > limit:
                ctx.mismatch("theorem:scan_steps_le", {"text": text, "pos": pos, "steps": steps, "n": n}, None, m,
                             "model iteration count above the proved bound")
        if impl != res:
            bad += 1
            if bad == 1:
                def differs(t: str) -> bool:
                    r = ex.sb.call({"kind": "scan", "text": t, "pos": min(pos, len(t))})
                    return (r["out"] == "ok" and r["scan"] not in ("skip", "unavailable")
                            and ctx.model("raw_scan", [enc(t, min(pos, len(t)))])[0].partition(" steps ")[0] != r["scan"])

                # shrink the part after the scan position only (the prefix holds the first token and the position)
                head, rest = text[:pos], text[pos:]
                if len(rest) > 8:
                    rest = "".join(core.shrink_list(list(rest), lambda c: differs(head + "".join(c)), 80))
                small = head + rest
                r = ex.sb.call({"kind": "scan", "text": small, "pos": pos})
                impl2 = r.get("scan", impl)
                m2 = ctx.model("raw_scan", [enc(small, pos)])[0].partition(" steps ")[0]
                if impl2 == m2:
                    small, impl2, m2 = text, impl, res
                ctx.mismatch("correspondence:C07/raw_scan", {"stream": "rawscan", "entry": f"scan:{pos}", "text": small}, impl2, m2,
                             "position / ParseError of AttrParser._raw_scan_balanced differs from the Lean model")
    ctx.count("rawscan.correspondence_compared", len(rows))
    ctx.count("rawscan.correspondence_mismatch", bad)
    ctx.extra["raw_scan_model_steps_per_codepoint_max"] = round(worst, 3)


def run_classes(ctx: core.Ctx, full: bool) -> None:
    """class membership of every code point: the lexer's own compiled regexes vs the model's ASCII tests"""
    import string

    from xdsl.utils.mlir_lexer import MLIRLexer as L

    def flags(ch: str) -> str:
        f = ""
        if L._whitespace_regex.fullmatch(ch) and ch != "":  # noqa: SLF001
            f += "w"
        if L._digits_star_regex.fullmatch(ch):  # noqa: SLF001
            f += "d"
        if L.bare_identifier_regex.fullmatch(ch) and ch != "_":
            f += "l"
        if L.bare_identifier_suffix_regex.fullmatch(ch):
            f += "i"
        if L._suffix_id.fullmatch(ch) and not L._digits_star_regex.fullmatch(ch):  # noqa: SLF001
            f += "s"
        if L._suffix_id.fullmatch("a" + ch):  # noqa: SLF001
            f += "c"
        hx = bool(L._hexdigits_star_regex.fullmatch(ch))  # noqa: SLF001
        if hx != (ch in string.hexdigits):
            f += "?"
        if hx:
            f += "h"
        if ch not in '"\\' and not L._unescaped_characters_regex.fullmatch('"' + ch + '"'):  # noqa: SLF001
            f += "x"
        if L._unescaped_characters_regex.fullmatch('"\\' + ch + '"'):  # noqa: SLF001
            f += "e"
        return f

    hi = 0x110000 if full else 0x3000
    mine = {c: f for c in range(hi) if (f := flags(chr(c)))}
    sampled = [] if full else sorted({ctx.rng.randrange(hi, 0x110000) for _ in range(4000)})
    high = {c: f for c in sampled if (f := flags(chr(c)))}   # the model's classes are ASCII: nothing up there
    out = ctx.model("mlir_lexer", [f"classes 0 {hi}"])[0].split()[1:]
    model = {int(w.split(":")[0]): w.split(":")[1] for w in out}
    ctx.ev(hi + len(sampled))
    ctx.count("classes.code_points", hi + len(sampled))
    if mine != model or high:
        diff = sorted(set(mine.items()) ^ set(model.items()))[:6] + sorted(high.items())[:6]
        ctx.mismatch("correspondence:C07/mlir_lexer.classes", {"stream": "classes", "diff": diff}, str(sorted(mine.items())[:40]),
                     str(sorted(model.items())[:40]), "character classes of the lexer's regexes differ from the model's ASCII tests")


# =============================================================================================
# run / replay
# =============================================================================================

def run(ctx: core.Ctx) -> None:
    ctx.lean()
    quick = ctx.tier == "quick"
    rng = ctx.rng
    t_start = time.time()
    chunks = load_chunks()
    ex = Explorer(ctx)
    samples = token_samples()
    ctx.count("corpus.chunks", len(chunks))
    stage_s: dict[str, float] = {}
    t_mark = [time.time()]

    def mark(name: str) -> None:
        """wall seconds of the stage that just ended (evidence only)"""
        now = time.time()
        if name != "start":
            stage_s[name] = round(now - t_mark[0], 1)
        t_mark[0] = now

    ctx.extra["stage_s"] = stage_s
    try:
        mark("start")
        run_classes(ctx, not quick)

        mark("classes")
        # (0) a few fixed probes (minimal inputs of the repaired defects stay in the stream)
        probes = [("module", '"' + "a" * 22), ("module", "{a = ²}"), ("module", '"test.op"() {a = ²} : () -> ()'),
                  ("module", '"test.op"() {a = ٣} : () -> ()'), ("attr", "½"), ("module", '@"' + "b" * 22),
                  ("module", '"test.op"() ({ ^0: }) : () -> ()'), ("module", '"test.op"() ({ "test.op"()[^1] : () -> () ^1: }) : () -> ()'),
                  ("module", "{-# external_resources: { a: { b: \"0x00\" } } #-}"), ("module", ""), ("attr", ""), ("type", ""),
                  ("attr", '"é\\n"'), ("attr", '"\\C3"'), ("attr", '"\\C3\\A9"'), ("attr", '@"\\ED\\A0\\80"'),
                  ("attr", "affine_map<(d0) -> (5 mod 0)>"), ("attr", "affine_set<(d0) : (1 floordiv 0 >= 0)>"),
                  ("attr", "dense<[1]> : tensor<1xcomplex<f32>>"), ("module", '%_1 = "test.op"() : () -> i32'),
                  ("module", '"test.op"() {a = #zp.n<x>} : () -> !zp.n<x>'),
                  ("attr", "dense<1" + "0" * 309 + "> : tensor<1xf32>")]
        for entry, t in probes:
            ex.parse("probe", entry, True, t)
            ex.lex("probe", t)

        mark("probes")
        # warm-up: unmutated corpus chunks (must be IR or a diagnostic), so that first-use costs are not measured below
        for c in rng.sample(chunks, 40 if quick else len(chunks)):
            ex.parse("corpus.verbatim", "module", True, c, seed_text=c)

        mark("warmup")
        # (0b) SSA-reference family, deterministic part: indexed operands in every custom-syntax op (before the
        # time-boxed stages, so that a loaded machine does not cut it), then corpus chunks with one operand use
        # rewritten to `%x#<arity of its definition>`
        small = [c for c in chunks if len(c) <= 2500]
        for i, (stream, entry, text) in enumerate(ssa_sweep_cases(rng, quick)):
            ex.parse(stream, entry, i % 2 == 0, text)
            # the first combination (`<op> %t#2`, index == arity, every op) always runs to the end
            if ex.slow >= 4 or (i >= len(_NAMES["custom_ops"]) and ctx.time_left() < 25):
                ctx.count("ssa.sweep_cut_short")
                break
        for i, c in enumerate(rng.sample(small, 150 if quick else len(small))):
            for _ in range(1 if quick else 4):
                ex.parse("ssa.corpus_index_eq_arity", "module", i % 2 == 0, ssa_mutate(rng, c, True), seed_text=c)

        mark("ssa_sweep")
        # (0c) forward references with tuple indices (`%f#i`, `%f#j` before `%f:n = ...`): small-scope enumeration
        for i, text in enumerate(ssa_forward_cases(quick)):
            ex.parse("ssa.forward", "module", i % 2 == 0, text)
            if ex.slow >= 4:
                break

        mark("ssa_forward")
        run_ssa_progs(ctx, ex, 100 if quick else 6000)

        mark("ssa_progs")
        # (0c') one dialect symbol name under both sigils / parse histories; identifier shapes in every naming position
        run_sigils(ctx, ex, quick)
        mark("sigils")
        run_idents(ctx, ex, quick)
        mark("idents")
        for i, (entry, text) in enumerate(literal_cases(rng, quick)):
            ex.parse("literal", entry, i % 2 == 0, text)
            if ex.slow >= 4:
                break
        mark("literals")
        # (0c'') digit runs at the interpreter's int <-> str conversion limit: every number position of the grammar,
        # every dialect attribute / type name, and corpus chunks with one of their own numbers spelled that long
        run_digitruns(ctx, ex, chunks, quick)
        mark("digitruns")
        # (0d) raw scan of the bodies of unregistered dialect attributes / types
        run_rawscan(ctx, ex, chunks, quick)

        mark("rawscan")
        # (1) growth families: small sizes first, so that an exponential matcher is caught by ratio, not by a hang
        fam_budget = ctx.budget_s * (0.22 if quick else 0.25)
        t_f = time.time()
        names = list(FAMILIES)
        if quick:   # the literal/regex families always, a seeded third of the others
            always = [n for n in names if "string" in n or "literal" in n or n in ("nested_array_attr", "many_ops_with_regions")]
            rest = [n for n in names if n not in always]
            names = always + rng.sample(rest, len(rest) // 3)
        for name in names:
            if time.time() - t_f > fam_budget or ex.slow >= 4:
                ctx.count("growth.skipped_families")
                continue
            run_family(ex, name, 4096 if quick else 262144, 60_000 if quick else 1_500_000, 0.6 if quick else 1.5)

        mark("growth")
        # (2) short random strings: lexer correspondence only
        n_lex = 2000 if quick else 60000
        for _ in range(n_lex):
            ex.lex("random", "".join(rng.choice(LEX_ALPHA) for _ in range(rng.randint(0, 14))))
            if ex.slow >= 4:
                break

        mark("lex_random")
        # (3) mutated corpus chunks and soups through the whole parser (and the lexer alone)
        small = [c for c in chunks if len(c) <= 2500]
        it = 0
        reserve = 12 if quick else 60
        for i, (stream, entry, text) in enumerate(sweep_cases(rng, quick)):
            ex.parse(stream, entry, i % 2 == 0, text)
            if ex.slow >= 4 or ctx.time_left() < reserve + 5:
                ctx.count("sweep.cut_short")
                break
        while ctx.time_left() > reserve and ex.slow < 6:
            it += 1
            allow = it % 2 == 0
            if it % 5 in (0, 1, 2):
                seed = rng.choice(small if rng.random() < 0.85 else chunks)
                if it % 15 in (0, 1, 5, 6):
                    text = ssa_mutate(rng, seed if it % 15 in (0, 5) else mutate(rng, seed))
                    stream = "ssa.mutation"
                else:
                    text, stream = mutate(rng, seed), "mutation"
                ex.parse(stream, "module", allow, text, seed_text=seed, clone=it % 7 == 0)
                if it % 3 == 0:
                    ex.lex("mutation", text)
            elif it % 15 == 3:
                seed = rng.choice(small)
                ex.parse("sigil.mutation", "module", it % 60 != 3, both_sigils(rng, seed if rng.random() < 0.7 else mutate(rng, seed)),
                         seed_text=seed, clone=it % 30 == 3)
            elif it % 15 == 13:
                seed = rng.choice(small)
                text = inflate_digits(rng, seed if rng.random() < 0.5 else mutate(rng, seed), int_digit_limit())
                ex.parse("digits.mutation", "module", it % 30 == 13, text, seed_text=seed)
            elif it % 15 == 8:
                entry, prefix, suffix = rng.choice(RAW_WRAPPERS)
                text = raw_mutate(rng, rng.choice(RAW_MUTATIONS), prefix, raw_body(rng), suffix)
                ex.parse("rawscan.random", entry, True, text)
                ex.scan("rawscan.random", text, len(prefix))
            else:
                stream, entry, text = gen_soup_case(rng, samples)
                ex.parse(stream, entry, allow, text)
                if it % 4 == 0:
                    ex.lex("soup", text)
            if quick and it >= 30000:
                break
        ctx.count("fuzz.iterations", it)
        if ex.slow >= 4:
            ctx.count("fuzz.stopped_after_four_budget_or_hang_failures")
        mark("fuzz")
        run_correspondence(ctx, ex)
        run_scan_correspondence(ctx, ex)
        run_prog_correspondence(ctx, ex)
        run_hint_correspondence(ctx, ex)
        mark("correspondence")
    finally:
        ex.sb.close()
    for t, l in ex.lex_lines[:: max(1, len(ex.lex_lines) // 3)][:3]:
        ctx.sample({"text": t[:160], "tokens": l[:300]})
    ctx.sample({"outcomes": dict(ex.outcomes)})
    ctx.extra["outcomes"] = dict(ex.outcomes)
    ctx.extra["distinct_failure_keys"] = sorted(f"{a} [{b}] x{n}" for (a, b), n in ex.seen.items())
    ctx.extra["not_reproduced_in_fresh_process"] = ex.unconfirmed[:10]
    ctx.extra["max_cpu_s_per_char_ok_inputs"] = round(ex.max_cpu_per_char, 7)
    ctx.extra["recursion_error_min_nesting_depth"] = min(ex.rec_depths) if ex.rec_depths else None
    ctx.extra["sandbox_respawns"] = ex.sb.spawned
    ctx.extra["partial"] = "theorems cover the lexer model only; parser outcomes and CPU time are exploration (failing-input search)"
    ctx.extra["phase_s"] = round(time.time() - t_start, 1)


def replay(ctx: core.Ctx, body: dict) -> int:
    case = body["case"]
    preload()
    if case.get("stream") == "growth":
        gen = FAMILIES[case["family"]]
        sb = Sandbox()
        try:
            for _ in range(2):   # warm-up: first-use costs of a new process are not part of the measurement
                sb.call({"kind": "parse", "entry": "module", "allow": True, "text": gen(min(case["n_ref"], 64))})
            a = min((sb.call({"kind": "parse", "entry": "module", "allow": True, "text": gen(case["n_ref"]), "cpu": 60.0}) for _ in range(2)),
                    key=lambda r: r["cpu"])
            b = sb.call({"kind": "parse", "entry": "module", "allow": True, "text": gen(case["n"]), "cpu": 120.0, "wall": 400.0})
        finally:
            sb.close()
        print(f"family {case['family']}: n={case['n_ref']} -> {a['out']} {a['cpu']:.4f}s cpu; n={case['n']} -> {b['out']} {b['cpu']:.4f}s cpu")
        ca, cb = len(gen(case["n_ref"])), len(gen(case["n"]))
        bad = b["out"] not in ("ok", "diag") or superlinear([(case["n_ref"], ca, a["cpu"]), (case["n"], cb, b["cpu"])]) is not None
        print("super-linear" if bad else "within 4x of linear")
        return 1 if bad else 0
    text = case["text"]
    if case.get("stream") == "classes":
        print("character-class difference:", case.get("diff"))
        return 1
    entry = case.get("entry", "module")
    print("text          :", repr(text)[:2000])
    bad = False
    if entry.startswith("scan:"):
        pos = min(int(entry[5:]), len(text))
        r = fresh_call(job_for(entry, True, text))
        print(f"_raw_scan_balanced({pos}):", r.get("scan", {k: v for k, v in r.items()}))
        if r["out"] != "ok":
            bad = is_failure(r, text)
        elif r["scan"] not in ("skip", "unavailable"):
            core.lake_build(["driver"])
            m = ctx.model("raw_scan", [f"scan {pos} " + " ".join(f"{ord(c):x}" for c in text)])[0]
            print("lean model    :", m)
            bad = m.partition(" steps ")[0] != r["scan"] or r["scan"] == "ERR:other-message"
        print("expected      : the position of the matching `>` or one of the three ParseErrors of the function, within the CPU budget")
        print("STILL FAILING" if bad else "no longer failing")
        return 1 if bad else 0
    if entry != "lex" and case.get("stream") != "lex":
        job = {"kind": "parse", "entry": entry, "allow": case.get("allow_unregistered", True), "text": text}
        if case.get("clone_context"):
            job["clone"] = True
        hist = case.get("history") or []
        for h in hist:
            print("parsed before :", h.get("entry", h.get("kind")), repr(h.get("text"))[:600])
        if hist:
            alone = fresh_call(dict(job))
            print("alone, in a new process:", {k: v for k, v in alone.items() if k in ("out", "cls", "site", "emsg")})
        res = fresh_call(job, hist)
        print("parser outcome:", {k: v for k, v in res.items() if k != "lex"})
        bad = is_failure(res, text)
        print("expected      : IR, ParseError or DiagnosticException within the CPU budget")
        if case.get("events") and res["out"] in ("ok", "diag"):
            # SSA-name program: the outcome against the `ssa_names` model on the event sequence of the parse
            em = res.get("emsg", "")
            impl = "ok" if res["out"] == "ok" else "ERR:" + next((i for p, i in SSA_PROG_MSGS if p in em), "other:" + em[:60])
            core.lake_build(["driver"])
            m = ctx.model("ssa_names", [case["events"]])[0]
            print("events        :", case["events"])
            print("ssa_names     :", m, "| parser:", impl)
            bad = bad or (impl != m and not (impl.startswith("ERR:other:") and m.startswith("ERR:")))
    r = fresh_call({"kind": "lex", "text": text})
    print("lexer         :", r.get("lex", r))
    if r["out"] == "ok":
        core.lake_build(["driver"])
        m = ctx.model("mlir_lexer", ["lex " + enc_cps(text) if text else "lex"])[0]
        print("lean model    :", m)
        bad = bad or m != r["lex"]
    else:
        bad = bad or is_failure(r, text)
    print("STILL FAILING" if bad else "no longer failing")
    return 1 if bad else 0
