"""C23 helpers: the emitted LLVM IR text.

* `read_ll`   : subset parser for the text llvmlite prints (one function) -> IR program in the grammar
                of the Lean model's `parseIFunc`, registers renumbered by definition order
* `canon_ir`  : the same renumbering / normalisation applied to the `conv` output of the Lean model
* `Jit`       : llvmlite parse + verify ("LLVM accepts") and MCJIT execution through ctypes
"""
from __future__ import annotations

import ctypes
import re
import struct
from typing import Any

from props.c23_ir import Unsupported, bits_f64, f32_bits, f64_bits, is_int, round32, width

BINOPS = {"add", "sub", "mul", "udiv", "sdiv", "urem", "srem", "and", "or", "xor", "shl", "lshr", "ashr"}
FBINOPS = {"fadd", "fsub", "fmul", "fdiv", "frem"}
CASTS = {"trunc", "zext", "sext", "bitcast", "sitofp", "fpext"}
FLAGS = {"nsw", "nuw", "exact", "disjoint", "nneg"}

_TOK = re.compile(r'\s*(%"(?:[^"\\]|\\.)*"|@"(?:[^"\\]|\\.)*"|%[-\w.$]+|@[-\w.$]+|"(?:[^"\\]|\\.)*"|-?0x[0-9a-fA-F]+|-?\d+\.\d*(?:[eE][-+]?\d+)?|-?\d+|[-\w.$]+|[\[\](),=*{}:])')


def tokens(line: str) -> list[str]:
    out, pos = [], 0
    line = line.split(";")[0].rstrip()
    while pos < len(line):
        m = _TOK.match(line, pos)
        if not m:
            raise Unsupported(f"cannot tokenise: {line[pos:]!r}")
        out.append(m.group(1))
        pos = m.end()
    return out


def unq(name: str) -> str:
    name = name[1:]
    return name[1:-1] if name.startswith('"') else name


class _P:
    def __init__(self, toks: list[str]):
        self.t, self.i = toks, 0

    def peek(self) -> str | None:
        return self.t[self.i] if self.i < len(self.t) else None

    def next(self) -> str:
        if self.i >= len(self.t):
            raise Unsupported("unexpected end of line")
        self.i += 1
        return self.t[self.i - 1]

    def expect(self, s: str) -> None:
        if self.next() != s:
            raise Unsupported(f"expected {s!r} in {' '.join(self.t)}")

    def ty(self) -> str:
        t = self.next()
        if t == "[":   # array type: outside the subset, but still a pointer element type
            depth = 1
            while depth:
                x = self.next()
                depth += (x == "[") - (x == "]")
            base = "array"
        elif re.fullmatch(r"i\d+", t):
            base = t
        elif t == "float":
            base = "f32"
        elif t == "double":
            base = "f64"
        elif t == "ptr":
            base = "ptr"
        else:
            raise Unsupported(f"type {t}")
        while self.peek() == "*":
            self.next()
            base = "ptr"
        return base


def _operand(tok: str, ty: str, names: dict[str, int], pending: list) -> list:
    if tok.startswith("%"):
        n = unq(tok)
        ref = ["r", ["v", None]]
        pending.append((ref, n))
        return ref
    if is_int(ty):
        if tok in ("true", "false"):
            return ["ci", width(ty), int(tok == "true")]
        return ["ci", width(ty), int(tok, 0)]
    if ty in ("f32", "f64"):
        if tok.lower().startswith("0x") or tok.lower().startswith("-0x"):
            d = int(tok, 16)
        else:
            d = f64_bits(float(tok))
        return ["cf32" if ty == "f32" else "cf64", d]
    raise Unsupported(f"operand {tok} of type {ty}")


def read_ll(text: str) -> list:
    """the single defined function of `text` as an IR program (registers = definition order)"""
    lines = [l for l in text.splitlines()]
    i = 0
    while i < len(lines) and not lines[i].startswith("define "):
        i += 1
    if i == len(lines):
        raise Unsupported("no function definition")
    head = _P(tokens(lines[i]))
    head.expect("define")
    ret = head.ty()
    head.next()  # @name
    head.expect("(")
    params: list[tuple[str, str]] = []
    while head.peek() != ")":
        t = head.ty()
        params.append((unq(head.next()), t))
        if head.peek() == ",":
            head.next()
    i += 1
    if lines[i].strip() == "{":
        i += 1
    names: dict[str, int] = {}
    alias: dict[str, str] = {}
    pending: list = []          # (operand reference, name) patched after all definitions are numbered
    blocks: list[dict[str, Any]] = []
    labels: dict[str, int] = {}
    label_refs: list = []       # (container, position, label)
    for n, _t in params:
        names[n] = len(names)

    def define(name: str) -> list:
        if name in names:
            raise Unsupported(f"register {name} defined twice")
        names[name] = len(names)
        return ["v", names[name]]

    def opnd(p: _P, ty: str) -> list:
        return _operand(p.next(), ty, names, pending)

    while i < len(lines):
        line = lines[i]
        i += 1
        if line.strip() == "}":
            break
        if not line.strip():
            continue
        toks = tokens(line)
        if len(toks) == 2 and toks[1] == ":" and not line.startswith(" "):
            lab = toks[0]
            lab = lab[1:-1] if lab.startswith('"') else lab
            labels[lab] = len(blocks)
            blocks.append({"phis": [], "instrs": [], "term": None})
            continue
        if not blocks:
            raise Unsupported("instruction before the first label")
        blk = blocks[-1]
        p = _P(toks)
        res = None
        if len(toks) > 1 and toks[1] == "=":
            res = unq(p.next())
            p.next()
        op = p.next()
        flags: list[str] = []
        while p.peek() in FLAGS or p.peek() == "inbounds":
            flags.append(p.next())
        if op in BINOPS:
            ty = p.ty()
            a = opnd(p, ty); p.expect(","); b = opnd(p, ty)
            blk["instrs"].append(["bin", op, sorted(flags), define(res), ty, a, b])
        elif op in FBINOPS:
            ty = p.ty()
            a = opnd(p, ty); p.expect(","); b = opnd(p, ty)
            blk["instrs"].append(["fbin", op, define(res), ty, a, b])
        elif op in ("icmp", "fcmp"):
            pred = p.next()
            ty = p.ty()
            a = opnd(p, ty); p.expect(","); b = opnd(p, ty)
            blk["instrs"].append([op, pred, define(res), ty, a, b])
        elif op == "fneg":
            ty = p.ty()
            blk["instrs"].append(["fneg", define(res), ty, opnd(p, ty)])
        elif op in CASTS:
            ft = p.ty()
            src = p.next()
            p.expect("to")
            tt = p.ty()
            if ft == "ptr" and tt == "ptr" and op == "bitcast":
                # llvmlite's typed-pointer bookkeeping: a pointer-to-pointer bitcast is the identity
                alias[res] = unq(src)
                continue
            blk["instrs"].append(["cast", op, sorted(flags), define(res), ft, _operand(src, ft, names, pending), tt])
        elif op == "select":
            cty = p.ty()
            c = opnd(p, cty); p.expect(",")
            ty = p.ty()
            a = opnd(p, ty); p.expect(",")
            ty2 = p.ty()
            b = opnd(p, ty2)
            if cty != "i1" or ty != ty2:
                raise Unsupported("select types")
            blk["instrs"].append(["select", define(res), ty, c, a, b])
        elif op == "alloca":
            ty = p.ty()
            if p.peek() == ",":
                p.next()
                st = p.ty()
                s = opnd(p, st)
            else:
                st, s = "i32", ["ci", 32, 1]
            blk["instrs"].append(["alloca", define(res), ty, st, s])
        elif op == "load":
            ty = p.ty(); p.expect(",")
            if p.ty() != "ptr":
                raise Unsupported("load pointer type")
            blk["instrs"].append(["load", define(res), ty, opnd(p, "ptr")])
        elif op == "store":
            ty = p.ty()
            v = opnd(p, ty); p.expect(",")
            if p.ty() != "ptr":
                raise Unsupported("store pointer type")
            blk["instrs"].append(["store", ty, v, opnd(p, "ptr")])
        elif op == "getelementptr":
            ty = p.ty(); p.expect(",")
            if p.ty() != "ptr":
                raise Unsupported("gep pointer type")
            ptr = opnd(p, "ptr"); p.expect(",")
            it = p.ty()
            idx = opnd(p, it)
            blk["instrs"].append(["gep", define(res), int("inbounds" in flags), ty, ptr, it, idx])
        elif op == "phi":
            ty = p.ty()
            inc = []
            while p.peek() == "[":
                p.next()
                v = opnd(p, ty); p.expect(",")
                lab = unq(p.next()); p.expect("]")
                e = [v, None]
                label_refs.append((e, 1, lab))
                inc.append(e)
                if p.peek() == ",":
                    p.next()
            if blk["instrs"]:
                raise Unsupported("phi after a non-phi instruction")
            blk["phis"].append([define(res), ty] + inc)
        elif op == "ret":
            ty = p.ty()
            blk["term"] = ["ret", ty, opnd(p, ty)]
        elif op == "br":
            if p.peek() == "label":
                p.next()
                t = ["br", None]
                label_refs.append((t, 1, unq(p.next())))
            else:
                if p.ty() != "i1":
                    raise Unsupported("br condition type")
                c = opnd(p, "i1"); p.expect(","); p.expect("label")
                t = ["condbr", c, None, None]
                label_refs.append((t, 2, unq(p.next()))); p.expect(","); p.expect("label")
                label_refs.append((t, 3, unq(p.next())))
            blk["term"] = t
        elif op == "unreachable":
            blk["term"] = ["unreachable"]
        else:
            raise Unsupported(f"instruction {op}")
        if p.peek() == "," and op in ("load", "store", "alloca"):   # ", align N"
            p.next(); p.expect("align"); p.next()
        if p.peek() is not None:
            raise Unsupported(f"trailing tokens in: {line.strip()}")
    for ref, name in pending:
        while name in alias:
            name = alias[name]
        if name not in names:
            raise Unsupported(f"use of undefined register {name}")
        ref[1][1] = names[name]
    for cont, pos, lab in label_refs:
        if lab not in labels:
            raise Unsupported(f"unknown label {lab}")
        cont[pos] = labels[lab]
    out: list = ["func", ["ret", ret], ["params"] + [[names[n], t] for n, t in params]]
    for b in blocks:
        if b["term"] is None:
            raise Unsupported("block without terminator")
        out.append(["block", ["phis"] + b["phis"]] + b["instrs"] + [b["term"]])
    return out


def normalise_consts(x: Any) -> Any:
    """integers modulo 2^w; float32 constants to the double of the nearest float32 (what llvmlite prints);
    NaN constants to one representative; flag lists sorted"""
    if isinstance(x, list):
        if len(x) == 3 and x[0] == "ci" and isinstance(x[1], int):
            return ["ci", x[1], x[2] & ((1 << x[1]) - 1)]
        if len(x) == 2 and x[0] == "cf32":
            v = round32(bits_f64(x[1]))
            return ["cf32", "nan"] if v != v else ["cf32", f64_bits(v)]
        if len(x) == 2 and x[0] == "cf64":
            v = bits_f64(x[1])
            return ["cf64", "nan"] if v != v else ["cf64", x[1]]
        return [normalise_consts(y) for y in x]
    return x


def canon_ir(prog: list) -> list:
    """renumber the registers of an IR program ((v n) / (s b i)) by definition order:
    parameters, then per block phis and instruction results"""
    m: dict[str, int] = {}

    def key(r: list) -> str:
        return " ".join(map(str, r))

    def define(r: list) -> None:
        k = key(r)
        if k in m:
            raise Unsupported(f"register {k} defined twice")
        m[k] = len(m)

    for n, _t in prog[2][1:]:
        define(["v", n])
    for b in prog[3:]:
        for phi in b[1][1:]:
            define(phi[0])
        for ins in b[2:-1]:
            k = ins[0]
            if k in ("bin", "cast"):
                define(ins[3])
            elif k in ("icmp", "fcmp", "fbin"):
                define(ins[2])
            elif k in ("fneg", "select", "alloca", "load", "gep"):
                define(ins[1])

    def ren(x: Any) -> Any:
        if isinstance(x, list):
            if x and x[0] in ("v", "s") and all(isinstance(y, int) for y in x[1:]) and 2 <= len(x) <= 3:
                k = key(x)
                if k not in m:
                    raise Unsupported(f"use of undefined register {k}")
                return ["v", m[k]]
            if x and x[0] in ("bin", "cast") and isinstance(x[2], list):
                return [x[0], x[1], sorted(x[2])] + [ren(y) for y in x[3:]]
            return [ren(y) for y in x]
        return x

    out = prog[:2] + [["params"] + [[m[key(["v", n])], t] for n, t in prog[2][1:]]]
    for b in prog[3:]:
        out.append(ren(b))
    return out


# ---------------------------------------------------------------------------------------------
# LLVM itself
# ---------------------------------------------------------------------------------------------
_inited = False


def _init() -> None:
    global _inited
    if not _inited:
        import llvmlite.binding as llvm

        llvm.initialize_native_target()
        llvm.initialize_native_asmprinter()
        _inited = True


_CT = {"i1": ctypes.c_uint8, "i8": ctypes.c_uint8, "i16": ctypes.c_uint16, "i32": ctypes.c_uint32,
       "i64": ctypes.c_uint64, "f32": ctypes.c_float, "f64": ctypes.c_double}


def llvm_accepts(text: str):
    """(module, None) when LLVM parses and verifies the text, else (None, message)"""
    import llvmlite.binding as llvm

    _init()
    try:
        mod = llvm.parse_assembly(text)
        mod.verify()
        return mod, None
    except RuntimeError as e:
        return None, str(e)


class Jit:
    def __init__(self, mod, name: str, ptypes: list[str], rty: str, host: bool = False):
        import llvmlite.binding as llvm

        _init()
        if host:   # the machine's own instruction set (half/bfloat conversions need it, see c23_fmt.can_execute)
            tm = llvm.Target.from_default_triple().create_target_machine(
                cpu=llvm.get_host_cpu_name(), features=llvm.get_host_cpu_features().flatten(), opt=0)
        else:
            tm = llvm.Target.from_default_triple().create_target_machine(opt=0)
        self.engine = llvm.create_mcjit_compiler(mod, tm)
        self.engine.finalize_object()
        addr = self.engine.get_function_address(name)
        if not addr:
            raise Unsupported("function address")
        self.ptypes, self.rty = ptypes, rty
        self.fn = ctypes.CFUNCTYPE(_CT[rty], *[_CT[t] for t in ptypes])(addr)

    def call(self, args: list[int]) -> Any:
        """arguments and result as bit patterns ("nan" for a NaN result)"""
        cargs = []
        for t, a in zip(self.ptypes, args):
            if t == "f32":
                cargs.append(ctypes.c_float(struct.unpack("<f", struct.pack("<I", a))[0]))
            elif t == "f64":
                cargs.append(ctypes.c_double(bits_f64(a)))
            else:
                cargs.append(_CT[t](a))
        r = self.fn(*cargs)
        if self.rty in ("f32", "f64"):
            if r != r:
                return "nan"
            return f32_bits(r) if self.rty == "f32" else f64_bits(r)
        return int(r) & ((1 << width(self.rty)) - 1)
