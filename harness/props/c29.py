"""C29 — symbol lookup returns the operation the nesting rules designate."""
from __future__ import annotations

import itertools
import json
from typing import Any, Iterator

from vp import core

META = {
    "title": "Symbol lookup returns the operation the nesting rules designate",
    "category": "proof",
    "design_ref": "DESIGN.md §5 C29",
    "lean_modules": ["XdslProofs.C29"],
    "text": (
        "Lean theorems over op trees (isTable/isSymbol/name/visibility/body/rest): the direct resolver "
        "(_lookup_symbol_in_direct_children + _lookup_symbol_ref_in) returns exactly the operation the "
        "declarative Resolves relation designates (nearest enclosing table, root name among its direct "
        "children, every further component looked up in the previous result which must be a table, "
        "private results refused) on every tree whose tables have unique names, and only operations "
        "Resolves admits on every tree; the dict-based cached resolver (last duplicate wins) equals the "
        "direct one on every verified tree; the (repaired) traits resolver equals the direct one on every "
        "tree; get_nearest_symbol_table returns the innermost table of the ancestor chain; no entry point "
        "(direct, cached incl. the dict of SymbolTable.__init__, traits, verify) uses anything of a name but "
        "equality: respelling tree and reference by any injective map leaves every answer unchanged "
        "(rename_*, spelling_irrelevant), which is what lets one numbered model judge the real string-keyed "
        "code under arbitrary spellings (empty, blank, case/width variants, digits, reserved words, `::`, `@`, "
        "canonically equivalent unicode, NUL, prefixes, attribute names). The model is "
        "tied to /repo by building every generated tree from real builtin.module / gpu.module / func.func / "
        "test ops and comparing, for every operation and every flat/nested reference, all entry points "
        "(utils.SymbolTable.lookup_symbol_in[all_symbols], lookup_nearest_symbol_from, "
        "get_nearest_symbol_table, SymbolTableCollection shared/fresh, SymbolTable(op).lookup, "
        "traits.SymbolTable.lookup_symbol, "
        "Operation.verify) with the Lean driver line by line, and with an independent reference resolver "
        "written from the property sentence. Trees contain unregistered operations (model: neither table nor "
        "symbol), and trees are also edited in place after having been looked at, the edited tree being judged by "
        "the same model and reference (a new collection is a function of the tree as it is now)."
    ),
    "technique": "Lean 4 proofs about a hand model of the three resolvers + exhaustive small-scope and random differential correspondence with the real resolvers + independent reference resolver",
    "level_note": (
        "Trusted: Lean kernel; hand-written model XdslModel/SymbolTable.lean (tied by correspondence only: "
        "all trees with ≤3 operations over the 11-label alphabet, in the thorough tier also all with 4 operations over an 8-label alphabet, random larger ones). "
        "Readings fixed here: 'nearest enclosing symbol table' includes the start operation itself when it is "
        "a table (docstrings of both resolvers: 'closest parent operation of, or including'); a table is "
        "searched in the first block of its first region only; the root name of a reference is never refused "
        "for being private (only results reached through a nested component are); when a consulted table "
        "holds two symbols with the requested name (module does not verify) any of the designated operations "
        "or 'nothing' is accepted; traits.lookup_symbol raising its documented ValueError when no ancestor is "
        "a symbol table counts as 'nothing'; every Python str is a legal symbol name (the empty string included: "
        "it verifies, prints as @\"\" and parses back) and two names are the same name iff the strings are equal "
        "(no case folding, stripping or unicode normalisation); an unregistered operation (what a parser with "
        "allow_unregistered builds) is neither a symbol nor a symbol table, whatever attributes it carries — the "
        "nearest enclosing table of an operation inside it is the next registered table further out (the reading of "
        "utils.symbol_table: has_trait(SymbolTable, value_if_unregistered=False)); the sentence speaks about the "
        "module as it is when the lookup is made: after the module was edited in place (operations detached, "
        "inserted, moved; SymbolTable.remove on some collection's table object), a SymbolTableCollection created "
        "after the edit and the static lookups are held to the edited tree, no matter which collections or lookups "
        "looked at the module before. Excluded: tables with several "
        "regions/blocks, symbol ops without sym_name, invalid sym_visibility strings, IR mutation during the life "
        "of one collection (a collection is a snapshot by design: the cache is modelled as a function of the tree "
        "at the time the collection is created; every edited tree is asked through new collections only)."
    ),
    "rule": (
        "One evaluation = one (tree, start operation, reference form, reference) query run through all entry "
        "points. Trees: every ordered tree with ≤3 operations (thorough: also 4 operations over a reduced 8-label alphabet) over labels "
        "{module unnamed/@0/@1 × public/private, func @0/@1 × public/private, plain op, plain op with a decoy sym_name=@0; "
        "in trees with ≤2 operations also an unregistered op} (terminators added "
        "where the verifier needs them), two fixed trees with operations inside unregistered wrapper ops, then seeded "
        "random trees of 2–40 operations (modules, gpu.module, "
        "func.func with public/private/nested/absent visibility, test.op_with_symbol, test.op with decoy "
        "sym_name, multi-region/multi-block plain and unregistered ops (about a third of the plain ops are "
        "unregistered), duplicate names inside and across tables). Edit histories: before each edit one collection "
        "and the static entry points resolve every name of the tree from every operation, then the same operations "
        "are edited in place and all queries are asked again of the edited tree through new collections — every "
        "single edit of the trees with ≤2 operations (detach each operation; insert a public func at the front and the end of every block, a private func at "
        "the front, a module holding a nested func at the end; move each operation to the front of "
        "every other block; SymbolTable.remove of each symbol on the earlier collection's table), one seeded edit of "
        "a seed-rotated twelfth (thorough: all) of the 3-operation trees, 1–2 seeded edits of a third (thorough: 80%) "
        "of the random trees. Names are "
        "numbered; a tree is built with the numbers spelled s0, s1, … and again (all trees with ≤2 operations under "
        "each of 13 fixed spellings, a seed-rotated third of the 3-operation trees under one of them, thorough: "
        "each under two; half of the random trees under a random spelling) with pairwise distinct awkward strings "
        "from 10 families of mutually confusable names, the empty string in every position. References: "
        "all flat names as str/StringAttr/SymbolRefAttr, all depth-1 and depth-2 nested references over the "
        "name pool (exhaustive part), valid symbol paths of the tree plus perturbed/extended/truncated/random "
        "ones (random part). Non-trivial = the reference has a nested component, or the start operation is not "
        "the root, and the root name occurs somewhere in the tree. Distinct = distinct (tree, spelling, start, form, "
        "reference)."
    ),
    "trusted_base": [
        "correspondence harness harness/props/c29.py (differential, bounded-exhaustive + random)",
        "hand-written Lean model of utils/symbol_table.py lookups and traits.SymbolTable.lookup_symbol/verify",
    ],
    "budget": {"quick": 100, "thorough": 1100},
}

TABLE_KINDS = ("mod", "gmod")
SYMBOL_KINDS = ("mod", "gmod", "func", "sym")
VIS_TOKEN = {None: "_", "public": "pub", "private": "priv", "nested": "nest"}


# ---------------------------------------------------------------------------------------------
# Tree specification (plain Python; the real ops, the model line and the reference resolver are all
# derived from it)
# ---------------------------------------------------------------------------------------------

class Node:
    __slots__ = ("kind", "name", "vis", "regions", "parent", "id", "path", "op")

    def __init__(self, kind: str, name: int | None = None, vis: str | None = None,
                 regions: list[list[list["Node"]]] | None = None):
        self.kind, self.name, self.vis = kind, name, vis
        self.regions = regions if regions is not None else []
        self.parent: Node | None = None
        self.id = -1
        self.path: tuple[int, ...] = ()
        self.op: Any = None

    # structural views -------------------------------------------------------------------
    def body(self) -> list["Node"]:
        return self.regions[0][0] if self.regions and self.regions[0] else []

    def rest(self) -> list["Node"]:
        out: list[Node] = []
        for ri, r in enumerate(self.regions):
            for bi, b in enumerate(r):
                if (ri, bi) != (0, 0):
                    out.extend(b)
        return out

    def children(self) -> list["Node"]:
        return self.body() + self.rest()

    def walk(self) -> Iterator["Node"]:
        yield self
        for c in self.children():
            yield from c.walk()

    def to_json(self) -> Any:
        return [self.kind, self.name, self.vis, [[[c.to_json() for c in b] for b in r] for r in self.regions]]

    @staticmethod
    def from_json(j: Any) -> "Node":
        return Node(j[0], j[1], j[2], [[[Node.from_json(c) for c in b] for b in r] for r in j[3]])


def finalize(root: Node) -> list[Node]:
    """number the ops in pre-order (body before rest), set parents and paths"""
    nodes: list[Node] = []

    def go(n: Node, parent: Node | None, path: tuple[int, ...]) -> None:
        n.parent, n.path, n.id = parent, path, len(nodes)
        nodes.append(n)
        for i, c in enumerate(n.children()):
            go(c, n, path + (i,))

    go(root, None, ())
    return nodes


def node_at(root: Node, path: Any) -> Node:
    n = root
    for i in path:
        n = n.children()[i]
    return n


def block_of(n: Node) -> tuple[Node, int, int, int]:
    p = n.parent
    assert p is not None
    for ri, r in enumerate(p.regions):
        for bi, b in enumerate(r):
            for pos, x in enumerate(b):
                if x is n:
                    return p, ri, bi, pos
    raise core.InfraError("node not in its parent")


def insert_at(p: Node, ri: int, bi: int, pos: int, new: Node) -> None:
    """spec and real block hold the same operations in the same order"""
    blk = p.op.regions[ri].blocks[bi]
    ops = list(blk.ops)
    if pos < len(ops):
        blk.insert_op_before(new.op, ops[pos])
    else:
        blk.add_op(new.op)
    p.regions[ri][bi].insert(pos, new)


def sym_str(name: int, spell: Any = None) -> str:
    """the sym_name string of name number `name` under the spelling `spell` (None = s0, s1, …)"""
    if spell is not None and name < len(spell):
        return spell[name]
    return f"s{name}"


# Name spellings.  The resolvers, the Lean model and the property sentence treat a symbol name as an
# opaque token that is only ever compared for equality (Lean: `rename_*` theorems — every entry point
# commutes with an injective renaming).  The real code works on Python strings, so every tree is also
# built with the numbered names spelled as strings that are equal only to themselves but that string
# handling shortcuts confuse: falsy/blank, case/whitespace variants, digit strings, reserved words,
# the reference separator, the printed sigil, canonically equivalent unicode, embedded NUL, prefixes,
# attribute names.  A spelling is a tuple of pairwise distinct strings (name number -> string).
NAME_FAMILIES: list[list[str]] = [
    ["", " ", "  ", "\t", "\n", "_", "-"],
    ["a", "A", "a ", " a", "\uff41", "aa", "Aa"],
    ["0", "00", "-0", "0.0", "1", "01", "0x0"],
    ["None", "none", "null", "False", "True", "nan", "NONE"],
    ["a::b", "a", "b", "::", "a::", "::b", "a:b"],
    ["@a", "a", "@", "\"a\"", "@\"a\"", "@@a", "a@"],
    ["\u00e9", "e\u0301", "e", "\u00c9", "E\u0301", "\u00e9\u0301", "e\u0301\u0301"],
    ["x", "x\x00", "x\x00y", "\x00", "x\x00\x00", "\x00x", "xy"],
    ["s1", "s10", "s01", "s", "s1_0", "s1 ", "S1"],
    ["sym_name", "sym_visibility", "private", "public", "nested", "builtin.module", "func.func"],
]


def small_spellings() -> list[tuple[str, ...]]:
    """fixed spellings of the three name numbers of the small scope (0 and 1 occur in trees, 2 only in
    references): the empty string in each position, then the first three strings of every family"""
    out: list[tuple[str, ...]] = [("", "s1", "s2"), ("s0", "", "s2"), ("s0", "s1", "")]
    out += [tuple(f[:3]) for f in NAME_FAMILIES]
    return out


def random_spelling(rng: Any, count: int) -> tuple[str, ...]:
    """`count` pairwise distinct strings: mostly from one family (confusable with each other), the empty
    string in about a third of the spellings"""
    fam = list(rng.choice(NAME_FAMILIES))
    rng.shuffle(fam)
    extra = [x for f in rng.sample(NAME_FAMILIES, 3) for x in f]
    rng.shuffle(extra)
    out: list[str] = []
    if rng.random() < 0.3:
        out.append("")
    for x in fam + extra:
        if len(out) >= count:
            break
        if x not in out:
            out.append(x)
    i = 0
    while len(out) < count:  # never needed with the families above; keeps the spelling total
        if f"n{i}" not in out:
            out.append(f"n{i}")
        i += 1
    rng.shuffle(out)
    return tuple(out)


def check_spelling(spell: Any, count: int) -> None:
    names = [sym_str(i, spell) for i in range(count)]
    if len(set(names)) != len(names):
        raise core.InfraError(f"spelling is not injective: {names!r}")


_UNREG: list[Any] = []


def unregistered_class() -> Any:
    """one UnregisteredOp class (`"foreign.op"`): the operation a parser with allow_unregistered builds"""
    if not _UNREG:
        from xdsl.dialects.builtin import UnregisteredOp

        _UNREG.append(UnregisteredOp.with_name("foreign.op"))
    return _UNREG[0]


def build_op(n: Node, spell: Any = None) -> Any:
    """the real xDSL operation for a spec node"""
    from xdsl.dialects import gpu
    from xdsl.dialects.builtin import FunctionType, ModuleOp, StringAttr
    from xdsl.dialects.func import FuncOp, ReturnOp
    from xdsl.dialects.test import TestOp, TestSymbolOp, TestTermOp
    from xdsl.ir import Block, Region

    regions = [Region([Block([build_op(c, spell) for c in b]) for b in r]) for r in n.regions]
    attrs: dict[str, Any] = {}
    if n.vis is not None and n.kind != "func":
        attrs["sym_visibility"] = StringAttr(n.vis)
    if n.kind == "mod":
        op = ModuleOp(regions[0], attrs, StringAttr(sym_str(n.name, spell)) if n.name is not None else None)
    elif n.kind == "gmod":
        op = gpu.ModuleOp.build(properties={"sym_name": StringAttr(sym_str(n.name, spell))}, regions=regions, attributes=attrs)
    elif n.kind == "func":
        op = FuncOp(sym_str(n.name, spell), FunctionType.from_lists([], []), regions[0] if regions else Region([]),
                    visibility=n.vis)
    elif n.kind == "sym":
        op = TestSymbolOp(properties={"sym_name": StringAttr(sym_str(n.name, spell))}, attributes=attrs, regions=regions)
    elif n.kind == "op":
        if n.name is not None:
            attrs["sym_name"] = StringAttr(sym_str(n.name, spell))  # decoy: not a symbol op
        op = TestOp(attributes=attrs, regions=regions)
    elif n.kind == "unreg":
        if n.name is not None:
            attrs["sym_name"] = StringAttr(sym_str(n.name, spell))  # decoy: an unregistered op is no symbol op
        op = unregistered_class().create(attributes=attrs, regions=regions)
    elif n.kind == "term":
        op = TestTermOp()
    elif n.kind == "ret":
        op = ReturnOp()
    else:
        raise core.InfraError(f"unknown node kind {n.kind}")
    n.op = op
    return op


def model_tokens(n: Node) -> list[str]:
    flags = ("T" if n.kind in TABLE_KINDS else "-") + ("S" if n.kind in SYMBOL_KINDS else "-")
    body, rest = n.body(), n.rest()
    toks = [str(n.id), flags, "_" if n.name is None else str(n.name), VIS_TOKEN[n.vis], str(len(body)), str(len(rest))]
    for c in body + rest:
        toks.extend(model_tokens(c))
    return toks


def path_str(p: tuple[int, ...]) -> str:
    return ".".join(map(str, p)) if p else "r"


# ---------------------------------------------------------------------------------------------
# Independent reference resolver (written from the property sentence, on the plain spec)
# ---------------------------------------------------------------------------------------------

def ref_is_table(n: Node) -> bool:
    return n.kind in TABLE_KINDS


def ref_nearest(n: Node | None) -> Node | None:
    while n is not None and not ref_is_table(n):
        n = n.parent
    return n


def ref_members(table: Node, name: int) -> list[Node]:
    return [c for c in table.body() if c.kind in SYMBOL_KINDS and c.name == name]


def ref_resolve(start: Node, names: list[int], need_table: bool = True, refuse_private: bool = True
                ) -> tuple[list[Node], bool]:
    """All operations the nesting rules designate for `names` looked up from `start`, and whether a
    consulted table held the requested name more than once (then the sentence's 'the operation with
    that name' is not unique).  The two flags switch off single clauses; they are used only to
    classify a failure."""
    table = ref_nearest(start)
    if table is None:
        return [], False
    frontier = ref_members(table, names[0])
    ambiguous = len(frontier) > 1
    for name in names[1:]:
        nxt: list[Node] = []
        for s in frontier:
            if ref_is_table(s):
                scope = s
            elif need_table:
                continue
            else:  # what a resolver without the table check would do: fall back to the enclosing table
                scope = ref_nearest(s)
                assert scope is not None
            ms = ref_members(scope, name)
            ambiguous = ambiguous or len(ms) > 1
            nxt.extend(m for m in ms if not (refuse_private and m.vis == "private"))
        frontier = nxt
    return frontier, ambiguous


# ---------------------------------------------------------------------------------------------
# Real code adapter
# ---------------------------------------------------------------------------------------------

class Impl:
    """One generated tree built from real ops, with all entry points."""

    def __init__(self, root: Node, spell: Any = None, gone: list[Any] | None = None):
        """`gone` is None: build the real ops of the spec.  Otherwise the spec's ops exist already (the tree
        was edited in place) and `gone` holds the operations earlier states of the tree contained and this
        one does not (kept alive so that their identity stays theirs)."""
        from xdsl.utils.exceptions import VerifyException

        self.root = root
        self.spell = tuple(spell) if spell is not None else None
        self.nodes = finalize(root)
        top = 1 + max([n.name for n in self.nodes if n.name is not None], default=0)
        self.checked = max(top, len(self.spell or ()))
        check_spelling(self.spell, self.checked)
        self.number = {sym_str(i, self.spell): i for i in range(self.checked)}
        if gone is None:
            build_op(root, self.spell)
        self.gone: list[Any] = list(gone or [])
        self.stale = {id(o) for o in self.gone}
        self.warmed: Any = None
        self.ids = {id(n.op): n.id for n in self.nodes}  # identity map, never leaves this object
        try:
            root.op.verify()
            self.verify_obs = "ok"
        except VerifyException:
            self.verify_obs = "raise:VerifyException"
        except Exception as e:  # noqa: BLE001
            self.verify_obs = "raise:" + core.exc_name(e)
        self.verified = self.verify_obs == "ok"
        from xdsl.utils.symbol_table import SymbolTableCollection

        self.shared = SymbolTableCollection()

    def show(self, r: Any) -> str:
        if r is None:
            return "none"
        if isinstance(r, list):
            return ",".join(self.show(x) for x in r)
        return str(self.ids.get(id(r), "stale" if id(r) in self.stale else "foreign"))

    # edit histories ----------------------------------------------------------------------
    def warm(self) -> None:
        """An earlier user of the tree (a pass that resolves symbols): one collection and the static entry
        points look every name of the tree up from every operation, so whatever any of them memoises about
        the tree as it is now has been memoised before the tree is edited."""
        from xdsl import traits
        from xdsl.utils.symbol_table import SymbolTable, SymbolTableCollection

        c = SymbolTableCollection()
        names = sorted(names_in_tree(self.nodes) | {0})
        for n in self.nodes:
            for nm in names:
                s = sym_str(nm, self.spell)
                for f in (c.lookup_nearest_symbol_from, SymbolTable.lookup_nearest_symbol_from,
                          traits.SymbolTable.lookup_symbol):
                    try:
                        f(n.op, s)
                    except Exception:  # noqa: BLE001
                        pass
        self.warmed = c

    def apply_edit(self, edit: list[Any]) -> "Impl":
        """edit the spec and the real operations in place; -> the adapter of the edited tree (same ops)"""
        root, gone = self.root, list(self.gone)
        kind = edit[0]
        if kind == "del":  # detach the operation at a path
            v = node_at(root, edit[1])
            p, ri, bi, pos = block_of(v)
            p.regions[ri][bi].pop(pos)
            v.op.detach()
            gone.extend(x.op for x in v.walk())
        elif kind == "ins":  # a new operation into block (ri, bi) of the operation at a path
            p = node_at(root, edit[1])
            new = Node.from_json(edit[5])
            build_op(new, self.spell)
            insert_at(p, edit[2], edit[3], edit[4], new)
        elif kind == "mov":  # both paths are paths of the tree before the edit
            v, p = node_at(root, edit[1]), node_at(root, edit[2])
            q, qri, qbi, qpos = block_of(v)
            q.regions[qri][qbi].pop(qpos)
            v.op.detach()
            insert_at(p, edit[3], edit[4], min(edit[5], len(p.regions[edit[3]][edit[4]])), v)
        elif kind == "rm":  # SymbolTable.remove on the earlier collection's table object; the IR stays as it is
            t, v = node_at(root, edit[1]), node_at(root, edit[2])
            try:
                self.warmed.get_symbol_table(t.op).remove(v.op)
            except Exception:  # noqa: BLE001
                pass
        else:
            raise core.InfraError(f"unknown edit {edit!r}")
        return Impl(root, self.spell, gone=gone)

    def call(self, f: Any, *a: Any, **kw: Any) -> str:
        try:
            return self.show(f(*a, **kw))
        except Exception as e:  # noqa: BLE001
            return "raise:" + core.exc_name(e)

    def info(self, n: Node) -> str:
        from xdsl import traits
        from xdsl.utils.symbol_table import SymbolTable, get_name_if_symbol

        try:
            nm = get_name_if_symbol(n.op)
            name = "none" if nm is None else str(self.number[nm]) if nm in self.number else "?" + repr(nm)
            vis = VIS_TOKEN[str(SymbolTable.get_symbol_visibility(n.op))]
            tbl = n.op.has_trait(traits.SymbolTable, value_if_unregistered=False)
            return f"id={self.ids[id(n.op)]} table={'true' if tbl else 'false'} name={name} vis={vis}"
        except Exception as e:  # noqa: BLE001
            return "raise:" + core.exc_name(e)

    _symbols: dict[tuple[str, tuple[str, ...]], Any] = {}

    def symbol(self, form: str, names: list[int]) -> Any:
        from xdsl.dialects.builtin import StringAttr, SymbolRefAttr

        if max(names) >= self.checked:  # a reference to a name number beyond the spelled ones
            self.checked = max(names) + 1
            check_spelling(self.spell, self.checked)
        strs = tuple(sym_str(x, self.spell) for x in names)
        key = (form, strs)
        sym = Impl._symbols.get(key)
        if sym is None:
            if form == "s":
                sym = strs[0]
            elif form == "a":
                sym = StringAttr(strs[0])
            else:
                sym = SymbolRefAttr(strs[0], list(strs[1:]))
            if len(Impl._symbols) > 200_000:
                Impl._symbols.clear()
            Impl._symbols[key] = sym
        return sym

    def query(self, n: Node, form: str, names: list[int]) -> dict[str, str]:
        from xdsl import traits
        from xdsl.utils.symbol_table import SymbolTable, SymbolTableCollection

        sym = self.symbol(form, names)
        op = n.op
        obs = {
            "near": self.call(SymbolTable.get_nearest_symbol_table, op),
            "dn": self.call(SymbolTable.lookup_nearest_symbol_from, op, sym),
            "cn": self.call(self.shared.lookup_nearest_symbol_from, op, sym),
            "cf": self.call(SymbolTableCollection().lookup_nearest_symbol_from, op, sym),
            "tr": self.call(traits.SymbolTable.lookup_symbol, op, sym),
        }
        if op.has_trait(traits.SymbolTable, value_if_unregistered=False):
            obs["di"] = self.call(SymbolTable.lookup_symbol_in, op, sym)
            obs["da"] = self.call(SymbolTable.lookup_symbol_in, op, sym, all_symbols=True)
            obs["ci"] = self.call(self.shared.lookup_symbol_in, op, sym)
            obs["ca"] = self.call(SymbolTableCollection().lookup_symbol_in, op, sym, all_symbols=True)
            # the cached table itself (SymbolTable.__init__ + lookup; its signature takes a plain name only)
            obs["tl"] = self.call(lambda: SymbolTable(op).lookup(sym)) if form != "r" else "-"
        else:
            obs.update(di="-", da="-", ci="-", ca="-", tl="-")
        return obs


OBS_ORDER = ("near", "dn", "cn", "cf", "tr", "di", "da", "ci", "ca", "tl")
CALL_SITE = {
    "near": "xdsl.utils.symbol_table.SymbolTable.get_nearest_symbol_table",
    "dn": "xdsl.utils.symbol_table.SymbolTable.lookup_nearest_symbol_from",
    "di": "xdsl.utils.symbol_table.SymbolTable.lookup_symbol_in",
    "da": "xdsl.utils.symbol_table.SymbolTable.lookup_symbol_in",
    "cn": "xdsl.utils.symbol_table.SymbolTableCollection.lookup_nearest_symbol_from",
    "cf": "xdsl.utils.symbol_table.SymbolTableCollection.lookup_nearest_symbol_from",
    "ci": "xdsl.utils.symbol_table.SymbolTableCollection.lookup_symbol_in",
    "ca": "xdsl.utils.symbol_table.SymbolTableCollection.lookup_symbol_in",
    "tr": "xdsl.traits.SymbolTable.lookup_symbol",
    "tl": "xdsl.utils.symbol_table.SymbolTable.lookup",
}
DIRECT_OF = {"cn": "dn", "cf": "dn", "ci": "di", "ca": "da", "tl": "di"}


def obs_line(obs: dict[str, str]) -> str:
    return " ".join(f"{k}={obs[k]}" for k in OBS_ORDER)


def query_line(n: Node, form: str, names: list[int]) -> str:
    return f"q {path_str(n.path)} {form} " + " ".join(map(str, names))


# ---------------------------------------------------------------------------------------------
# Oracle: the property sentence on the implementation's observations
# ---------------------------------------------------------------------------------------------

def oracle(impl: Impl, n: Node, names: list[int], obs: dict[str, str]) -> list[tuple[str, str, str, str]]:
    """-> list of (entry, signature, observed, expected)"""
    bad: list[tuple[str, str, str, str]] = []
    near = ref_nearest(n)
    near_s = "none" if near is None else str(near.id)
    if obs["near"] != near_s:
        bad.append(("near", "nearest enclosing symbol table differs from the innermost table on the ancestor chain",
                    obs["near"], near_s))
    designated, ambiguous = ref_resolve(n, names)
    want = sorted({str(d.id) for d in designated})
    allowed = set(want) | ({"none"} if (ambiguous or not want) else set())
    expected = "|".join(sorted(allowed))
    for key in ("dn", "cn", "cf", "tr", "di", "ci", "tl"):
        r = obs[key]
        if r == "-":
            continue
        if key == "tr" and r == "raise:ValueError" and near is None:
            continue  # documented: no SymbolTable ancestor
        if r in allowed:
            continue
        sig = "result differs from the operation the nesting rules designate"
        if r.startswith("raise:"):
            sig = "lookup raised " + r[6:]
        elif r != "none":
            no_tbl = {str(d.id) for d in ref_resolve(n, names, need_table=False)[0]}
            no_priv = {str(d.id) for d in ref_resolve(n, names, refuse_private=False)[0]}
            neither = {str(d.id) for d in ref_resolve(n, names, need_table=False, refuse_private=False)[0]}
            if r in no_priv:
                sig = "private symbol returned through a nested reference"
            elif r in no_tbl:
                sig = "nested reference resolved through an operation that is not a symbol table"
            elif r in neither:
                sig = "nested reference resolved through a non-table operation to a private symbol"
        else:
            sig = "lookup returned nothing although the nesting rules designate an operation"
        bad.append((key, sig, r, expected))
    for key in ("da", "ca"):
        r = obs[key]
        if r == "-":
            continue
        last = r.split(",")[-1]
        single = obs["di" if key == "da" else "ci"]
        if last != single or (r != "none" and len(r.split(",")) != len(names)):
            bad.append((key, "all_symbols list inconsistent with the single-result lookup", r, single))
    if impl.verified:
        for key, dkey in DIRECT_OF.items():
            if obs[key] != obs[dkey] and obs[key] != "-":
                bad.append((key, "cached lookup differs from direct lookup on a verified module", obs[key], obs[dkey]))
    return bad


# ---------------------------------------------------------------------------------------------
# Generators
# ---------------------------------------------------------------------------------------------

SMALL_LABELS: list[tuple[str, int | None, str | None]] = (
    [("mod", None, None)]
    + [("mod", nm, v) for nm in (0, 1) for v in (None, "private")]
    + [("func", nm, v) for nm in (0, 1) for v in ("public", "private")]
    + [("op", None, None), ("op", 0, None)]  # the second one carries a decoy sym_name attribute
    + [("unreg", None, None)]  # an unregistered operation: neither a symbol nor a symbol table
)


def shapes(k: int) -> Iterator[Any]:
    """ordered rooted trees with k nodes, as nested lists of children"""
    if k == 1:
        yield []
        return
    for forest in forests(k - 1):
        yield forest


def forests(k: int) -> Iterator[list[Any]]:
    if k == 0:
        yield []
        return
    for first in range(1, k + 1):
        for t in shapes(first):
            for restf in forests(k - first):
                yield [t] + restf


def count_nodes(shape: Any) -> int:
    return 1 + sum(count_nodes(c) for c in shape)


def label_shape(shape: Any, labels: Iterator[tuple[str, int | None, str | None]]) -> Node:
    kind, name, vis = next(labels)
    kids = [label_shape(c, labels) for c in shape]
    return make_node(kind, name, vis, [[kids]] if kids or kind in TABLE_KINDS else [])


def make_node(kind: str, name: int | None, vis: str | None, regions: list[list[list[Node]]]) -> Node:
    """add the terminators the verifier asks for (they are operations of the tree like any other)"""
    if kind not in TABLE_KINDS:
        for r in regions:
            for b in r:
                b.append(Node("ret" if kind == "func" else "term"))
    return Node(kind, name, vis, regions)


# reduced alphabet for the 4-operation level of the thorough tier
SMALL_LABELS_4: list[tuple[str, int | None, str | None]] = [
    ("mod", None, None), ("mod", 0, None), ("mod", 0, "private"), ("func", 0, "public"), ("func", 0, "private"),
    ("func", 1, "public"), ("op", None, None), ("op", 0, None),
]


def small_trees(k: int) -> Iterator[Node]:
    """all labelled ordered trees with exactly k operations (before terminators are added)"""
    # the unregistered operation is a label of the trees with ≤2 operations only (larger ones: random part)
    alphabet = SMALL_LABELS if k <= 2 else SMALL_LABELS[:-1] if k == 3 else SMALL_LABELS_4
    for shape in shapes(k):
        for labels in itertools.product(alphabet, repeat=k):
            yield label_shape(shape, iter(labels))


def edit_refs() -> list[tuple[str, list[int]]]:
    """the references asked of the edited small trees: flat as str and as SymbolRefAttr, all depth-1, two depth-2"""
    refs: list[tuple[str, list[int]]] = []
    for nm in (0, 1, 2):
        refs += [("s", [nm]), ("r", [nm])]
    refs += [("r", [a, b]) for a in (0, 1, 2) for b in (0, 1, 2)]
    refs += [("r", [0, 1, 0]), ("r", [0, 0, 1])]
    return refs


def corpus() -> list[Node]:
    """fixed trees beyond the exhaustive scope (minimal inputs of repaired defects stay here): operations
    inside regions of unregistered operations, at the top level and inside a nested module"""
    def wrapper() -> Node:
        return make_node("unreg", None, None, [[[make_node("op", None, None, [])]]])

    return [
        make_node("mod", None, None, [[[make_node("func", 0, "public", []), wrapper()]]]),
        make_node("mod", None, None, [[[
            make_node("func", 0, "private", []),
            make_node("mod", 1, None, [[[make_node("func", 0, "nested", []), make_node("func", 1, "private", []),
                                         wrapper()]]]),
            wrapper()]]]),
    ]


def small_refs() -> list[tuple[str, list[int]]]:
    refs: list[tuple[str, list[int]]] = []
    for nm in (0, 1, 2):
        refs += [("s", [nm]), ("a", [nm]), ("r", [nm])]
    refs += [("r", [a, b]) for a in (0, 1, 2) for b in (0, 1, 2)]
    refs += [("r", [a, b, c]) for a in (0, 1) for b in (0, 1) for c in (0, 1)]
    return refs


VIS_CHOICES = [None, "public", "private", "nested"]


def random_tree(rng: Any, budget: int, unique: bool, pool: int) -> Node:
    """random nested module; `unique` keeps the sym_names of one table body distinct"""
    left = [budget]

    def pick_name(used: set[int]) -> int | None:
        cand = [x for x in range(pool) if x not in used] if unique else list(range(pool))
        if not cand:
            return None
        nm = rng.choice(cand)
        used.add(nm)
        return nm

    def block(depth: int, in_table: bool, width: int) -> list[Node]:
        used: set[int] = set()
        out = []
        for _ in range(width):
            if left[0] <= 0:
                break
            out.append(node(depth, used, in_table))
        return out

    def node(depth: int, used: set[int], in_table: bool) -> Node:
        left[0] -= 1
        r = rng.random()
        deep = depth >= 4
        if r < 0.30 and not deep:
            kind = "gmod" if rng.random() < 0.2 else "mod"
            nm = pick_name(used)
            if nm is None or (kind == "mod" and rng.random() < 0.12):
                kind, nm = "mod", None
            return make_node(kind, nm, rng.choice(VIS_CHOICES), [[block(depth + 1, True, rng.randint(0, 4))]])
        if r < 0.62:
            nm = pick_name(used)
            if nm is not None:
                kind = "sym" if rng.random() < 0.3 else "func"
                if deep or rng.random() < 0.45:
                    regions = [] if kind == "sym" or rng.random() < 0.5 else [[[]]]
                else:
                    regions = [[block(depth + 1, False, rng.randint(0, 3))]]
                    if kind == "sym" and rng.random() < 0.3:
                        regions.append([block(depth + 1, False, rng.randint(0, 2))])
                return make_node(kind, nm, rng.choice(VIS_CHOICES), regions)
        # plain op, possibly with a decoy sym_name attribute and several regions / blocks
        decoy = None
        if rng.random() < 0.2:
            decoy = pick_name(used)
        regions = []
        if not deep and rng.random() < 0.55:
            for _ in range(rng.randint(1, 2)):
                regions.append([block(depth + 1, False, rng.randint(0, 2)) for _ in range(rng.randint(1, 2))])
        return make_node("unreg" if rng.random() < 0.35 else "op", decoy,
                         rng.choice(VIS_CHOICES) if decoy is not None else None, regions)

    r = rng.random()
    if r < 0.85:
        root_kind = "mod"
    elif r < 0.90:
        root_kind = "gmod"
    elif r < 0.95:
        root_kind = "func"
    else:
        root_kind = "op" if rng.random() < 0.5 else "unreg"
    left[0] -= 1
    body = block(1, root_kind in TABLE_KINDS, rng.randint(1, 6))
    name = rng.randrange(pool) if root_kind not in ("op", "unreg") and (root_kind != "mod" or rng.random() < 0.3) else None
    return make_node(root_kind, name, rng.choice(VIS_CHOICES) if name is not None else None,
                     [[body], [block(1, False, 2)]] if root_kind in ("op", "unreg") else [[body]])


def random_refs(rng: Any, nodes: list[Node], pool: int, count: int) -> list[tuple[str, list[int]]]:
    refs: list[tuple[str, list[int]]] = []
    seen: set[tuple[str, tuple[int, ...]]] = set()

    def add(form: str, names: list[int]) -> None:
        key = (form, tuple(names))
        if key not in seen and names:
            seen.add(key)
            refs.append((form, list(names)))

    for nm in range(pool + 1):
        add(rng.choice("sar"), [nm])
    # symbol paths that exist in the tree: names of symbol ops along an ancestor chain suffix
    chains: list[list[int]] = []
    for n in nodes:
        if n.kind in SYMBOL_KINDS and n.name is not None:
            ch = [n.name]
            p = n.parent
            while p is not None and p.kind in SYMBOL_KINDS and p.name is not None and len(ch) < 4:
                ch.insert(0, p.name)
                chains.append(list(ch))
                p = p.parent
            chains.append([n.name])
    rng.shuffle(chains)
    for ch in chains[: count]:
        add("r", ch)
        k = rng.random()
        if k < 0.35:
            add("r", ch + [rng.randrange(pool + 1)])
        elif k < 0.6 and len(ch) > 1:
            j = rng.randrange(len(ch))
            add("r", ch[:j] + [rng.randrange(pool + 1)] + ch[j + 1:])
        elif k < 0.75 and len(ch) > 1:
            add("r", ch[1:])
    while len(refs) < count:
        add("r", [rng.randrange(pool + 1) for _ in range(rng.randint(2, 4))])
    return refs[: max(count, pool + 1)]


# ---------------------------------------------------------------------------------------------
# Edit histories: the module is looked at, edited in place (still the same operations), looked at again
# ---------------------------------------------------------------------------------------------

def slots(nodes: list[Node]) -> list[tuple[Node, int, int, int]]:
    """(operation, region, block, number of positions before a trailing terminator) of every block"""
    out = []
    for n in nodes:
        for ri, r in enumerate(n.regions):
            for bi, b in enumerate(r):
                out.append((n, ri, bi, len(b) - (1 if b and b[-1].kind in ("term", "ret") else 0)))
    return out


def inserted_nodes() -> list[Node]:
    """the operations the small-scope histories insert: a public and a private function, a nested module
    that brings a nested-visible function along"""
    return [make_node("func", 0, "public", []), make_node("func", 1, "private", []),
            make_node("mod", 0, None, [[[make_node("func", 1, "nested", [])]]])]


def small_edits(root: Node) -> Iterator[list[Any]]:
    """every single edit of a small tree: detach each non-root operation, insert a public function at
    the front and at the end (before the terminator) of every block, a private one at the front, a module at the end, move each operation to the front of
    every block outside itself, SymbolTable.remove of each symbol on the earlier collection's table"""
    nodes = finalize(root)
    movable = [n for n in nodes[1:] if n.kind not in ("term", "ret")]
    for v in movable:
        yield ["del", list(v.path)]
    pub, priv, mod = inserted_nodes()
    for p, ri, bi, end in slots(nodes):
        for pos, new in [(0, pub), (end, pub), (0, priv), (end, mod)]:
            if pos != 0 or new is not pub or end != 0:  # front == end in an empty block: the public func once
                yield ["ins", list(p.path), ri, bi, pos, new.to_json()]
    for v in movable:
        inside = {x.id for x in v.walk()}
        for p, ri, bi, _ in slots(nodes):
            if p.id not in inside and (p is not v.parent or block_of(v)[3] != 0):
                yield ["mov", list(v.path), list(p.path), ri, bi, 0]
    for v in movable:
        if v.kind in SYMBOL_KINDS and v.parent is not None and v.parent.kind in TABLE_KINDS:
            yield ["rm", list(v.parent.path), list(v.path)]


def random_edit(rng: Any, root: Node, pool: int) -> list[Any] | None:
    nodes = finalize(root)
    movable = [n for n in nodes[1:] if n.kind not in ("term", "ret")]
    members = [n for n in movable if n.kind in SYMBOL_KINDS and n.parent is not None and n.parent.kind in TABLE_KINDS]
    sl = slots(nodes)
    table_slots = [x for x in sl if x[0].kind in TABLE_KINDS]

    def victim() -> Node:
        return rng.choice(members) if members and rng.random() < 0.7 else rng.choice(movable)

    def slot(exclude: set[int]) -> tuple[Node, int, int, int] | None:
        cand = [x for x in (table_slots if table_slots and rng.random() < 0.7 else sl) if x[0].id not in exclude]
        return rng.choice(cand) if cand else None

    r = rng.random()
    if r < 0.3 and movable:
        return ["del", list(victim().path)]
    if r < 0.65 or not movable:
        x = slot(set())
        if x is None:
            return None
        p, ri, bi, end = x
        kind = rng.choice(["func", "func", "sym", "mod", "gmod"])
        inner = [[[make_node("func", rng.randrange(pool), rng.choice(VIS_CHOICES), [])]]] if rng.random() < 0.6 else [[[]]]
        new = make_node(kind, rng.randrange(pool), rng.choice(VIS_CHOICES), inner if kind in TABLE_KINDS else [])
        return ["ins", list(p.path), ri, bi, rng.randint(0, end), new.to_json()]
    if r < 0.9:
        v = victim()
        x = slot({y.id for y in v.walk()})
        if x is None:
            return None
        p, ri, bi, end = x
        return ["mov", list(v.path), list(p.path), ri, bi, rng.randint(0, max(0, end - (1 if p is v.parent else 0)))]
    if members:
        v = rng.choice(members)
        return ["rm", list(v.parent.path), list(v.path)]
    return None


def apply_to_spec(root: Node, edit: list[Any]) -> Node:
    """the spec after the edit, on a copy (what Impl.apply_edit does to spec and operations together)"""
    root = Node.from_json(root.to_json())
    finalize(root)
    if edit[0] == "del":
        v = node_at(root, edit[1])
        p, ri, bi, pos = block_of(v)
        p.regions[ri][bi].pop(pos)
    elif edit[0] == "ins":
        node_at(root, edit[1]).regions[edit[2]][edit[3]].insert(edit[4], Node.from_json(edit[5]))
    elif edit[0] == "mov":
        v, p = node_at(root, edit[1]), node_at(root, edit[2])
        q, qri, qbi, qpos = block_of(v)
        q.regions[qri][qbi].pop(qpos)
        b = p.regions[edit[3]][edit[4]]
        b.insert(min(edit[5], len(b)), v)
    finalize(root)
    return root


def random_history(rng: Any, root: Node, pool: int, length: int) -> list[Any]:
    edits: list[Any] = []
    cur = root
    for _ in range(length):
        e = random_edit(rng, cur, pool)
        if e is None:
            break
        edits.append(e)
        cur = apply_to_spec(cur, e)
    return edits


# ---------------------------------------------------------------------------------------------
# Running one tree
# ---------------------------------------------------------------------------------------------

class Batch:
    def __init__(self) -> None:
        self.lines: list[str] = []
        self.impl: list[str] = []
        self.starts: list[tuple[int, Any, Any]] = []  # (line index of `tree`, tree json, spelling)

    def add(self, line: str, obs: str) -> None:
        self.lines.append(line)
        self.impl.append(obs)


def names_in_tree(nodes: list[Node]) -> set[int]:
    return {n.name for n in nodes if n.name is not None and n.kind in SYMBOL_KINDS}


def run_tree(ctx: core.Ctx, batch: Batch, root: Node, refs: list[tuple[str, list[int]]], tag: str,
             start_nodes: list[Node] | None = None, spell: Any = None, edits: list[Any] | None = None,
             skip_first: bool = False) -> None:
    """all queries on the tree; then, for every edit of the history `edits`: an earlier user looks at the
    tree (Impl.warm), the tree is edited in place, and all queries are asked again of the edited tree —
    the sentence holds of the module as it is when the lookup is made"""
    root0 = root.to_json()
    impl = Impl(root, spell)
    if not skip_first:
        observe(ctx, batch, impl, refs, tag, start_nodes, root0, [])
    for i, e in enumerate(edits or []):
        impl.warm()
        impl = impl.apply_edit(e)
        ctx.count(f"{tag}.edits.{e[0]}")
        starts = impl.nodes if len(impl.nodes) <= 24 else ctx.rng.sample(impl.nodes, 24)
        observe(ctx, batch, impl, refs, tag + "_edited", starts, root0, list(edits[: i + 1]))


def observe(ctx: core.Ctx, batch: Batch, impl: Impl, refs: list[tuple[str, list[int]]], tag: str,
            start_nodes: list[Node] | None, root0: Any, edits: list[Any]) -> None:
    root, spell = impl.root, impl.spell
    tree_key = json.dumps([root.to_json(), spell, edits], separators=(",", ":"))
    if spell is not None:
        ctx.count(f"{tag}.trees_respelled")
        if "" in spell:
            ctx.count(f"{tag}.trees_with_empty_name")
    batch.starts.append((len(batch.lines), root.to_json(), spell))
    batch.add("tree " + " ".join(model_tokens(root)), "ok")
    batch.add("verify", impl.verify_obs)
    for n in impl.nodes:
        batch.add("info " + path_str(n.path), impl.info(n))
    present = names_in_tree(impl.nodes)
    ctx.count(f"{tag}.trees")
    ctx.count(f"{tag}.trees_verified" if impl.verified else f"{tag}.trees_not_verified")
    ctx.count(f"{tag}.ops", len(impl.nodes))
    for n in (start_nodes if start_nodes is not None else impl.nodes):
        if start_nodes is not None:
            n = impl.nodes[n.id]
        no_table = ref_nearest(n) is None
        for form, names in refs:
            if no_table and len(names) > 2:
                continue  # nothing encloses the start op: deeper references add nothing (and the
                # ValueError of traits.lookup_symbol pretty-prints the whole op every time)
            obs = impl.query(n, form, names)
            batch.add(query_line(n, form, names), obs_line(obs))
            ctx.ev()
            ctx.count(f"{tag}.queries.depth{len(names)}")
            outcome = "found" if obs["dn"] not in ("none",) and not obs["dn"].startswith("raise") else "nothing"
            ctx.count(f"{tag}.direct_nearest.{outcome}")
            if (len(names) > 1 or n.parent is not None) and names[0] in present:
                ctx.nt(hash((tree_key, n.path, form, tuple(names))))  # 64-bit key (PYTHONHASHSEED=0)
            for entry, sig, got, want in oracle(impl, n, names, obs):
                report(ctx, Node.from_json(root0), n, form, names, entry, sig, got, want, spell, edits)


def history(root: Node, spell: Any, edits: list[Any] | None) -> Impl:
    """the adapter of the tree after the edit history (each edit preceded by an earlier user's lookups)"""
    impl = Impl(Node.from_json(root.to_json()), spell)  # a copy: building sets Node.op, the caller's tree stays as is
    for e in edits or []:
        impl.warm()
        impl = impl.apply_edit(e)
    return impl


def failing(root: Node, path: list[int], form: str, names: list[int], entry: str, sig: str,
            spell: Any = None, edits: list[Any] | None = None) -> tuple[str, str] | None:
    """re-evaluate one query on a fresh build; returns (observed, expected) when it still fails the same way"""
    try:
        impl = history(root, spell, edits)
        n = node_at(impl.nodes[0], path)
    except (IndexError, AssertionError):
        return None
    obs = impl.query(n, form, names)
    for e, s, got, want in oracle(impl, n, names, obs):
        if e == entry and s == sig:
            return got, want
    return None


def shrink_case(root: Node, n: Node, form: str, names: list[int], entry: str, sig: str, spell: Any = None
                ) -> tuple[Node, list[int], list[int]]:
    """greedy: drop operations (not on the path to the start op, re-deriving the path) while it still fails"""
    cur = Node.from_json(root.to_json())
    path = list(n.path)
    names = list(names)
    changed = True
    steps = 0
    while changed and steps < 400:
        changed = False
        nodes = finalize(cur)
        start = nodes[0]
        for i in path:
            start = start.children()[i]
        on_path = set()
        p: Node | None = start
        while p is not None:
            on_path.add(p.id)
            p = p.parent
        for victim in reversed(nodes[1:]):
            if victim.id in on_path or victim.kind in ("term", "ret"):
                continue
            steps += 1
            cand = Node.from_json(cur.to_json())
            cn = finalize(cand)
            v = cn[victim.id]
            par = v.parent
            assert par is not None
            for r in par.regions:
                for b in r:
                    if any(x is v for x in b):
                        b[:] = [x for x in b if x is not v]
            finalize(cand)
            new_path = list(cn[start.id].path)
            if failing(cand, new_path, form, names, entry, sig, spell) is not None:
                cur, path, changed = cand, new_path, True
                break
    # shorten the reference from the right
    while len(names) > 1 and failing(cur, path, form, names[:-1], entry, sig, spell) is not None:
        names = names[:-1]
    return cur, path, names


def shrink_spelling(root: Node, path: list[int], form: str, names: list[int], entry: str, sig: str,
                    spell: Any, edits: list[Any] | None = None) -> Any:
    """the plain spelling when the failure does not depend on how the names are spelled, else as few
    respelled names as possible (the others go back to s<i>)"""
    if spell is None or failing(root, path, form, names, entry, sig, None, edits) is not None:
        return None
    cur = list(spell)
    for i in range(len(cur)):
        cand = cur[:i] + [f"s{i}"] + cur[i + 1:]
        if cand[i] == cur[i] or len(set(cand)) != len(cand):
            continue
        try:
            if failing(root, path, form, names, entry, sig, cand, edits) is not None:
                cur = cand
        except core.InfraError:
            pass
    return cur


def report(ctx: core.Ctx, root: Node, n: Node, form: str, names: list[int], entry: str, sig: str,
           got: str, want: str, spell: Any = None, edits: list[Any] | None = None) -> None:
    """`root` is the tree before the edit history `edits`, `n` the start operation in the tree after it"""
    site = CALL_SITE[entry]
    path = list(n.path)
    edits = list(edits or [])
    size = len(json.dumps(root.to_json())) + len(json.dumps(edits))
    prev = next((f for f in ctx.failures if f.kind == "failing-input" and (f.call_site, f.signature) == (site, sig)),
                None)
    if prev is not None and len(json.dumps(prev.case)) <= size + 80:
        return  # a witness of this class at least as small is already recorded (ctx.fail keeps the smallest)
    if edits:
        # fewer edits first; the tree itself is not shrunk (the small-scope histories come first)
        if failing(root, path, form, names, entry, sig, spell, None) is not None:
            edits = []
        else:
            for i in range(len(edits) - 1):
                cand = edits[:i] + edits[i + 1:]
                if failing(root, path, form, names, entry, sig, spell, cand) is not None:
                    edits = cand
                    break
    if not edits and len(list(root.walk())) > 6:
        # only shrink when no small witness of this class is known yet
        known_small = any(f.kind == "failing-input" and (f.call_site, f.signature) == (site, sig)
                          and len(json.dumps(f.case)) < 260 for f in ctx.failures)
        if known_small:
            return
        root, path, names = shrink_case(root, n, form, names, entry, sig, spell)
    if spell is not None:
        spell = shrink_spelling(root, path, form, names, entry, sig, spell, edits)
    again = failing(root, path, form, names, entry, sig, spell, edits)
    if again is not None:
        got, want = again
    case = {"tree": root.to_json(), "from": path, "form": form, "names": names, "entry": entry,
            "text": render(root, spell, edits)}
    if edits:
        case["edits"] = edits
    if spell is not None:
        case["spelling"] = list(spell)
    ref = "::".join("@" + json.dumps(sym_str(x, spell), ensure_ascii=True) for x in names) if spell is not None \
        else "@" + "::@".join(sym_str(x) for x in names)
    after = f" after {len(edits)} edit(s) of a module an earlier collection had looked at" if edits else ""
    ctx.fail(site, sig, case,
             f"{site.rsplit('.', 1)[1]} from op at path {path_str(tuple(path))} with {ref}{after} gave op `{got}`, "
             f"the nesting rules designate `{want}` ({sig})", got, want)


def render(root: Node, spell: Any = None, edits: list[Any] | None = None) -> str:
    try:
        return str(history(root, spell, edits).root.op)
    except Exception as e:  # noqa: BLE001
        return f"<unprintable: {core.exc_name(e)}>"


def flush(ctx: core.Ctx, batch: Batch) -> None:
    if not batch.lines:
        return
    model = ctx.model("symbol_table", batch.lines)
    i = core.diff_streams(batch.impl, model)
    if i is not None:
        j, tree, spell = max((s for s in batch.starts if s[0] <= i), key=lambda s: s[0])
        ctx.mismatch("correspondence:C29/symbol_table",
                     {"tree": tree, "lines": [batch.lines[j], batch.lines[i]],
                      **({"spelling": list(spell)} if spell is not None else {})},
                     [batch.impl[j], batch.impl[i]], [model[j], model[i]],
                     f"line `{batch.lines[i]}`: implementation `{batch.impl[i]}` vs Lean model `{model[i]}`")
    batch.lines.clear(); batch.impl.clear(); batch.starts.clear()


def run(ctx: core.Ctx) -> None:
    ctx.lean()
    quick = ctx.tier == "quick"
    batch = Batch()
    refs, erefs = small_refs(), edit_refs()
    # 1. exhaustive small scope (smallest trees first: the first failure of a class is a minimal one)
    max_nodes = 3 if quick else 4
    complete = 0
    spellings = small_spellings()
    rot = ctx.rng.randrange(len(spellings))
    for k in range(1, max_nodes + 1):
        finished = True
        for idx, root in enumerate(small_trees(k)):
            if k > 3 and ctx.time_left() < 400:
                finished = False
                break
            run_tree(ctx, batch, root, refs, f"small{k}")
            # the same tree with its names respelled: every fixed spelling up to 2 operations, a rotating
            # share of them at 3 (quick: every third tree under one spelling, thorough: every tree under two)
            if k <= 2:
                respell = spellings
            elif k == 3 and quick:
                respell = [spellings[(idx // 3 + rot) % len(spellings)]] if idx % 3 == rot % 3 else []
            elif k == 3:
                respell = [spellings[(idx + rot) % len(spellings)], spellings[(idx * 5 + rot + 1) % len(spellings)]]
            else:
                respell = []
            for sp in respell:
                run_tree(ctx, batch, Node.from_json(root.to_json()), refs, f"small{k}", spell=sp)
            # edit histories: every single edit of the trees with ≤2 operations, one seeded edit of a
            # seed-rotated share of the 3-operation trees (quick: a twelfth, thorough: all)
            if k <= 2:
                hist = [[e] for e in small_edits(Node.from_json(root.to_json()))]
            elif k == 3 and (not quick or idx % 12 == rot % 12):
                hist = [random_history(ctx.rng, Node.from_json(root.to_json()), 2, 1)]
            else:
                hist = []
            for h in hist:
                if h:
                    run_tree(ctx, batch, Node.from_json(root.to_json()), erefs, f"small{k}", edits=h, skip_first=True)
            if len(batch.lines) > 150_000:
                flush(ctx, batch)
        if not finished:
            break
        complete = k
    for root in corpus():
        run_tree(ctx, batch, root, refs, "corpus")
    flush(ctx, batch)
    ctx.exhaustive = complete >= 3
    ctx.extra["exhaustive_scope"] = (
        f"all ordered trees with ≤{min(complete, 3)} operations over {len(SMALL_LABELS) - 1} labels (with ≤2 "
        f"operations: {len(SMALL_LABELS)} labels, an unregistered op among them; these also after every single edit)"
        + (f" and all with 4 operations over {len(SMALL_LABELS_4)} labels" if complete >= 4 else "")
        + f" × all start operations × {len(refs)} references (flat in 3 forms, depth 1 over 3 names, depth 2 over "
        "2 names; from start operations without enclosing table only depth ≤1), names spelled s0/s1/s2; the trees "
        f"with ≤2 operations also under each of {len(spellings)} awkward spellings of the three names (empty string "
        "in each position, blank/case/digit/reserved-word/separator/sigil/unicode/NUL/prefix/attribute-name "
        "families), a rotating share of the 3-operation trees under one of them; random beyond")
    # 2. random larger trees
    n_random = 260 if quick else 6000
    reserve = 12 if quick else 60
    done = 0
    for _ in range(n_random):
        if ctx.time_left() < reserve:
            break
        pool = ctx.rng.choice([2, 3, 3, 4, 6])
        root = random_tree(ctx.rng, ctx.rng.randint(2, 40), ctx.rng.random() < 0.6, pool)
        nodes = finalize(root)
        rrefs = random_refs(ctx.rng, nodes, pool, 14 if quick else 24)
        starts = nodes if len(nodes) <= 24 else ctx.rng.sample(nodes, 24)
        spell = random_spelling(ctx.rng, pool + 1) if ctx.rng.random() < 0.5 else None
        edits = random_history(ctx.rng, Node.from_json(root.to_json()), pool, ctx.rng.choice([1, 1, 2])) \
            if ctx.rng.random() < (0.35 if quick else 0.8) else []
        run_tree(ctx, batch, root, rrefs, "random", starts, spell, edits)
        done += 1
        if done <= 2:
            ctx.sample({"tree_text": render(root, spell), "refs": [[f, ns] for f, ns in rrefs[:6]],
                        "spelling": list(spell) if spell is not None else None})
        if len(batch.lines) > 150_000:
            flush(ctx, batch)
    flush(ctx, batch)
    ctx.count("random.trees_requested", n_random)


def replay(ctx: core.Ctx, body: dict) -> int:
    case = body["case"]
    root = Node.from_json(case["tree"])
    spell = case.get("spelling")
    edits = case.get("edits") or []
    if edits:
        print(Impl(Node.from_json(case["tree"]), spell).root.op)
        print("an earlier SymbolTableCollection (and the static lookups) resolve every name from every operation; "
              "then, on the same operations:")
        for e in edits:
            print("  edit:", json.dumps(e))
        print("the module as it is now, asked through NEW collections:")
    impl = history(root, spell, edits)
    root = impl.root
    print(impl.root.op)
    if spell is not None:
        print("names spelled :", {i: sym_str(i, spell) for i in range(len(spell))})
    print("verify:", impl.verify_obs)
    if "lines" in case:  # correspondence replay: [tree line, differing line]
        lines = case["lines"]
        model = ctx.model("symbol_table", lines)
        w = lines[-1].split()
        now: list[str] = ["ok"]
        if w[0] == "verify":
            now.append(impl.verify_obs)
        elif w[0] in ("info", "q"):
            n = impl.nodes[0]
            for i in ([] if w[1] == "r" else map(int, w[1].split("."))):
                n = n.children()[i]
            now.append(impl.info(n) if w[0] == "info" else obs_line(impl.query(n, w[2], [int(x) for x in w[3:]])))
        print("lines                  :", lines)
        print("implementation (then)  :", body.get("impl_observation"))
        print("implementation (now)   :", now)
        print("lean model             :", model)
        same = model == now
        print("implementation and Lean model", "agree" if same else "DISAGREE", "on this case")
        return 0 if same else 1
    n = impl.nodes[0]
    for i in case["from"]:
        n = n.children()[i]
    form, names = case["form"], case["names"]
    obs = impl.query(n, form, names)
    model = ctx.model("symbol_table", ["tree " + " ".join(model_tokens(root)), query_line(n, form, names)])
    designated, ambiguous = ref_resolve(n, names)
    print("query         :", query_line(n, form, names), "(from op id", n.id, ")")
    print("implementation:", obs_line(obs))
    print("lean model    :", model[1])
    print("reference     : designated ops", sorted(d.id for d in designated), "ambiguous" if ambiguous else "unique",
          "| nearest table", None if ref_nearest(n) is None else ref_nearest(n).id)
    bad = oracle(impl, n, names, obs)
    for entry, sig, got, want in bad:
        print(f"  FAIL {CALL_SITE[entry]}: got {got}, expected {want} — {sig}")
    print("property", "FAILS" if bad else "holds", "on this case")
    return 1 if bad else 0
