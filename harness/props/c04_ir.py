"""C04 helpers: contexts with every dialect, corpus loading, an own canonical serialisation of IR
(independent of the printer), the print → parse → print round trip and its oracle."""
from __future__ import annotations

import dataclasses
from collections.abc import Mapping
import enum
import math
import struct
from io import StringIO
from pathlib import Path
from typing import Any

from vp import core


# ---------------------------------------------------------------------------------------------
# contexts
# ---------------------------------------------------------------------------------------------

def fresh_context(allow_unregistered: bool = True):
    from xdsl.context import Context
    from xdsl.dialects import get_all_dialects

    ctx = Context(allow_unregistered=allow_unregistered)
    for name, factory in get_all_dialects().items():
        ctx.register_dialect(name, factory)
    return ctx


def print_generic(op, with_metadata: bool = False) -> str:
    """generic textual form; `with_metadata` appends the dialect-resource section the way the
    `mlir` target of xdsl-opt does"""
    from xdsl.printer import Printer

    io = StringIO()
    p = Printer(stream=io, print_generic_format=True)
    p.print_op(op)
    if with_metadata:
        from xdsl.dialects.builtin import Builtin
        from xdsl.dialects.test import Test

        p.print_metadata([Builtin, Test])
    return io.getvalue()


def parse_module(text: str, ctx=None):
    from xdsl.parser import Parser

    return Parser(ctx if ctx is not None else fresh_context(), text).parse_module()


# ---------------------------------------------------------------------------------------------
# canonical form (own serialisation: never goes through Printer)
# ---------------------------------------------------------------------------------------------

def _float_bits(x: float) -> str:
    return "f64:" + struct.pack(">d", x).hex()


def canon_py(x: Any) -> Any:
    """Canonical, JSON-like, hashable-by-repr form of attribute payloads."""
    from xdsl.ir import Attribute, Data, ParametrizedAttribute

    if isinstance(x, Attribute):
        return canon_attr(x)
    if x is None:
        return None
    if isinstance(x, enum.Enum):
        return ("enum", type(x).__name__, x.name)
    if isinstance(x, int):  # bool included: True == 1 as attribute payload
        return ("int", int(x))
    if isinstance(x, float):
        return _float_bits(x)
    if isinstance(x, enum.Enum):
        return ("enum", type(x).__name__, x.name)
    if isinstance(x, str):
        return ("str", x)
    if isinstance(x, (bytes, bytearray)):
        return ("bytes", bytes(x).hex())
    if isinstance(x, (tuple, list)):
        return ("seq", tuple(canon_py(y) for y in x))
    if isinstance(x, (set, frozenset)):
        return ("set", tuple(sorted((canon_py(y) for y in x), key=repr)))
    if isinstance(x, Mapping):  # dict, immutabledict
        return ("dict", tuple(sorted(((canon_py(k), canon_py(v)) for k, v in x.items()), key=repr)))
    if dataclasses.is_dataclass(x) and not isinstance(x, type):
        return ("obj", type(x).__name__,
                tuple((f.name, canon_py(getattr(x, f.name))) for f in dataclasses.fields(x)))
    if isinstance(x, complex):
        return ("complex", _float_bits(x.real), _float_bits(x.imag))
    return ("repr", type(x).__name__, repr(x))


def canon_attr(a: Any) -> Any:
    from xdsl.ir import Data, ParametrizedAttribute

    if isinstance(a, Data):
        return ("data", type(a).__name__, a.name, canon_py(a.data))
    if isinstance(a, ParametrizedAttribute):
        return ("param", type(a).__name__, a.name, tuple(canon_py(p) for p in a.parameters))
    return ("attr", type(a).__name__, repr(a))


def _op_name(op) -> str:
    from xdsl.dialects.builtin import UnregisteredOp

    if isinstance(op, UnregisteredOp):
        try:
            return "unregistered:" + op.op_name.data
        except ValueError:  # the bare class `builtin.unregistered` without a name
            return "unregistered:<no op_name__>"
    return op.name


def _attr_view(op) -> tuple:
    """properties ∪ attributes as the property's quantifier says: an inherent attribute given in
    the attribute dictionary ≡ the property it denotes; a property/attribute equal to its declared
    default ≡ absent."""
    from xdsl.dialects.builtin import UnregisteredOp
    from xdsl.irdl import IRDLOperation

    props = dict(op.properties)
    attrs = dict(op.attributes)
    if isinstance(op, UnregisteredOp):
        attrs.pop("op_name__", None)
    prop_defaults: dict[str, Any] = {}
    attr_defaults: dict[str, Any] = {}
    if isinstance(op, IRDLOperation):
        op_def = type(op).get_irdl_definition()
        for n, d in op_def.properties.items():
            if n in attrs and n not in props:
                props[n] = attrs.pop(n)
            if getattr(d, "default_value", None) is not None:
                prop_defaults[n] = d.default_value
        for n, d in op_def.attributes.items():
            if getattr(d, "default_value", None) is not None:
                attr_defaults[n] = d.default_value
    p = tuple(sorted((n, canon_attr(v)) for n, v in props.items()
                     if not (n in prop_defaults and prop_defaults[n] == v)))
    a = tuple(sorted((n, canon_attr(v)) for n, v in attrs.items()
                     if not (n in attr_defaults and attr_defaults[n] == v)))
    return p, a


def canon_op(op) -> Any:
    """Whole-IR canonical form: values and blocks numbered by first occurrence in a fixed walk."""
    vals: dict[int, int] = {}
    blocks: dict[int, int] = {}
    keep: list[Any] = []  # keep objects alive so id() stays unique during the walk

    def vid(v) -> int:
        k = id(v)
        if k not in vals:
            vals[k] = len(vals)
            keep.append(v)
        return vals[k]

    def bid(b) -> int:
        k = id(b)
        if k not in blocks:
            blocks[k] = len(blocks)
            keep.append(b)
        return blocks[k]

    def walk_op(o) -> Any:
        p, a = _attr_view(o)
        res = tuple((vid(r), canon_attr(r.type)) for r in o.results)
        opnds = tuple((vid(v), canon_attr(v.type)) for v in o.operands)
        succ = tuple(bid(b) for b in o.successors)
        regs = tuple(walk_region(r) for r in o.regions)
        return ("op", _op_name(o), res, opnds, succ, p, a, regs)

    def walk_region(r) -> Any:
        bs = list(r.blocks)
        for b in bs:
            bid(b)
        return ("region", tuple(walk_block(b) for b in bs))

    def walk_block(b) -> Any:
        args = tuple((vid(x), canon_attr(x.type)) for x in b.args)
        return ("block", bid(b), args, tuple(walk_op(o) for o in b.ops))

    return walk_op(op)


def first_diff(a: Any, b: Any, path: str = "") -> str | None:
    """human-readable location of the first difference of two canonical forms"""
    if type(a) != type(b):  # noqa: E721
        return f"{path}: {a!r} vs {b!r}"[:400]
    if isinstance(a, tuple):
        if len(a) != len(b):
            return f"{path}: length {len(a)} vs {len(b)}: {a!r} vs {b!r}"[:400]
        for i, (x, y) in enumerate(zip(a, b)):
            d = first_diff(x, y, f"{path}/{a[0] if i and isinstance(a[0], str) else ''}{i}")
            if d:
                return d
        return None
    return None if a == b else f"{path}: {a!r} vs {b!r}"[:400]


# ---------------------------------------------------------------------------------------------
# the round trip and its oracle
# ---------------------------------------------------------------------------------------------

class RT:
    """outcome of one round trip"""
    __slots__ = ("ok", "stage", "detail", "text1", "text2", "m2")

    def __init__(self, ok: bool, stage: str = "", detail: str = "", text1: str = "", text2: str = "", m2=None):
        self.ok, self.stage, self.detail, self.text1, self.text2 = ok, stage, detail, text1, text2
        self.m2 = m2  # the re-parsed module (when the text parsed)


def roundtrip(module, *, check_clone: bool = True, with_metadata: bool = False) -> RT:
    """`module` verifies.  print generic → parse in a fresh Context → canonical forms equal →
    print again: identical text; print twice / print clone: identical text."""
    c0 = canon_op(module)
    try:
        t1 = print_generic(module, with_metadata)
    except Exception as e:  # noqa: BLE001
        return RT(False, "print", f"printer raised {core.exc_name(e)}: {e}"[:300])
    t1b = print_generic(module, with_metadata)
    if t1b != t1:
        return RT(False, "print-twice", "printing the same IR twice gives different text", t1, t1b)
    try:
        m2 = parse_module(t1)
    except Exception as e:  # noqa: BLE001
        return RT(False, "reparse", f"{core.exc_name(e)}: {str(e)[:300]}", t1)
    c1 = canon_op(m2)
    if c0 != c1:
        return RT(False, "canonical", first_diff(c0, c1) or "canonical forms differ", t1, m2=m2)
    t2 = print_generic(m2, with_metadata)
    if t2 != t1:
        return RT(False, "reprint", "text printed from the re-parsed IR differs", t1, t2, m2=m2)
    if check_clone:
        try:
            cl = module.clone()
        except Exception as e:  # noqa: BLE001
            cl = None
        if cl is not None:
            tc = print_generic(cl, with_metadata)
            if tc != t1:
                return RT(False, "print-clone", "printing the clone gives different text", t1, tc, m2=m2)
    return RT(True, text1=t1, m2=m2)


def text_diff_line(a: str, b: str) -> str:
    la, lb = a.splitlines(), b.splitlines()
    for i, (x, y) in enumerate(zip(la, lb)):
        if x != y:
            return f"line {i + 1}: `{x.strip()[:160]}` vs `{y.strip()[:160]}`"
    return f"line count {len(la)} vs {len(lb)}"


# ---------------------------------------------------------------------------------------------
# corpus
# ---------------------------------------------------------------------------------------------

def corpus_chunks() -> list[tuple[str, int, str]]:
    """(relative path, chunk index, text) for every chunk of tests/**/*.mlir (split on `// -----`)"""
    root = core.REPO / "tests"
    out = []
    for p in sorted(root.rglob("*.mlir")):
        try:
            text = p.read_text()
        except Exception:  # noqa: BLE001
            continue
        parts = text.split("// -----")
        for i, part in enumerate(parts):
            if part.strip():
                out.append((str(p.relative_to(core.REPO)), i, part))
    return out


def parse_verified(text: str):
    """parse a corpus chunk with all dialects; None if it does not parse or does not verify"""
    try:
        m = parse_module(text)
        m.verify()
        return m
    except BaseException as e:  # noqa: BLE001
        if isinstance(e, (KeyboardInterrupt, SystemExit)):
            raise
        return None
