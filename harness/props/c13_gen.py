"""C13 generators: stream A (func/arith/cf/scf text with dead code), stream B (effect-kind specs),
and the exhaustive small-scope enumeration."""
from __future__ import annotations

import itertools
from typing import Any, Iterator

from vp import proggen

from props import c13_ir as ir

# --------------------------------------------------------------------------------------------
# stream A
# --------------------------------------------------------------------------------------------


def gen_text(rng: Any) -> dict:
    """a proggen program (unused results, effectful calls, scf nests, cf diamonds/loops with dead
    cycles through block arguments) whose @main gets unreachable blocks appended"""
    cfg = proggen.Config(select=rng.random() < 0.5, max_stmts=rng.choice([4, 6, 8, 10]),
                         loop_shapes=rng.choice([[], [], ["while"], ["nest", "while"]]))
    g = proggen.ProgGen(rng, cfg)
    p = g.program()
    text = p["text"]
    nd = rng.choice([0, 0, 1, 1, 2, 3])
    if nd:
        dead: list[str] = []
        names = [f"^dead{k}" for k in range(nd)]
        rets = []
        for k, t in enumerate(p["ret_types"]):
            v = f"%dr{k}"
            if t in ("f32", "f64"):
                rets.append((v, t, f"  {v} = arith.constant 1.5 : {t}"))
            elif t == "i1":
                rets.append((v, t, f"  {v} = arith.constant true"))
            else:
                rets.append((v, t, f"  {v} = arith.constant {rng.choice([0, 1, 7])} : {t}"))
        for k, nm in enumerate(names):
            x, y, z = f"%dx{k}", f"%dy{k}", f"%dz{k}"
            dead.append(f"{nm}({x}: i32):")
            dead.append(f"  {y} = arith.addi {x}, {x} : i32")
            if rng.random() < 0.5:
                dead.append(f"  {z} = arith.muli {y}, {x} : i32")
            shape = rng.choice(["self", "next", "ret", "cond"])
            nxt = names[(k + 1) % nd]
            if shape == "self":
                dead.append(f"  cf.br {nm}({y} : i32)")
            elif shape == "next":
                dead.append(f"  cf.br {nxt}({y} : i32)")
            elif shape == "cond":
                c = f"%dc{k}"
                dead.append(f"  {c} = arith.cmpi slt, {x}, {y} : i32")
                dead.append(f"  cf.cond_br {c}, {nm}({x} : i32), {nxt}({y} : i32)")
            else:
                for _v, _t, line in rets:
                    dead.append(line.replace("%dr", f"%dr{k}_"))
                dead.append("  func.return " + ", ".join(v.replace("%dr", f"%dr{k}_") for v, _t, _l in rets)
                            + " : " + ", ".join(t for _v, t, _l in rets))
        # insert before the closing brace of @main (the function that holds the only `func.return` of
        # the main signature: it is the last function with a body)
        marker = "func.func @main("
        i = text.index(marker)
        j = text.index("\n}\n", i)
        text = text[:j] + "\n" + "\n".join(dead) + text[j:]
    return {"mlir": text, "arg_types": p["arg_types"], "ret_types": p["ret_types"], "dead_blocks": nd,
            "inputs": g.inputs(p["arg_types"], 3)}


# --------------------------------------------------------------------------------------------
# stream B
# --------------------------------------------------------------------------------------------

LEAF_KINDS = (["pure"] * 6 + ["read"] * 2 + ["write"] * 2 + ["unknown"] * 2 + ["unreg"]
              + ["free", "alloc", "alloc_res", "alloc_res", "alloc_opnd", "alloc_opnd", "rw", "sym", "sympure"])
NEST_KINDS = ["rec"] * 5 + ["rec_read", "pure_region", "sym_region", "unknown_region"]


QUIET_LEAF_KINDS = ["pure"] * 3 + ["read"] * 3 + ["alloc_res"] * 2


def gen_spec(rng: Any, max_depth: int = 2) -> list[dict]:
    """structure first, operands afterwards (so that uses may point forwards and form cycles).
    Operations with regions get 1-3 regions; about half of the regions of an operation with recursive
    effects are "quiet" (pure terminators, leaves that only read / allocate their own result, nested
    operations quiet as well), so that whether the operation may go is regularly decided by ONE
    operation in a later region, a later block or below a nested operation."""

    def gen_ops(depth: int, n: int, module_level: bool, quiet: bool = False) -> list[dict]:
        ops = []
        for _ in range(n):
            if depth < max_depth and rng.random() < (0.45 if module_level else 0.25):
                k = rng.choice(NEST_KINDS if not module_level else NEST_KINDS + ["sym_region", "unknown_region"])
                if quiet:
                    k = rng.choice(["rec", "rec", "rec_read"])
                nreg = rng.choice([1, 1, 2, 2, 3])
                regs = [gen_region(depth + 1, quiet or (k in ("rec", "rec_read") and rng.random() < 0.5))
                        for _ in range(nreg)]
                ops.append({"k": k, "n": rng.choice([0, 1, 1, 2]), "u": [], "s": [], "r": regs})
            else:
                k = rng.choice(QUIET_LEAF_KINDS if quiet else LEAF_KINDS)
                if k in ("sympure",) and not module_level and rng.random() < 0.7:
                    k = "pure"
                ops.append({"k": k, "n": rng.choice([0, 1, 1, 1, 2]), "u": [], "s": [], "r": []})
        return ops

    def gen_region(depth: int, quiet: bool = False) -> list[list[dict]]:
        nb = rng.choice([1, 1, 1, 2, 3, 4])
        blocks = []
        for _b in range(nb):
            ops = gen_ops(depth, rng.choice([0, 1, 2, 2, 3, 4]), False, quiet)
            deg = rng.choice([0, 1, 1, 2]) if nb > 1 else rng.choice([0, 0, 0, 1])
            tk = "termpure" if quiet else rng.choice(["term", "term", "termpure", "unregterm", "unregterm"])
            term = {"k": tk, "n": 0, "u": [],
                    "s": [rng.randrange(nb) for _ in range(deg)], "r": []}
            blocks.append(ops + [term])
        return blocks

    top = gen_ops(0, rng.choice([1, 2, 3, 4, 5]), True)
    assign_operands(rng, top)
    return top


def assign_operands(rng: Any, top: list[dict]) -> None:
    """Operand choice keeps the IR meaningful for a pass that deletes unreachable blocks: an operation
    of a reachable block only uses results defined in its own block, in the entry block of its
    region, or (for nested operations) in what the enclosing operation may use; an operation of an
    unreachable block may additionally use any result of its own region.  Inside one block uses may
    point forwards or at the operation itself (graph regions, dead cycles)."""
    labels: dict[int, int] = {}
    for n, o in enumerate(ir.spec_labels(top)):
        labels[id(o)] = n

    def local_reach(region: list[list[dict]]) -> set[int]:
        seen, todo = {0}, [0]
        while todo:
            b = todo.pop()
            last = region[b][-1] if region[b] else None
            if last is None or last["k"] not in ir.TERM_KINDS:
                continue
            for s in last["s"]:
                if s not in seen:
                    seen.add(s)
                    todo.append(s)
        return seen

    def defs(ops: list[dict]) -> list[tuple[int, int]]:
        return [(labels[id(o)], k) for o in ops for k in range(o.get("n", 0))]

    def go_block(ops: list[dict], visible: list[tuple[int, int]]) -> None:
        for o in ops:
            cand = visible
            if cand and o["k"] not in ("sym_region",):
                want = rng.choice([0, 0, 1, 1, 2]) if o["k"] != "alloc_opnd" else rng.choice([1, 1, 2])
                o["u"] = [list(rng.choice(cand)) for _ in range(want)]
            for r in o.get("r", []):
                go_region(r, visible)

    def go_region(region: list[list[dict]], outer: list[tuple[int, int]]) -> None:
        reach = local_reach(region)
        entry = defs(region[0])
        everything = [d for b in region for d in defs(b)]
        for bi, b in enumerate(region):
            if bi in reach:
                vis = outer + entry + (defs(b) if bi != 0 else [])
            else:
                vis = outer + everything
            go_block(b, vis)

    go_block(top, defs(top))


def spec_stats(top: list[dict]) -> dict[str, int]:
    ops = ir.spec_labels(top)
    return {"ops": len(ops), "kinds": len({o["k"] for o in ops}),
            "nested": sum(1 for o in ops if o.get("r")),
            "multi_block_regions": sum(1 for o in ops for r in o.get("r", []) if len(r) > 1)}


# --------------------------------------------------------------------------------------------
# exhaustive small scope: one `test.op` holding one block of n operations and a terminator
# --------------------------------------------------------------------------------------------

SMALL_KINDS = ("pure", "read", "write", "unknown", "recuse", "recself", "recdead")
SMALL_KINDS_3 = ("pure", "read", "write", "unknown", "recuse")
_NESTED = {"recuse": 2, "recself": 1, "recdead": 2}


def small_spec(kinds: tuple[str, ...], uses: tuple[int | None, ...]) -> list[dict]:
    """operation i has kind kinds[i] and uses operation uses[i] (None: no operand).
    `recuse`: a `c13.rec` whose region holds a pure operation with that operand, yielded by a pure
    terminator (the shape of a dead `scf.if` that uses an outer value);
    `recself`: a `c13.rec` (with that operand) whose pure terminator uses the result of the `c13.rec`
    itself (a dead use cycle through a nested region);
    `recdead`: a `c13.rec` (with that operand) whose region has an unreachable second block that ends
    in a terminator with unknown effects."""
    # labels: 0 is the wrapper; the block's ops follow in pre-order
    lab, labs = 1, []
    for k in kinds:
        labs.append(lab)
        lab += 1 + _NESTED.get(k, 0)
    ops = []
    for i, k in enumerate(kinds):
        u = [[labs[uses[i]], 0]] if uses[i] is not None else []
        if k == "recuse":
            inner = {"k": "pure", "n": 1, "u": u, "s": [], "r": []}
            y = {"k": "termpure", "n": 0, "u": [[labs[i] + 1, 0]], "s": [], "r": []}
            ops.append({"k": "rec", "n": 1, "u": [], "s": [], "r": [[[inner, y]]]})
        elif k == "recself":
            y = {"k": "termpure", "n": 0, "u": [[labs[i], 0]], "s": [], "r": []}
            ops.append({"k": "rec", "n": 1, "u": u, "s": [], "r": [[[y]]]})
        elif k == "recdead":
            y = {"k": "termpure", "n": 0, "u": [], "s": [], "r": []}
            z = {"k": "term", "n": 0, "u": [], "s": [1], "r": []}
            ops.append({"k": "rec", "n": 1, "u": u, "s": [], "r": [[[y], [z]]]})
        else:
            ops.append({"k": k, "n": 1, "u": u, "s": [], "r": []})
    ops.append({"k": "term", "n": 0, "u": [], "s": [], "r": []})
    return [{"k": "unknown_region", "n": 0, "u": [], "s": [], "r": [[ops]]}]


def enum_small(n: int) -> Iterator[tuple[tuple[str, ...], tuple[int | None, ...]]]:
    for kinds in itertools.product(SMALL_KINDS if n <= 2 else SMALL_KINDS_3, repeat=n):
        for uses in itertools.product([None, *range(n)], repeat=n):
            yield kinds, uses


# --------------------------------------------------------------------------------------------
# fixed shapes: blocks that are only reachable through an unregistered branch-like operation
# --------------------------------------------------------------------------------------------

def _op(k: str, n: int = 0, u: list | None = None, s: list | None = None, r: list | None = None) -> dict:
    return {"k": k, "n": n, "u": u or [], "s": s or [], "r": r or []}


def unregistered_branch_specs() -> list[list[dict]]:
    """regions of a `test.op` whose control flow passes through `"unknown.br"()[^bb…]`"""
    out = []
    for eff in ("write", "unknown", "free", "rw", "pure", "read"):
        # ^0: unknown.br[^1]   ^1: <eff>; test.termop
        out.append([_op("unknown_region", r=[[[_op("unregterm", s=[1])],
                                              [_op(eff, n=1), _op("term")]]])])
        # the same below an operation with recursive effects whose result is used
        out.append([_op("unknown_region", r=[[[
            _op("rec", n=1, r=[[[_op("unregterm", s=[1])], [_op(eff, n=1), _op("termpure")]]]),
            _op("term", u=[[1, 0]])]]])])
    # the demo: ^0 -> ^2 -> ^3 through unregistered branches, ^1 really unreachable
    out.append([_op("unknown_region", r=[[
        [_op("unknown", n=1), _op("unregterm", u=[[1, 0]], s=[2])],
        [_op("unknown"), _op("term", s=[2])],
        [_op("pure", n=1), _op("unknown", u=[[5, 0]]), _op("unregterm", s=[3, 3])],
        [_op("unknown"), _op("term")]]])])
    # a chain and a loop of unregistered branches with a write at the end / in the loop
    out.append([_op("unknown_region", r=[[[_op("unregterm", s=[1])], [_op("unregterm", s=[2])],
                                          [_op("write"), _op("term")]]])])
    out.append([_op("unknown_region", r=[[[_op("unregterm", s=[1])],
                                          [_op("write"), _op("unregterm", s=[1, 2])],
                                          [_op("term")]]])])
    # mixed: a known terminator leads to a block that ends in an unregistered branch
    out.append([_op("unknown_region", r=[[[_op("term", s=[2])], [_op("write"), _op("term")],
                                          [_op("unregterm", s=[3])], [_op("free"), _op("termpure")]]])])
    return out


# --------------------------------------------------------------------------------------------
# effect-position family: WHERE inside an operation with recursive effects an effect sits must not
# matter.  `get_effects` of such an operation is the union over every region, every block of the
# region and every operation of the block (and, through nested operations with recursive effects,
# below).  One operation with recursive effects, unused result, regions of chained blocks ending in
# pure terminators; a harmless ("quiet") item and an observable ("loud") item are placed at every
# ordered pair of positions (region, block) – for the same block in both orders.
# --------------------------------------------------------------------------------------------

POS_QUIET_QUICK = ("none", "read", "alloc_res", "recread")
POS_LOUD_QUICK = ("write", "free", "unknown", "recwrite")
POS_QUIET_FULL = ("none", "pure", "read", "alloc_res", "recread")
POS_LOUD_FULL = ("write", "free", "alloc", "rw", "unknown", "unreg", "sym", "recwrite")
POS_SHAPES_QUICK = ((2, 2, 2),)
POS_SHAPES_FULL = ((1,), (2,), (1, 1), (2, 1), (1, 2), (2, 2), (1, 1, 1), (2, 2, 2), (1, 1, 1, 1))


def _pos_item(kind: str) -> list[dict]:
    if kind == "none":
        return []
    if kind == "recwrite":      # the observable effect sits in the SECOND region of a nested operation
        return [_op("rec", n=0, r=[[[_op("read", n=1), _op("termpure")]],
                                   [[_op("write", n=1), _op("termpure")]]])]
    if kind == "recread":       # harmless effects through a nested operation with recursive effects
        return [_op("rec", n=1, r=[[[_op("termpure")]], [[_op("read", n=1), _op("termpure")]]])]
    return [_op(kind, n=1)]


def position_spec(outer: str, shape: tuple[int, ...], placed: list[tuple[tuple[int, int], str]],
                  chain: bool = True) -> list[dict]:
    """`outer` operation (unused result) with len(shape) regions, region r of shape[r] blocks; block b
    branches to block b + 1 (`chain`; otherwise every block just ends: later blocks are unreachable);
    `placed`: ((region, block), item kind) in the order the items appear inside their block"""
    regs = []
    for r, nb in enumerate(shape):
        blocks = []
        for b in range(nb):
            ops: list[dict] = []
            for (pr, pb), kind in placed:
                if (pr, pb) == (r, b):
                    ops.extend(_pos_item(kind))
            ops.append(_op("termpure", s=[b + 1] if chain and b + 1 < nb else []))
            blocks.append(ops)
        regs.append(blocks)
    return [_op(outer, n=1, r=regs)]


def position_specs(full: bool) -> Iterator[dict]:
    """cases {"spec": …, "pos": description}; enumeration order = size order"""
    shapes = POS_SHAPES_FULL if full else POS_SHAPES_QUICK
    quiets = POS_QUIET_FULL if full else POS_QUIET_QUICK
    louds = POS_LOUD_FULL if full else POS_LOUD_QUICK
    outers = ("rec", "rec_read") if full else ("rec",)
    for shape in shapes:
        poss = [(r, b) for r, nb in enumerate(shape) for b in range(nb)]
        for outer in outers:
            # controls: only harmless items (the operation is removable wherever they sit)
            for q in quiets:
                if q == "none":
                    yield {"spec": position_spec(outer, shape, [])}
                    continue
                for p in poss:
                    yield {"spec": position_spec(outer, shape, [(p, q)])}
            for loud in louds:
                for q in quiets:
                    for pl in poss:
                        if q == "none":
                            yield {"spec": position_spec(outer, shape, [(pl, loud)])}
                            continue
                        for pq in poss:
                            yield {"spec": position_spec(outer, shape, [(pq, q), (pl, loud)])}
                            if pq == pl:
                                yield {"spec": position_spec(outer, shape, [(pl, loud), (pq, q)])}
    if full:
        # the observable item in a block that is never executed (no branch leads to it): the operation
        # is removable; and two harmless items before the observable one
        for shape in ((2,), (1, 2), (2, 2), (2, 2, 2)):
            poss = [(r, b) for r, nb in enumerate(shape) for b in range(nb)]
            for loud in ("write", "unknown"):
                for q in ("none", "read"):
                    for pl in poss:
                        for pq in poss:
                            yield {"spec": position_spec("rec", shape, [(pq, q), (pl, loud)], chain=False)}
        for shape in ((1, 1, 1), (2, 2, 2)):
            poss = [(r, b) for r, nb in enumerate(shape) for b in range(nb)]
            for loud in ("write", "unknown"):
                for q1, q2 in (("read", "alloc_res"), ("read", "read"), ("alloc_res", "recread")):
                    for p1, p2, pl in itertools.product(poss, repeat=3):
                        yield {"spec": position_spec("rec", shape, [(p1, q1), (p2, q2), (pl, loud)])}


def position_scope(full: bool) -> str:
    shapes = POS_SHAPES_FULL if full else POS_SHAPES_QUICK
    return (f"one operation with recursive effects and an unused result, region shapes (blocks per region) "
            f"{[list(s) for s in shapes]}, blocks chained by pure terminators; harmless item "
            f"{list(POS_QUIET_FULL if full else POS_QUIET_QUICK)} x observable item "
            f"{list(POS_LOUD_FULL if full else POS_LOUD_QUICK)} at EVERY ordered pair of (region, block) positions "
            f"(same block: both orders), plus the harmless item alone at every position"
            + ("; also unchained blocks (observable item in a block that is never executed) and triples" if full else ""))


# --------------------------------------------------------------------------------------------
# stream C: the multi-region operations of the real dialects that declare RecursiveMemoryEffect
# (scf.if, scf.while, scf.index_switch, affine.if; scf.for as the one-region control), with
# memref.load / memref.store / external calls at every region position.  @main initialises two cells
# of a buffer, runs the operation and returns the two cells: a store that disappears changes the
# results, a call that disappears changes the effect log.
# --------------------------------------------------------------------------------------------

REGION_ITEMS_QUICK = ("none", "load", "store", "call")
REGION_ITEMS_FULL = ("none", "pure", "load", "store", "call", "nest", "loadstore")


def _item_text(kind: str, tag: str, ind: str) -> list[str]:
    if kind == "none":
        return []
    if kind == "pure":
        return [f"{ind}%p{tag} = arith.addi %v, %v : i32"]
    if kind == "load":
        return [f"{ind}%l{tag} = memref.load %m[%i0] : memref<4xi32>"]
    if kind == "store":
        return [f"{ind}memref.store %v, %m[%i1] : memref<4xi32>"]
    if kind == "loadstore":
        return [f"{ind}%l{tag} = memref.load %m[%i0] : memref<4xi32>",
                f"{ind}memref.store %l{tag}, %m[%i1] : memref<4xi32>"]
    if kind == "call":
        return [f"{ind}func.call @ext_i32(%v) : (i32) -> ()"]
    if kind == "nest":          # the store sits in the else-region of a nested scf.if whose then-region loads
        return [f"{ind}scf.if %c {{", f"{ind}  %n{tag} = memref.load %m[%i0] : memref<4xi32>", f"{ind}}} else {{",
                f"{ind}  memref.store %v, %m[%i0] : memref<4xi32>", f"{ind}}}"]
    raise ValueError(kind)


def region_op_text(op: str, items: tuple[str, ...]) -> dict:
    """@main(%c: i1, %v: i32, %n: index) -> (i32, i32) around one region operation `op` whose k-th region
    (or, for scf.for, k-th position of the body) holds items[k]"""
    body: list[str] = []
    it = [_item_text(k, str(j), "    ") for j, k in enumerate(items)]
    if op == "scf.if":
        body += ["  scf.if %c {", *it[0], "  } else {", *it[1], "  }"]
    elif op == "scf.if.res":
        body += ["  %q = scf.if %c -> (i32) {", *it[0], "    scf.yield %v : i32", "  } else {", *it[1],
                 "    scf.yield %z : i32", "  }"]
    elif op == "scf.while":
        body += ["  %w = scf.while (%a = %z) : (i32) -> i32 {", *it[0],
                 "    %cond = arith.cmpi slt, %a, %two : i32", "    scf.condition(%cond) %a : i32",
                 "  } do {", "  ^bb0(%b: i32):", *it[1], "    %nx = arith.addi %b, %one : i32",
                 "    scf.yield %nx : i32", "  }"]
    elif op == "scf.for":
        body += ["  scf.for %k = %i0 to %i2 step %i1 {", *[l for x in it for l in x], "  }"]
    elif op == "scf.index_switch":
        # regions in the order of the operation: default first, then the cases
        body += ["  scf.index_switch %n", "  case 0 {", *it[1], "    scf.yield", "  }", "  case 1 {", *it[2],
                 "    scf.yield", "  }", "  default {", *it[0], "    scf.yield", "  }"]
    elif op == "affine.if":
        r = ["({\n" + "\n".join([*x, '    "affine.yield"() : () -> ()']) + "\n  }" for x in it]
        r = [r[0], r[1][1:]]
        body += ['  "affine.if"(%n) <{condition = affine_set<(d0) : (d0 - 1 >= 0)>}> ' + ", ".join(r)
                 + ") : (index) -> ()"]
    else:
        raise ValueError(op)
    text = "\n".join([
        "builtin.module {",
        "func.func @main(%c: i1, %v: i32, %n: index) -> (i32, i32) {",
        "  %m = memref.alloc() : memref<4xi32>",
        "  %i0 = arith.constant 0 : index", "  %i1 = arith.constant 1 : index", "  %i2 = arith.constant 2 : index",
        "  %z = arith.constant 0 : i32", "  %one = arith.constant 1 : i32", "  %two = arith.constant 2 : i32",
        "  memref.store %one, %m[%i0] : memref<4xi32>", "  memref.store %two, %m[%i1] : memref<4xi32>",
        *body,
        "  %r0 = memref.load %m[%i0] : memref<4xi32>", "  %r1 = memref.load %m[%i1] : memref<4xi32>",
        "  func.return %r0, %r1 : i32, i32", "}",
        "func.func private @ext_i32(i32) -> ()", "}", ""])
    return {"mlir": text, "arg_types": ["i1", "i32", "index"], "ret_types": ["i32", "i32"],
            "inputs": [[1, 7, 0], [0, -3, 1], [1, 40, 5]], "region_op": op, "items": list(items)}


REGION_OPS_SEM = {"scf.if": 2, "scf.if.res": 2, "scf.while": 2, "scf.for": 2}
REGION_OPS_NOSEM = {"scf.index_switch": 3, "affine.if": 2}


def region_op_texts(full: bool, with_sem: bool) -> list[dict]:
    """every assignment of an item kind to every region (position) of every operation; the quick tier
    keeps scf.if / scf.while (Sem) and scf.index_switch over 3 kinds / affine.if (structure only)"""
    out = []
    for op, n in (REGION_OPS_SEM if with_sem else REGION_OPS_NOSEM).items():
        kinds = REGION_ITEMS_FULL if full else REGION_ITEMS_QUICK
        if not full:
            if op in ("scf.if.res", "scf.for"):
                continue
            if op == "scf.index_switch":
                kinds = ("none", "load", "store")
        for items in itertools.product(kinds, repeat=n):
            out.append(region_op_text(op, items))
    return out
