"""C13 generators: stream A (func/arith/cf/scf text with dead code), stream B (effect-kind specs),
and the exhaustive small-scope enumeration."""
from __future__ import annotations

import itertools
from typing import Any, Iterator

from vp import proggen

from props import c13_ir as ir

# --------------------------------------------------------------------------------------------
# stream A
# --------------------------------------------------------------------------------------------


def gen_text(rng: Any) -> dict:
    """a proggen program (unused results, effectful calls, scf nests, cf diamonds/loops with dead
    cycles through block arguments) whose @main gets unreachable blocks appended"""
    cfg = proggen.Config(select=rng.random() < 0.5, max_stmts=rng.choice([4, 6, 8, 10]))
    g = proggen.ProgGen(rng, cfg)
    p = g.program()
    text = p["text"]
    nd = rng.choice([0, 0, 1, 1, 2, 3])
    if nd:
        dead: list[str] = []
        names = [f"^dead{k}" for k in range(nd)]
        rets = []
        for k, t in enumerate(p["ret_types"]):
            v = f"%dr{k}"
            if t in ("f32", "f64"):
                rets.append((v, t, f"  {v} = arith.constant 1.5 : {t}"))
            elif t == "i1":
                rets.append((v, t, f"  {v} = arith.constant true"))
            else:
                rets.append((v, t, f"  {v} = arith.constant {rng.choice([0, 1, 7])} : {t}"))
        for k, nm in enumerate(names):
            x, y, z = f"%dx{k}", f"%dy{k}", f"%dz{k}"
            dead.append(f"{nm}({x}: i32):")
            dead.append(f"  {y} = arith.addi {x}, {x} : i32")
            if rng.random() < 0.5:
                dead.append(f"  {z} = arith.muli {y}, {x} : i32")
            shape = rng.choice(["self", "next", "ret", "cond"])
            nxt = names[(k + 1) % nd]
            if shape == "self":
                dead.append(f"  cf.br {nm}({y} : i32)")
            elif shape == "next":
                dead.append(f"  cf.br {nxt}({y} : i32)")
            elif shape == "cond":
                c = f"%dc{k}"
                dead.append(f"  {c} = arith.cmpi slt, {x}, {y} : i32")
                dead.append(f"  cf.cond_br {c}, {nm}({x} : i32), {nxt}({y} : i32)")
            else:
                for _v, _t, line in rets:
                    dead.append(line.replace("%dr", f"%dr{k}_"))
                dead.append("  func.return " + ", ".join(v.replace("%dr", f"%dr{k}_") for v, _t, _l in rets)
                            + " : " + ", ".join(t for _v, t, _l in rets))
        # insert before the closing brace of @main (the function that holds the only `func.return` of
        # the main signature: it is the last function with a body)
        marker = "func.func @main("
        i = text.index(marker)
        j = text.index("\n}\n", i)
        text = text[:j] + "\n" + "\n".join(dead) + text[j:]
    return {"mlir": text, "arg_types": p["arg_types"], "ret_types": p["ret_types"], "dead_blocks": nd,
            "inputs": g.inputs(p["arg_types"], 3)}


# --------------------------------------------------------------------------------------------
# stream B
# --------------------------------------------------------------------------------------------

LEAF_KINDS = (["pure"] * 6 + ["read"] * 2 + ["write"] * 2 + ["unknown"] * 2 + ["unreg"]
              + ["free", "alloc", "alloc_res", "alloc_res", "alloc_opnd", "alloc_opnd", "rw", "sym", "sympure"])
NEST_KINDS = ["rec"] * 5 + ["rec_read", "pure_region", "sym_region", "unknown_region"]


def gen_spec(rng: Any, max_depth: int = 2) -> list[dict]:
    """structure first, operands afterwards (so that uses may point forwards and form cycles)"""

    def gen_ops(depth: int, n: int, module_level: bool) -> list[dict]:
        ops = []
        for _ in range(n):
            if depth < max_depth and rng.random() < (0.45 if module_level else 0.25):
                k = rng.choice(NEST_KINDS if not module_level else NEST_KINDS + ["sym_region", "unknown_region"])
                regs = [gen_region(depth + 1) for _ in range(rng.choice([1, 1, 1, 2]))]
                ops.append({"k": k, "n": rng.choice([0, 1, 1, 2]), "u": [], "s": [], "r": regs})
            else:
                k = rng.choice(LEAF_KINDS)
                if k in ("sympure",) and not module_level and rng.random() < 0.7:
                    k = "pure"
                ops.append({"k": k, "n": rng.choice([0, 1, 1, 1, 2]), "u": [], "s": [], "r": []})
        return ops

    def gen_region(depth: int) -> list[list[dict]]:
        nb = rng.choice([1, 1, 1, 2, 3, 4])
        blocks = []
        for _b in range(nb):
            ops = gen_ops(depth, rng.choice([0, 1, 2, 2, 3, 4]), False)
            deg = rng.choice([0, 1, 1, 2]) if nb > 1 else rng.choice([0, 0, 0, 1])
            term = {"k": rng.choice(["term", "term", "termpure", "unregterm", "unregterm"]), "n": 0, "u": [],
                    "s": [rng.randrange(nb) for _ in range(deg)], "r": []}
            blocks.append(ops + [term])
        return blocks

    top = gen_ops(0, rng.choice([1, 2, 3, 4, 5]), True)
    assign_operands(rng, top)
    return top


def assign_operands(rng: Any, top: list[dict]) -> None:
    """Operand choice keeps the IR meaningful for a pass that deletes unreachable blocks: an operation
    of a reachable block only uses results defined in its own block, in the entry block of its
    region, or (for nested operations) in what the enclosing operation may use; an operation of an
    unreachable block may additionally use any result of its own region.  Inside one block uses may
    point forwards or at the operation itself (graph regions, dead cycles)."""
    labels: dict[int, int] = {}
    for n, o in enumerate(ir.spec_labels(top)):
        labels[id(o)] = n

    def local_reach(region: list[list[dict]]) -> set[int]:
        seen, todo = {0}, [0]
        while todo:
            b = todo.pop()
            last = region[b][-1] if region[b] else None
            if last is None or last["k"] not in ir.TERM_KINDS:
                continue
            for s in last["s"]:
                if s not in seen:
                    seen.add(s)
                    todo.append(s)
        return seen

    def defs(ops: list[dict]) -> list[tuple[int, int]]:
        return [(labels[id(o)], k) for o in ops for k in range(o.get("n", 0))]

    def go_block(ops: list[dict], visible: list[tuple[int, int]]) -> None:
        for o in ops:
            cand = visible
            if cand and o["k"] not in ("sym_region",):
                want = rng.choice([0, 0, 1, 1, 2]) if o["k"] != "alloc_opnd" else rng.choice([1, 1, 2])
                o["u"] = [list(rng.choice(cand)) for _ in range(want)]
            for r in o.get("r", []):
                go_region(r, visible)

    def go_region(region: list[list[dict]], outer: list[tuple[int, int]]) -> None:
        reach = local_reach(region)
        entry = defs(region[0])
        everything = [d for b in region for d in defs(b)]
        for bi, b in enumerate(region):
            if bi in reach:
                vis = outer + entry + (defs(b) if bi != 0 else [])
            else:
                vis = outer + everything
            go_block(b, vis)

    go_block(top, defs(top))


def spec_stats(top: list[dict]) -> dict[str, int]:
    ops = ir.spec_labels(top)
    return {"ops": len(ops), "kinds": len({o["k"] for o in ops}),
            "nested": sum(1 for o in ops if o.get("r")),
            "multi_block_regions": sum(1 for o in ops for r in o.get("r", []) if len(r) > 1)}


# --------------------------------------------------------------------------------------------
# exhaustive small scope: one `test.op` holding one block of n operations and a terminator
# --------------------------------------------------------------------------------------------

SMALL_KINDS = ("pure", "read", "write", "unknown", "recuse", "recself", "recdead")
SMALL_KINDS_3 = ("pure", "read", "write", "unknown", "recuse")
_NESTED = {"recuse": 2, "recself": 1, "recdead": 2}


def small_spec(kinds: tuple[str, ...], uses: tuple[int | None, ...]) -> list[dict]:
    """operation i has kind kinds[i] and uses operation uses[i] (None: no operand).
    `recuse`: a `c13.rec` whose region holds a pure operation with that operand, yielded by a pure
    terminator (the shape of a dead `scf.if` that uses an outer value);
    `recself`: a `c13.rec` (with that operand) whose pure terminator uses the result of the `c13.rec`
    itself (a dead use cycle through a nested region);
    `recdead`: a `c13.rec` (with that operand) whose region has an unreachable second block that ends
    in a terminator with unknown effects."""
    # labels: 0 is the wrapper; the block's ops follow in pre-order
    lab, labs = 1, []
    for k in kinds:
        labs.append(lab)
        lab += 1 + _NESTED.get(k, 0)
    ops = []
    for i, k in enumerate(kinds):
        u = [[labs[uses[i]], 0]] if uses[i] is not None else []
        if k == "recuse":
            inner = {"k": "pure", "n": 1, "u": u, "s": [], "r": []}
            y = {"k": "termpure", "n": 0, "u": [[labs[i] + 1, 0]], "s": [], "r": []}
            ops.append({"k": "rec", "n": 1, "u": [], "s": [], "r": [[[inner, y]]]})
        elif k == "recself":
            y = {"k": "termpure", "n": 0, "u": [[labs[i], 0]], "s": [], "r": []}
            ops.append({"k": "rec", "n": 1, "u": u, "s": [], "r": [[[y]]]})
        elif k == "recdead":
            y = {"k": "termpure", "n": 0, "u": [], "s": [], "r": []}
            z = {"k": "term", "n": 0, "u": [], "s": [1], "r": []}
            ops.append({"k": "rec", "n": 1, "u": u, "s": [], "r": [[[y], [z]]]})
        else:
            ops.append({"k": k, "n": 1, "u": u, "s": [], "r": []})
    ops.append({"k": "term", "n": 0, "u": [], "s": [], "r": []})
    return [{"k": "unknown_region", "n": 0, "u": [], "s": [], "r": [[ops]]}]


def enum_small(n: int) -> Iterator[tuple[tuple[str, ...], tuple[int | None, ...]]]:
    for kinds in itertools.product(SMALL_KINDS if n <= 2 else SMALL_KINDS_3, repeat=n):
        for uses in itertools.product([None, *range(n)], repeat=n):
            yield kinds, uses


# --------------------------------------------------------------------------------------------
# fixed shapes: blocks that are only reachable through an unregistered branch-like operation
# --------------------------------------------------------------------------------------------

def _op(k: str, n: int = 0, u: list | None = None, s: list | None = None, r: list | None = None) -> dict:
    return {"k": k, "n": n, "u": u or [], "s": s or [], "r": r or []}


def unregistered_branch_specs() -> list[list[dict]]:
    """regions of a `test.op` whose control flow passes through `"unknown.br"()[^bb…]`"""
    out = []
    for eff in ("write", "unknown", "free", "rw", "pure", "read"):
        # ^0: unknown.br[^1]   ^1: <eff>; test.termop
        out.append([_op("unknown_region", r=[[[_op("unregterm", s=[1])],
                                              [_op(eff, n=1), _op("term")]]])])
        # the same below an operation with recursive effects whose result is used
        out.append([_op("unknown_region", r=[[[
            _op("rec", n=1, r=[[[_op("unregterm", s=[1])], [_op(eff, n=1), _op("termpure")]]]),
            _op("term", u=[[1, 0]])]]])])
    # the demo: ^0 -> ^2 -> ^3 through unregistered branches, ^1 really unreachable
    out.append([_op("unknown_region", r=[[
        [_op("unknown", n=1), _op("unregterm", u=[[1, 0]], s=[2])],
        [_op("unknown"), _op("term", s=[2])],
        [_op("pure", n=1), _op("unknown", u=[[5, 0]]), _op("unregterm", s=[3, 3])],
        [_op("unknown"), _op("term")]]])])
    # a chain and a loop of unregistered branches with a write at the end / in the loop
    out.append([_op("unknown_region", r=[[[_op("unregterm", s=[1])], [_op("unregterm", s=[2])],
                                          [_op("write"), _op("term")]]])])
    out.append([_op("unknown_region", r=[[[_op("unregterm", s=[1])],
                                          [_op("write"), _op("unregterm", s=[1, 2])],
                                          [_op("term")]]])])
    # mixed: a known terminator leads to a block that ends in an unregistered branch
    out.append([_op("unknown_region", r=[[[_op("term", s=[2])], [_op("write"), _op("term")],
                                          [_op("unregterm", s=[3])], [_op("free"), _op("termpure")]]])])
    return out
