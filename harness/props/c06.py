"""C06 — builtin attributes and types round-trip bit-exactly through text."""
from __future__ import annotations

import json
import math
import re
import struct
from typing import Any

from vp import core

from props import c06_values as V

META = {
    "title": "Builtin attributes and types round-trip bit-exactly through text",
    "category": "proof",
    "design_ref": "DESIGN.md §5 C06",
    "lean_modules": ["XdslProofs.C06"],
    "text": (
        "Lean theorems over the literal layer (XdslModel/Literals.lean, modelling the fixed code): "
        "unescape_escape (the lexer's regex + bytes_contents decode exactly what print_bytes_literal emits, for every "
        "byte string), lexclass_escape + string_literal_roundtrip (every Unicode string prints to a literal that "
        "lexes as STRING_LIT and parses to the same StringAttr), bytes_literal_roundtrip_partial + "
        "bytes_literal_counterexample (a BytesAttr round-trips exactly when its payload is not valid UTF-8), "
        "int_roundtrip (for every width, signedness, index and constructible value the printed `v : ty` / `true` / "
        "`false` re-lexes and re-parses to the same type and normalised value), pack_unpack / unpack_pack_bytes / "
        "hex_bits_roundtrip / dense_elem_roundtrip / dense_roundtrip (little-endian packing; empty/splat/hex-string/"
        "list bodies of dense integer attributes reproduce the payload bytes), float_tree_roundtrip (under `Lawful O`, "
        "the stated laws of CPython's %.5e/%.9g/%.17g/repr/float()/struct: every branch of print_float emits text that "
        "the lexer reads as one FLOAT_LIT or a hexadecimal INTEGER_LIT and that parses back to the bit-identical value, "
        "incl. NaN payloads, infinities and -0.0), floatdata_roundtrip (under `Lawful O` and `LawfulData O`: for EVERY "
        "binary64 the text of the helper attribute builtin.FloatData — hexadecimal bit pattern for NaN/±inf, else repr "
        "with `.0` spliced in front of a bare exponent — is one number token and parse_parameter returns the "
        "bit-identical value).  Tied to /repo by (a) a recursive generator over all builtin "
        "attribute/type constructors with boundary numerics: str(attr) -> Parser.parse_attribute/parse_type in a "
        "fresh Context -> bit-exact structural fingerprint compare (the direct oracle), (b) line-by-line "
        "correspondence of the Lean model with Printer/MLIRLexer/Parser/IntegerType/struct on generated strings, "
        "bytes, literal texts, integers, number texts, dense payloads and float / FloatData decision-tree observations, "
        "(c) sampling of every law of `Lawful` and `LawfulData` against CPython (>= 10^4 values per main float format in quick)."
    ),
    "technique": "Lean 4 proofs over a hand-written literal-layer model with CPython float formatting as a lawful oracle + generated bit-exact round-trip oracle on the real printer/parser + differential correspondence",
    "level_note": (
        "Modelled, not verified: CPython float formatting/parsing and struct (laws of `Lawful O`, sampled each run); "
        "the recursive composition of attributes (arrays, dictionaries, shaped/function/tuple types, locations, "
        "affine maps) is covered by the generated round-trip oracle only, not by a theorem (token skeleton is C04, "
        "affine expression algebra is C26). Excluded from the quantifier, with reasons: NoneAttr standing alone "
        "(denotes absence; prints as the type `none`); Python strings with lone surrogates (not encodable, cannot be "
        "printed); f80/f128 FloatAttr (no packing implemented: print_float raises NotImplementedError, i.e. not a "
        "supported precision); constructor misuse that bypasses tuple conversion (TupleType/FusedLoc given a list); "
        "DenseArrayBase of widths whose byte size is not 1/2/4/8 and raw BytesAttr payloads that are not the packing "
        "of in-range values (rejected or non-canonical by construction); memory spaces that are themselves layout "
        "attributes; location attributes nested inside FusedLoc metadata; UnregisteredAttr/DenseResourceAttr "
        "(need context state). Known: BytesAttr with a UTF-8-decodable payload shares its syntax with StringAttr; "
        "dense payloads of the reduced-precision float "
        "types (f8*/f6*/f4*/tf32) holding a non-canonical NaN encoding (sign/payload) are printed as the canonical NaN."
    ),
    "rule": (
        "A case is one attribute/type recipe (JSON) built through public constructors. Non-trivial = the printed text "
        "needed more than plain identifier/decimal printing: contains an escape, a hex literal, an exponent, a nested "
        "container, a dense body, `true/false`, a negative number or a non-default signedness. Distinct = distinct "
        "printed text. Correspondence cases (literal texts, integers, payloads, float observations) are counted in "
        "the histogram but only round-trip cases count as non-trivial."
    ),
    "trusted_base": [
        "correspondence harness harness/props/c06.py + c06_values.py (generator, fingerprint, adapters)",
        "hand-written Lean model XdslModel/Literals.lean of printer.py/mlir_lexer.py/builtin.py literal functions",
        "CPython float formatting, float(), struct (laws of Lawful O sampled, not proved)",
        "Lean core UTF-8 lemmas (List.utf8Decode?_utf8Encode)",
    ],
    "budget": {"quick": 80, "thorough": 1100},
}

LEX_SITE = "xdsl.utils.mlir_lexer.MLIRLexer._lex_string_literal"

# minimal failing inputs of the defects found on the pinned tree (kept so that they are re-found if they return)
CORPUS: list[list] = [
    # identifier-shaped names with non-ASCII letters/digits (must be quoted when printed)
    ["dict", [["636166c3a9", ["unit"]], ["78c2b2", ["unit"]], ["61e5908de5898d", ["unit"]]]],
    ["symref", ["726f6f74", "78c2b2"]],
    ["symref", ["636166c3a9"]],
    ["str", "c3a9"],
    ["dict", [["c3a9", ["unit"]]]],
    ["dense", "tensor", [2], ["f", "f32"], [V.d2h(float("nan")), V.d2h(1.0)]],
    ["dense", "tensor", [2], ["f", "f32"], [V.d2h(123456792.0), V.d2h(1.0)]],
    ["dense", "tensor", [2], ["f", "f64"], [V.d2h(float("inf")), V.d2h(1.0)]],
    ["dense", "tensor", [2], ["f", "f64"], [V.d2h(0.0), V.d2h(-0.0)]],
    ["dense", "tensor", [2], ["f", "f64"], [V.d2h(-0.0), V.d2h(0.0)]],
    ["dense", "tensor", [1], ["complex", ["f", "f32"]], [[V.d2h(float("nan")), V.d2h(1.0)]]],
    ["dense", "tensor", [2], ["complex", ["i", 1]], [[-1, 0], [0, 0]]],
    ["densearr", ["f", "f32"], [V.d2h(float("nan"))]],
    ["densearr", ["f", "f32"], [V.d2h(123456792.0)]],
    ["densearr", ["f", "f64"], [V.d2h(float("-inf"))]],
    ["loc", "fused", [["loc", "unknown"]], ["str", "6d"]],
    ["floatdata", V.d2h(1e20)],
    ["floatdata", V.d2h(1e-5)],
    ["bytes", ""],
    ["bytes", "616263"],
    ["bytes", "c3a9"],
    ["floatdata", V.d2h(float("inf"))],
    ["floatdata", V.d2h(float("nan"))],
    ["dense", "tensor", [], ["f", "f8E4M3FN"], [V.d2h(float("-inf"))]],
    ["densearr", ["f", "f8E4M3FN"], [V.d2h(float("-inf"))]],
]


# ---------------------------------------------------------------------------------------------
# the direct oracle: print -> parse in a fresh context -> bit-exact fingerprint
# ---------------------------------------------------------------------------------------------

PARSE_CPU_LIMIT_S = 5.0


class _CpuTimeout(BaseException):
    pass


class cpu_limit:
    """Bound the CPU time of one parse (process CPU time, so machine load does not matter): a printed
    text on which the parser does not finish is a failure of the round trip, not a hang of the check."""

    def __init__(self, seconds: float):
        self.seconds = seconds

    def __enter__(self):
        import signal

        def on_timer(signum, frame):  # noqa: ANN001
            raise _CpuTimeout()

        self.old = signal.signal(signal.SIGVTALRM, on_timer)
        signal.setitimer(signal.ITIMER_VIRTUAL, self.seconds)

    def __exit__(self, *exc):  # noqa: ANN002
        import signal

        signal.setitimer(signal.ITIMER_VIRTUAL, 0)
        signal.signal(signal.SIGVTALRM, self.old)
        return False


def roundtrip(r: list) -> dict[str, Any]:
    from xdsl.context import Context
    from xdsl.dialects.builtin import Builtin
    from xdsl.parser import Parser
    from xdsl.printer import Printer
    import io

    try:
        a = V.build(r)
    except Exception as e:  # noqa: BLE001  not constructible: outside the quantifier
        return {"status": "ctor", "exc": core.exc_name(e)}
    try:
        s = str(a)
        buf = io.StringIO()
        Printer(stream=buf).print_attribute(a)
        if buf.getvalue() != s:
            return {"status": "print-differs", "text": s, "text2": buf.getvalue()}
    except Exception as e:  # noqa: BLE001
        return {"status": "print-raise", "exc": core.exc_name(e)}
    ctx = Context()
    ctx.load_dialect(Builtin)
    try:
        with cpu_limit(PARSE_CPU_LIMIT_S):
            p = Parser(ctx, s)
            b = p.parse_type() if V.is_type_recipe(r) else p.parse_attribute()
            rest = p._current_token.kind.name  # noqa: SLF001
    except _CpuTimeout:
        return {"status": "parse-timeout", "text": s}
    except Exception as e:  # noqa: BLE001
        return {"status": "parse-raise", "exc": core.exc_name(e), "text": s}
    if rest != "EOF":
        return {"status": "trailing", "text": s, "rest": rest}
    fa, fb = V.fingerprint(a), V.fingerprint(b)
    if fa != fb:
        return {"status": "differs", "text": s, "reparsed": str(b), "fp": _fp_diff(fa, fb)}
    if a != b:
        return {"status": "eq-false", "text": s}
    return {"status": "ok", "text": s}


def _fp_diff(a: Any, b: Any, path: str = "") -> str:
    if isinstance(a, list) and isinstance(b, list) and len(a) == len(b):
        for i, (x, y) in enumerate(zip(a, b)):
            if x != y:
                return _fp_diff(x, y, f"{path}/{i}")
    return f"{path}: {json.dumps(a)[:160]} != {json.dumps(b)[:160]}"


def fails(r: list) -> bool:
    return roundtrip(r)["status"] not in ("ok", "ctor")


def children(r: list) -> list[list]:
    k = r[0]
    if k == "array":
        return list(r[1])
    if k == "dict":
        return [v for _, v in r[1]]
    if k == "opaque":
        return [r[3]] if r[3] else []
    if k == "loc":
        if r[1] == "callsite":
            return [r[2], r[3]]
        if r[1] == "fused":
            return list(r[2]) + ([r[3]] if r[3] else [])
        if r[1] == "name":
            return [r[3]] if r[3] else []
        return []
    if k in ("complexty", "utensorty"):
        return [r[1]]
    if k == "tuplety":
        return list(r[1])
    if k == "functy":
        return list(r[1]) + list(r[2])
    if k == "vectorty":
        return [r[1]]
    if k == "tensorty":
        return [r[1]] + ([r[3]] if r[3] else [])
    if k == "memrefty":
        return [r[1]] + [x for x in (r[3], r[4]) if x]
    if k == "umemrefty":
        return [r[1]] + ([r[2]] if r[2] else [])
    return []


def shrink(r: list) -> list:
    """Smallest failing recipe reachable by descending into children and trimming lists."""
    for _ in range(12):
        for c in children(r):
            if fails(c):
                r = c
                break
        else:
            break
    k = r[0]
    try:
        if k == "array" and len(r[1]) > 1:
            r = ["array", core.shrink_list(list(r[1]), lambda xs: fails(["array", xs]))]
        elif k == "dict" and len(r[1]) > 1:
            r = ["dict", core.shrink_list(list(r[1]), lambda xs: fails(["dict", xs]))]
        elif k in ("str", "bytes") and len(r[1]) > 2:
            if k == "str":
                chars = list(bytes.fromhex(r[1]).decode())
                small = core.shrink_list(chars, lambda cs: fails(["str", V.hx("".join(cs))]))
                if fails(["str", V.hx("".join(small))]):
                    r = ["str", V.hx("".join(small))]
            else:
                bs = list(bytes.fromhex(r[1]))
                small = core.shrink_list(bs, lambda x: fails(["bytes", bytes(x).hex()]))
                if fails(["bytes", bytes(small).hex()]):
                    r = ["bytes", bytes(small).hex()]
        elif k == "densearr" and len(r[2]) > 1:
            small = core.shrink_list(list(r[2]), lambda xs: fails(["densearr", r[1], xs]))
            if fails(["densearr", r[1], small]):
                r = ["densearr", r[1], small]
        elif k == "dense" and len(r[4]) > 1:
            small = core.shrink_list(list(r[4]), lambda xs: fails(["dense", "tensor", [len(xs)], r[3], xs]), max_steps=300)
            cand = ["dense", "tensor", [len(small)], r[3], small]
            if fails(cand):
                r = cand
    except Exception:  # noqa: BLE001  shrinking is best effort
        pass
    if r[0] == "dict" and len(r[1]) == 1 and not fails(r[1][0][1]):
        cand = ["dict", [[r[1][0][0], ["unit"]]]]
        if fails(cand):
            r = cand
    return r


def _float_classes(hexes: list[str]) -> set[str]:
    out = set()
    for h in hexes:
        x = V.h2d(h)
        if math.isnan(x):
            out.add("nan")
        elif math.isinf(x):
            out.add("inf")
        elif x == 0:
            out.add("-0" if math.copysign(1, x) < 0 else "+0")
        else:
            out.add("finite")
    return out


def _flat_floats(espec: list, vals: list) -> list[str]:
    if espec[0] == "f":
        return list(vals)
    if espec[0] == "complex" and espec[1][0] == "f":
        return [x for pair in vals for x in pair]
    return []


def classify(r: list, res: dict[str, Any]) -> tuple[str, str]:
    """(call_site, signature) of a minimal failing recipe: attribute kind + value class + outcome."""
    k, st, text = r[0], res["status"], res.get("text", "") or ""
    outcome = {"differs": "re-read as a different value", "parse-raise": "printed text does not parse",
               "trailing": "printed text is not consumed entirely", "print-raise": "cannot be printed",
               "eq-false": "re-read value compares unequal", "print-differs": "str() and Printer disagree",
               "parse-timeout": f"parser does not finish within {PARSE_CPU_LIMIT_S:.0f} s CPU on the printed text"}.get(st, st)
    AP = "xdsl.parser.attribute_parser.AttrParser."
    if k == "str":
        cls = "ASCII" if all(b < 0x80 for b in bytes.fromhex(r[1])) else "non-ASCII"
        return LEX_SITE, f"StringAttr with {cls} text: {outcome}"
    if k == "bytes":
        try:
            bytes.fromhex(r[1]).decode()
            cls = "payload that is valid UTF-8"
        except UnicodeDecodeError:
            cls = "payload that is not valid UTF-8"
        return LEX_SITE, f"BytesAttr with {cls}: {outcome}"
    if k == "dict" and len(r[1]) == 1:
        key = bytes.fromhex(r[1][0][0])
        cls = "ASCII" if all(b < 0x80 for b in key) else "non-ASCII"
        return LEX_SITE, f"DictionaryAttr key with {cls} text: {outcome}"
    if k == "symref":
        return LEX_SITE, f"SymbolRefAttr: {outcome}"
    if k in ("dense", "densearr"):
        espec = r[3] if k == "dense" else r[1]
        vals = r[4] if k == "dense" else r[2]
        fl = _flat_floats(espec, vals)
        name = "DenseIntOrFPElementsAttr" if k == "dense" else "DenseArrayBase"
        if fl:
            fname = espec[1] if espec[0] == "f" else espec[1][1]
            if fname not in V.FLOAT_TYPES_MAIN and _float_classes(fl) & {"nan", "inf"} and st == "differs":
                return ("xdsl.dialects.builtin.ReducedPrecisionFloatType.decode_bits",
                        f"{name} of reduced-precision float elements holding a NaN encoding other than the canonical one: {outcome}")
            if "0x" in text.split(">")[0] and not text.startswith('dense<"'):
                site = AP + ("_TensorLiteralElement.to_float" if k == "dense" else "_parse_builtin_densearray_attr")
                return site, f"{name} float element printed as hexadecimal bit pattern: {outcome}"
            cl = _float_classes(fl)
            if {"+0", "-0"} <= cl and k == "dense":
                return "xdsl.dialects.builtin.DenseIntOrFPElementsAttr.is_splat", f"{name} mixing +0.0 and -0.0: {outcome}"
            return AP + "parse_attribute", f"{name} of {espec[0]} elements ({'/'.join(sorted(cl))}): {outcome}"
        if espec[0] == "complex":
            return "xdsl.dialects.builtin.DenseIntOrFPElementsAttr.from_list", f"{name} of complex integer elements: {outcome}"
        w = "index" if espec[0] == "index" else f"{espec[0]}{'1' if espec[1] == 1 else 'N'}"
        return AP + "parse_attribute", f"{name} of {w} elements: {outcome}"
    if k in ("loc", "opaque") and st == "parse-raise":
        strs = [x for x in (r[2:3] if k == "loc" else r[1:3]) if isinstance(x, str) and r[1] in ("flc", "name", r[1] if k == "opaque" else "")]
        if any(any(b >= 0x80 for b in bytes.fromhex(x)) for x in strs):
            return LEX_SITE, f"{'location' if k == 'loc' else 'OpaqueAttr'} with non-ASCII string: {outcome}"
    if k == "loc":
        if r[1] == "fused" and r[3] is not None:
            return AP + "_parse_location", f"FusedLoc with metadata: {outcome}"
        return AP + "_parse_location", f"location {r[1]}: {outcome}"
    if k == "floatdata":
        x = V.h2d(r[1])
        cls = "non-finite value" if not math.isfinite(x) else ("exponent form without '.'" if "." not in repr(x) else "finite value")
        return "xdsl.dialects.builtin.FloatData.print_parameter", f"FloatData with {cls}: {outcome}"
    if k == "float":
        return "xdsl.printer.Printer.print_float", f"FloatAttr {r[1]} ({'/'.join(sorted(_float_classes([r[2]])))}): {outcome}"
    if k == "int":
        return AP + "parse_optional_builtin_int_or_float_attr", f"IntegerAttr {r[1]}{'' if r[1] == 'index' else ('1' if r[2] == 1 else 'N')}: {outcome}"
    return AP + ("parse_type" if V.is_type_recipe(r) else "parse_attribute"), f"{k}: {outcome}"


NONTRIVIAL = re.compile(r'\\|0x|e[+-]\d|true|false|-\d|\bs?ui?\d|[\[{(<]')


def run_roundtrip(ctx: core.Ctx, recipes: list[list], tag: str) -> None:
    nfail = 0
    for r in recipes:
        res = roundtrip(r)
        st = res["status"]
        ctx.count(f"roundtrip.{tag}.{r[0]}")
        if st == "ctor":
            ctx.count("roundtrip.not_constructible")
            continue
        ctx.ev()
        text = res.get("text")
        if text is not None and NONTRIVIAL.search(text):
            ctx.nt(text if len(text) < 200 else text[:80] + str(hash(text)))
        if st == "ok":
            continue
        nfail += 1
        if nfail > 60 and ctx.tier == "quick":  # plenty of witnesses; keep the run short
            continue
        small = shrink(r)
        sres = roundtrip(small)
        if sres["status"] in ("ok", "ctor"):
            small, sres = r, res
        site, sig = classify(small, sres)
        ctx.fail(site, sig, {"recipe": small}, f"{sres['status']}: printed {sres.get('text')!r}; {sres.get('reparsed') or sres.get('exc') or sres.get('rest') or ''}",
                 {k: v for k, v in sres.items() if k != "fp"}, sres.get("fp"))


# ---------------------------------------------------------------------------------------------
# enumerated boundary cases
# ---------------------------------------------------------------------------------------------

def boundary_recipes(tier: str) -> list[list]:
    out: list[list] = []
    widths = list(range(1, 65)) + [0, 65, 96, 128]
    for w in widths:
        for sgn in ("i", "si", "ui"):
            lo = -(1 << (w - 1)) if sgn in ("i", "si") and w else 0
            hi = ((1 << w) - 1 if sgn in ("i", "ui") else (1 << (w - 1)) - 1) if w else 0
            for v in sorted({lo, hi, 0, 1, -1, lo + 1, hi - 1, (1 << max(w - 1, 0)) - 1, 1 << max(w - 1, 0)}):
                if lo <= v <= hi:
                    out.append(["int", sgn, w, v])
    for v in (0, 1, -1, 2**63 - 1, -2**63, 2**63, 2**64, -2**64 - 1, 10**30):
        out.append(["int", "index", 0, v])
    for t, bits, conv in (("f64", V.BOUNDARY_F64, lambda u: V.h2d(f"{u:016x}")), ("f32", V.BOUNDARY_F32, V.f32_from_bits),
                          ("f16", V.BOUNDARY_16, V.f16_from_bits), ("bf16", V.BOUNDARY_16, V.bf16_from_bits)):
        for u in bits:
            x = conv(u)
            out.append(["float", t, V.d2h(x)])
            out.append(["densearr", ["f", t], [V.d2h(x)]])
            out.append(["dense", "tensor", [2], ["f", t], [V.d2h(x), V.d2h(1.0)]])
            out.append(["dense", "tensor", [2], ["f", t], [V.d2h(x)]])
    for u in V.BOUNDARY_F64:  # FloatData holds a bare binary64: every NaN payload/sign, infinities, zeros
        out.append(["floatdata", f"{u:016x}"])
    for x in (1e16, 1e22, -1e-7, 5e-324, 1.5e300, 123456789.0, 0.1):
        out.append(["floatdata", V.d2h(x)])
    for t in V.FLOAT_TYPES_SMALL + ["f8E8M0FNU"]:
        for x in (0.0, -0.0, 1.0, 0.5, 1.5, 2.0, math.inf, -math.inf, math.nan, 1 / 3, 1e-5, 448.0):
            out.append(["float", t, V.d2h(x)])
    for w in (1, 2, 7, 8, 9, 16, 31, 32, 33, 63, 64):
        for sgn in ("i", "si", "ui"):
            lo = -(1 << (w - 1)) if sgn in ("i", "si") else 0
            hi = (1 << w) - 1 if sgn in ("i", "ui") else (1 << (w - 1)) - 1
            vals = sorted({lo, hi, 0, min(1, hi), max(-1, lo)})
            out.append(["dense", "tensor", [len(vals)], [sgn, w], vals])
            out.append(["dense", "tensor", [3], [sgn, w], [hi]])
            if (w + 7) // 8 in (1, 2, 4, 8):
                out.append(["densearr", [sgn, w], vals])
    out.append(["dense", "tensor", [3], ["index"], [0, -2**63, 2**63 - 1]])
    return out


# ---------------------------------------------------------------------------------------------
# correspondence with the Lean model
# ---------------------------------------------------------------------------------------------

def hb(b: bytes) -> str:
    return b.hex() if b else "-"


def ht(s: str) -> str:
    return hb(s.encode("utf-8"))


def impl_lexstr(text: str, old_rule: bool = False) -> str:
    from xdsl.utils.exceptions import ParseError
    from xdsl.utils.lexer import Input
    from xdsl.utils.mlir_lexer import MLIRLexer, MLIRTokenKind, StringLiteral

    try:
        tok = MLIRLexer(Input(text, "<c06>")).lex()
    except ParseError:
        return "error"
    if tok.kind not in (MLIRTokenKind.STRING_LIT, MLIRTokenKind.BYTES_LIT):
        return "error"
    if tok.span.start != 0:
        return "error"
    bs = StringLiteral.from_span(tok.span).bytes_contents
    return f"{tok.kind.name} {hb(bs)} {len(text) - tok.span.end}"


def impl_lexnum(text: str) -> str:
    from xdsl.utils.exceptions import ParseError
    from xdsl.utils.lexer import Input
    from xdsl.utils.mlir_lexer import MLIRLexer, MLIRTokenKind

    if not text or not ("0" <= text[0] <= "9"):
        return "error"
    try:
        tok = MLIRLexer(Input(text, "<c06>")).lex()
    except (ParseError, ValueError):
        return "error"
    rest = len(text) - tok.span.end
    if tok.kind == MLIRTokenKind.INTEGER_LIT:
        v = tok.kind.get_int_value(tok.span)
        return f"int {v} {'true' if tok.span.text[:2] in ('0x', '0X') else 'false'} {rest}"
    if tok.kind == MLIRTokenKind.FLOAT_LIT:
        return f"float {ht(tok.span.text)} {rest}"
    return "error"


def show_ty(t: Any) -> str:
    from xdsl.dialects.builtin import IndexType, IntegerType

    if isinstance(t, IndexType):
        return "index 0"
    assert isinstance(t, IntegerType)
    return {"SIGNLESS": "i", "SIGNED": "si", "UNSIGNED": "ui"}[t.signedness.data.name] + f" {t.width.data}"


def impl_parse_int_attr(text: str) -> str:
    from xdsl.context import Context
    from xdsl.dialects.builtin import Builtin, IntegerAttr
    from xdsl.parser import Parser

    ctx = Context()
    ctx.load_dialect(Builtin)
    try:
        p = Parser(ctx, text)
        b = p.parse_optional_builtin_int_or_float_attr()
        if not isinstance(b, IntegerAttr) or p._current_token.kind.name != "EOF":  # noqa: SLF001
            return "error"
    except Exception:  # noqa: BLE001
        return "error"
    return f"{show_ty(b.type)} {b.value.data}"


def impl_intattr(sgn: str, w: int, v: int) -> str:
    from xdsl.dialects.builtin import IndexType, IntegerAttr
    from xdsl.utils.exceptions import VerifyException

    ty = IndexType() if sgn == "index" else V.int_type(w, sgn)
    try:
        a = IntegerAttr(v, ty)
    except VerifyException:
        return "raise VerifyException"
    text = str(a)
    return f"{a.value.data} | {text} | {impl_parse_int_attr(text)}"


def impl_denseint(sgn: str, w: int, count: int, payload: bytes) -> str:
    from xdsl.context import Context
    from xdsl.dialects.builtin import Builtin, BytesAttr, DenseIntOrFPElementsAttr, IndexType, TensorType
    from xdsl.parser import Parser
    from xdsl.printer import Printer
    import io

    ty = IndexType() if sgn == "index" else V.int_type(w, sgn)
    a = DenseIntOrFPElementsAttr(TensorType(ty, [count]), BytesAttr(payload))
    buf = io.StringIO()
    a.print_without_type(Printer(stream=buf))
    t = buf.getvalue()
    assert t.startswith("dense<") and t.endswith(">")
    body = t[6:-1]
    if body == "":
        shown = "empty"
    elif body.startswith('"0x'):
        shown = "hex " + body[3:-1]
    elif body.startswith("["):
        shown = "flat " + " ".join(body[1:-1].split(", "))
    else:
        shown = "splat " + body
    ctx = Context()
    ctx.load_dialect(Builtin)
    try:
        b = Parser(ctx, str(a)).parse_attribute()
        back = hb(b.data.data) if isinstance(b, DenseIntOrFPElementsAttr) else "error"
    except Exception:  # noqa: BLE001
        back = "error"
    return f"{shown} | {back}"


def rand_literal_text(rng) -> str:
    """text that starts with a quote and is mostly, but not always, a well-formed literal"""
    pieces = ['"', "\\", "\\\\", '\\"', "\\n", "\\t", "\\0A", "\\ff", "\\C3\\A9", "\\E2\\82", "\\7F", "\\G0", "\\0", "a", "z", " ",
              "é", "😀", "\n", "\x0b", "\x0c", "\t", "\r", "0", "F", "x", "\\x41", "\\F0\\9F\\98\\80", "\\ED\\A0\\80", "\\C0\\80"]
    n = rng.randint(0, 8)
    body = "".join(rng.choice(pieces) for _ in range(n))
    r = rng.random()
    if r < 0.7:
        return '"' + body + '"' + rng.choice(["", "", " : x", '"'])
    return '"' + body


def rand_number_text(rng) -> str:
    r = rng.random()
    d = lambda n: "".join(rng.choice("0123456789") for _ in range(n))  # noqa: E731
    if r < 0.2:
        return d(rng.randint(1, 20)) + rng.choice(["", " ", ":", "x", ">"])
    if r < 0.4:
        return "0x" + "".join(rng.choice("0123456789abcdefABCDEFg") for _ in range(rng.randint(0, 17))) + rng.choice(["", " : f32"])
    if r < 0.8:
        return d(rng.randint(1, 5)) + "." + d(rng.randint(0, 7)) + rng.choice(["", "e", "e+", "e-5", "E12", "e+308", "e5x", "e-", ".", " "]) + rng.choice(["", ","])
    return d(rng.randint(1, 3)) + rng.choice(["e5", "e-05", "e+16", "E1", "x1", "0x1", "_1", ".e5", "..."])


def float_obs_line(tyname: str, x: float) -> tuple[str, str]:
    """model input line + what the real printer prints"""
    from xdsl.printer import Printer
    import io

    t = V.float_type(tyname)
    mty = tyname if tyname in ("f16", "bf16", "f32", "f64") else "other"
    packed = t.pack((x,))
    naninf = math.isnan(x) or math.isinf(x)
    if naninf:
        s5 = s9 = s17 = srepr = "nan"
        eq5 = False
    else:
        s5 = f"{x:.5e}"
        i = s5.find("e")
        fs = s5[:i] + "0" + s5[i:]
        eq5 = t.unpack(t.pack([float(fs)]), 1)[0] == x
        s9, s17, srepr = f"{x:.9g}", f"{x:.17g}", repr(x)
    buf = io.StringIO()
    Printer(stream=buf).print_float(x, t)
    line = f"float {mty} {int(naninf)} {hb(packed)} {ht(s5)} {int(eq5)} {ht(s9)} {ht(s17)} {ht(srepr)}"
    return line, buf.getvalue()


def floatdata_obs_line(x: float) -> tuple[str, str]:
    """model input line + what FloatData.print_parameter prints between the angle brackets"""
    from xdsl.dialects.builtin import FloatData

    text = str(FloatData(x))
    pre, suf = "#builtin.float_data<", ">"
    assert text.startswith(pre) and text.endswith(suf), text
    line = f"floatdata {int(not math.isfinite(x))} {hb(struct.pack('<d', x))} {ht(f'{x}')}"
    return line, text[len(pre):-len(suf)]


def run_correspondence(ctx: core.Ctx, n: int) -> None:
    from xdsl.printer import Printer
    import io

    rng = ctx.rng
    lines: list[str] = []
    impl: list[str] = []
    cases: list[Any] = []

    def add(line: str, obs: str, case: Any) -> None:
        lines.append(line)
        impl.append(obs)
        cases.append(case)

    def printed(f, arg) -> str:  # noqa: ANN001
        buf = io.StringIO()
        getattr(Printer(stream=buf), f)(arg)
        return buf.getvalue()

    # -- strings and bytes
    for _ in range(n):
        s = V.rand_text(rng, 10)
        lit = printed("print_string_literal", s)
        add(f"strlit {ht(s)}", lit, {"string": ht(s)})
        add(f"lexstr {ht(lit)}", impl_lexstr(lit), {"literal": lit})
        b = V.rand_bytes(rng, 10)
        lit = printed("print_bytes_literal", b)
        add(f"esc {hb(b)}", lit, {"bytes": hb(b)})
        add(f"lexstr {ht(lit)}", impl_lexstr(lit), {"literal": lit})
        try:
            b.decode()
            ok = "true"
        except UnicodeDecodeError:
            ok = "false"
        add(f"utf8 {hb(b)}", ok, {"bytes": hb(b)})
        t = rand_literal_text(rng)
        add(f"lexstr {ht(t)}", impl_lexstr(t), {"literal": t})
    ctx.count("corr.string_bytes_lines", 6 * n)
    # -- integers
    for _ in range(n):
        sgn = rng.choice(["i", "si", "ui"])
        w = V.rand_width(rng) if rng.random() < 0.9 else 0
        v = V.int_value(rng, sgn, w) if rng.random() < 0.6 else rng.choice([1, -1]) * rng.getrandbits(rng.choice([3, 9, 17, 33, 65, 70]))
        ty = V.int_type(w, sgn)
        lo, hi = ty.value_range()
        add(f"range {sgn} {w}", f"{lo} {hi}", {"ty": [sgn, w]})
        for tr in (0, 1):
            nv = ty.normalized_value(v, truncate_bits=bool(tr))
            add(f"norm {sgn} {w} {v} {tr}", "none" if nv is None else str(nv), {"ty": [sgn, w], "v": v, "truncate": tr})
        add(f"intattr {sgn} {w} {v}", impl_intattr(sgn, w, v), {"ty": [sgn, w], "v": v})
        if rng.random() < 0.15:
            vi = V.int_value(rng, "index", 0)
            add(f"intattr index 0 {vi}", impl_intattr("index", 0, vi), {"ty": ["index"], "v": vi})
        t = rand_number_text(rng)
        add(f"lexnum {ht(t)}", impl_lexnum(t), {"number_text": t})
        t2 = rng.choice(["", "-", "- "]) + rng.choice([str(rng.getrandbits(rng.choice([1, 8, 40, 70]))), "0x" + f"{rng.getrandbits(20):x}", "true", "false", "1.5"]) \
            + rng.choice(["", " : i8", " : i1", " : ui64", " : si3", " : index", " : i70", ": i32", " : f32", " : i", " : ix", " :  i16", " : i32 x"])
        add(f"parseint {ht(t2)}", impl_parse_int_attr(t2), {"int_attr_text": t2})
        # struct packing
        nb = rng.choice([1, 2, 4, 8])
        sg = rng.choice(["s", "u"])
        pv = rng.choice([0, 1, -1, 2 ** (8 * nb - 1) - 1, -(2 ** (8 * nb - 1)), 2 ** (8 * nb) - 1, 2 ** (8 * nb), rng.getrandbits(8 * nb) - (2 ** (8 * nb - 1) if sg == "s" else 0)])
        fmt = "<" + {("s", 1): "b", ("s", 2): "h", ("s", 4): "i", ("s", 8): "q", ("u", 1): "B", ("u", 2): "H", ("u", 4): "I", ("u", 8): "Q"}[(sg, nb)]
        try:
            pk = struct.pack(fmt, pv)
            add(f"pack {sg} {nb} {pv}", hb(pk), {"pack": [sg, nb, pv]})
        except struct.error:
            add(f"pack {sg} {nb} {pv}", "raise error", {"pack": [sg, nb, pv]})
        raw = bytes(rng.getrandbits(8) for _ in range(nb))
        add(f"unpack {sg} {hb(raw)}", str(struct.unpack(fmt, raw)[0]), {"unpack": [sg, hb(raw)]})
    ctx.count("corr.integer_lines", 8 * n)
    # -- dense integer payloads (1-D; from canonical values)
    for _ in range(max(n // 3, 20)):
        sgn = rng.choice(["i", "i", "si", "ui", "index"])
        w = rng.choice([1, 1, 8, 16, 32, 64, rng.randint(1, 64)])
        count = rng.choice([0, 1, 2, 3, 5, 101, 120]) if rng.random() < 0.8 else rng.randint(0, 130)
        ty = V.elem_type(["index"] if sgn == "index" else [sgn, w])
        base = [V.int_value(rng, "si" if sgn == "index" else sgn, 64 if sgn == "index" else w) for _ in range(rng.choice([1, 2, 3]))]
        vals = [rng.choice(base) for _ in range(count)]
        if sgn != "index":
            vals = [ty.get_normalized_value(v) for v in vals]
        try:
            payload = ty.pack(vals)
        except struct.error as e:  # normalised in-range values must be packable
            ctx.mismatch("correspondence:C06/literals", {"dense_int_values": [sgn, w, vals[:8]]},
                         f"struct.error packing normalised values: {e}", "the model packs every normalised in-range value")
            continue
        add(f"denseint {sgn} {0 if sgn == 'index' else w} {count} {hb(payload)}", impl_denseint(sgn, w, count, payload), {"dense_int": [sgn, w, count, hb(payload)]})
    # -- float decision tree
    for _ in range(n):
        tyname = rng.choice(V.FLOAT_TYPES_MAIN * 3 + V.FLOAT_TYPES_SMALL)
        t = V.float_type(tyname)
        try:
            x = t.unpack(t.pack((V.float_value(rng, tyname),)), 1)[0]
        except (OverflowError, ValueError):
            continue
        line, text = float_obs_line(tyname, x)
        add(line, text, {"float": [tyname, V.d2h(x)]})
        num = text[1:] if text.startswith("-") else text
        add(f"lexnum {ht(num)}", impl_lexnum(num), {"number_text": num})
        if text.startswith("0x"):
            size = t.compile_time_size
            add(f"tobytes {size} {int(text, 16)}", hb(int(text, 16).to_bytes(size, 'little')), {"tobytes": text})
    ctx.count("corr.float_lines", len(lines))
    # -- FloatData (bare Python float): print_parameter decision + what the lexer makes of the text
    n0 = len(lines)
    fd_values = [V.h2d(f"{u:016x}") for u in V.BOUNDARY_F64] + [V.float_value(rng, "f64") for _ in range(n // 2)]
    for x in fd_values:
        line, text = floatdata_obs_line(x)
        add(line, text, {"floatdata": V.d2h(x)})
        num = text[1:] if text.startswith("-") else text
        add(f"lexnum {ht(num)}", impl_lexnum(num), {"number_text": num})
        if text.startswith("0x"):
            add(f"tobytes 8 {int(text, 16)}", hb(int(text, 16).to_bytes(8, 'little')), {"tobytes": text})
    ctx.count("corr.floatdata_lines", len(lines) - n0)
    model = ctx.model("literals", lines)
    ctx.ev(len(lines))
    for i, (a, b) in enumerate(zip(impl, model)):
        if a != b:
            ctx.mismatch("correspondence:C06/literals", {"line": lines[i], **({"case": cases[i]} if cases[i] else {})}, a, b)
            break
    ctx.sample({"correspondence_line": lines[len(lines) // 2], "impl": impl[len(lines) // 2]})


# ---------------------------------------------------------------------------------------------
# laws of the float oracle (hypotheses `Lawful O` of float_tree_roundtrip), sampled against CPython
# ---------------------------------------------------------------------------------------------
SCI5 = re.compile(r"-?\d\.\d{5}e[+-]\d{2,3}\Z")
PYFLOAT = re.compile(r"-?\d+(\.\d+)?(e[+-]\d+)?\Z")
FLOATLIT = re.compile(r"\d+\.\d*([eE][+-]?\d+)?\Z")


def check_float_laws(ctx: core.Ctx, n_per_type: int) -> None:
    rng = ctx.rng
    broken: dict[str, Any] = {}

    def law(name: str, ok: bool, tyname: str, x: float, extra: str = "") -> None:
        if not ok and name not in broken:
            broken[name] = {"law": name, "type": tyname, "x": V.d2h(x), "extra": extra}

    for tyname in V.FLOAT_TYPES_MAIN + V.FLOAT_TYPES_SMALL:
        t = V.float_type(tyname)
        size = t.compile_time_size
        m = n_per_type if tyname in V.FLOAT_TYPES_MAIN else max(n_per_type // 20, 200)
        for _ in range(m):
            try:
                x = t.unpack(t.pack((V.float_value(rng, tyname),)), 1)[0]
            except (OverflowError, ValueError):
                continue
            ctx.count(f"laws.{tyname}")
            pk = t.pack((x,))
            law("pack_length", len(pk) == size, tyname, x)
            y = t.unpack(pk, 1)[0]
            law("round_idem (unpack∘pack fixes canonical values bit for bit, incl. NaN payloads)", V.d2h(y) == V.d2h(x), tyname, x)
            law("unpack_pack_bytes (pack∘unpack∘pack = pack)", t.pack((y,)) == pk, tyname, x)
            law("iter_unpack = unpack", V.d2h(next(iter(t.iter_unpack(pk)))) == V.d2h(y), tyname, x)
            if math.isnan(x) or math.isinf(x):
                continue
            s5 = f"{x:.5e}"
            law("fmt5e_shape", SCI5.match(s5) is not None, tyname, x, s5)
            i = s5.find("e")
            fs = s5[:i] + "0" + s5[i:]
            law("ins0_fmt5e is one FLOAT_LIT", FLOATLIT.match(fs.lstrip("-")) is not None, tyname, x, fs)
            p = t.unpack(t.pack([float(fs)]), 1)[0]
            if p == x:
                law("fmt5e_exact (== implies bit-identical)", V.d2h(p) == V.d2h(x), tyname, x, fs)
            neg = fs.startswith("-")
            law("parse_neg (float('-'+t) = -float(t))", V.d2h(float(fs)) == V.d2h(-float(fs[1:]) if neg else float(fs)), tyname, x, fs)
            for name, txt in (("fmt9g", f"{x:.9g}"), ("fmt17g", f"{x:.17g}"), ("repr", repr(x))):
                law(f"{name}_shape", PYFLOAT.match(txt) is not None, tyname, x, txt)
                if "." in txt:
                    law(f"{name} with '.' is one FLOAT_LIT", FLOATLIT.match(txt.lstrip("-")) is not None, tyname, x, txt)
                body = txt[1:] if txt.startswith("-") else txt
                law(f"{name}_parse_neg", V.d2h(float(txt)) == V.d2h(-float(body) if txt.startswith("-") else float(body)), tyname, x, txt)
            if tyname == "f32":
                law("fmt9g_roundtrip", V.d2h(t.unpack(t.pack([float(f'{x:.9g}')]), 1)[0]) == V.d2h(x), tyname, x)
            if tyname == "f64":
                law("fmt17g_roundtrip", V.d2h(float(f"{x:.17g}")) == V.d2h(x), tyname, x)
            law("repr_roundtrip", V.d2h(t.unpack(t.pack([float(repr(x))]), 1)[0]) == V.d2h(x), tyname, x)
            if p != x:
                law("repr_shape (repr has a '.' whenever the 6-digit form is not exact)", "." in repr(x), tyname, x, repr(x))
            if tyname in ("f32", "f64") and p != x:
                txt = f"{x:.9g}" if tyname == "f32" else f"{x:.17g}"
                if "." not in txt:
                    bits = int.from_bytes(pk, "little")
                    law("hex_fits (bit pattern < 2^(8*size))", bits.to_bytes(size, "little") == pk, tyname, x)
    # laws of `LawfulData` (floatdata_roundtrip): bare binary64 values, every bit pattern class
    for i in range(n_per_type + len(V.BOUNDARY_F64)):
        x = V.h2d(f"{V.BOUNDARY_F64[i]:016x}") if i < len(V.BOUNDARY_F64) else (
            V.h2d(f"{rng.getrandbits(64):016x}") if i % 2 else V.float_value(rng, "f64"))
        ctx.count("laws.floatdata")
        pk = struct.pack("<d", x)
        law("data.size_f64 (a binary64 packs to 8 bytes)", len(pk) == 8 and V.float_type("f64").compile_time_size == 8, "f64", x)
        law("data.bits_roundtrip (struct unpack∘pack is bit-identical, NaN payloads included)",
            struct.pack("<d", struct.unpack("<d", pk)[0]) == pk and V.float_type("f64").pack((x,)) == pk, "f64", x)
        if not math.isfinite(x):
            continue
        txt = f"{x}"
        if "." not in txt:
            mant, _, exp = txt.partition("e")
            txt = f"{mant}.0e{exp}"
        law("data.fd_shape (repr, with .0 spliced in, is one FLOAT_LIT)", FLOATLIT.match(txt.lstrip("-")) is not None, "f64", x, txt)
        law("data.fd_exact (float() reads it back bit-identically)", struct.pack("<d", float(txt)) == pk, "f64", x, txt)
        body = txt[1:] if txt.startswith("-") else txt
        law("data.parse_neg", struct.pack("<d", float(txt)) == struct.pack("<d", -float(body) if txt.startswith("-") else float(body)), "f64", x, txt)
    for name, b in broken.items():
        ctx.mismatch(f"correspondence:C06/float-oracle-law:{name}", b, "CPython violates the law", "law assumed by XdslProofs.C06.Lawful / LawfulData")
    ctx.extra["float_oracle_laws_sampled_per_main_type"] = n_per_type


# ---------------------------------------------------------------------------------------------
# entry points
# ---------------------------------------------------------------------------------------------

def run(ctx: core.Ctx) -> None:
    ctx.lean()
    quick = ctx.tier == "quick"
    run_roundtrip(ctx, CORPUS, "corpus")
    run_roundtrip(ctx, boundary_recipes(ctx.tier), "boundary")
    gen = V.Gen(ctx.rng, V.FLOAT_TYPES_MAIN)
    gen_all = V.Gen(ctx.rng, V.FLOAT_TYPES_MAIN + V.FLOAT_TYPES_SMALL)
    n = 10000 if quick else 60000
    recipes = [gen.attr(2) for _ in range(n)] + [gen_all.attr(3) for _ in range(n // 4)] + [gen.type(3) for _ in range(n // 6)]
    run_roundtrip(ctx, recipes, "random")
    run_correspondence(ctx, 2000 if quick else 20000)
    check_float_laws(ctx, 10000 if quick else 100000)
    if not quick:
        extra = 0
        while ctx.time_left() > 200 and extra < 40:
            run_roundtrip(ctx, [gen_all.attr(3) for _ in range(10000)], "random")
            extra += 1
    ctx.exhaustive = False
    ctx.sample({"recipe": recipes[0], "printed": roundtrip(recipes[0]).get("text")})
    ctx.sample({"recipe": CORPUS[3], "printed": roundtrip(CORPUS[3]).get("text")})


def replay(ctx: core.Ctx, body: dict) -> int:
    case = body["case"]
    if "recipe" in case:
        res = roundtrip(case["recipe"])
        print("recipe        :", json.dumps(case["recipe"]))
        print("implementation:", json.dumps({k: v for k, v in res.items()}, default=str)[:2000])
        bad = res["status"] not in ("ok", "ctor")
        if bad:
            print("classified as :", classify(case["recipe"], res))
        print("property", "FAILS" if bad else "holds", "on this case")
        return 1 if bad else 0
    if "line" in case:
        model = ctx.model("literals", [case["line"]])
        print("line          :", case["line"])
        print("implementation:", body.get("impl_observation"))
        print("lean model    :", model[0])
        return 1 if model[0] != body.get("impl_observation") else 0
    print("law case:", json.dumps(case))
    return 1
