"""C14, legs (B) and (C): the fold kernels and the individual rewrite patterns.

(B) the translated kernels (`Generated/ArithPyOps.lean`, `Generated/BuiltinInt.lean`) are compared with
    the real static methods / `IntegerType.normalized_value`, and the real `fold()` / patterns are checked
    against an independent bit-pattern reference (direct oracle of "folded constants equal the bit-exact
    result").
(C) each real pattern is applied to a one-operation snippet and compared with the Lean rule model
    (`arith_rules`), float folds with the model on native IEEE floats and with an exact-rational IEEE
    reference, CSE on straight-line blocks with the Lean `cse` model.
"""
from __future__ import annotations

import math
import struct
import subprocess
from fractions import Fraction
from typing import Any, Callable

from vp import core

PREDS = ["eq", "ne", "slt", "sle", "sgt", "sge", "ult", "ule", "ugt", "uge"]


def sgn(u: int, w: int) -> int:
    return u - (1 << w) if u >> (w - 1) & 1 else u


def tdiv(a: int, b: int) -> int:
    q = abs(a) // abs(b)
    return -q if (a < 0) != (b < 0) else q


def _sdiv_ub(w: int, a: int, b: int) -> bool:
    return b == 0 or (sgn(a, w) == -(1 << (w - 1)) and sgn(b, w) == -1)


# MLIR semantics on bit patterns: (w, ua, ub) -> None (poison/undefined) or the result pattern
REF: dict[str, Callable[[int, int, int], int | None]] = {
    "addi": lambda w, a, b: (a + b) % (1 << w),
    "subi": lambda w, a, b: (a - b) % (1 << w),
    "muli": lambda w, a, b: (a * b) % (1 << w),
    "andi": lambda w, a, b: a & b,
    "ori": lambda w, a, b: a | b,
    "xori": lambda w, a, b: a ^ b,
    "shli": lambda w, a, b: None if b >= w else (a << b) % (1 << w),
    "shrui": lambda w, a, b: None if b >= w else a >> b,
    "shrsi": lambda w, a, b: None if b >= w else (sgn(a, w) >> b) % (1 << w),
    "divui": lambda w, a, b: None if b == 0 else a // b,
    "remui": lambda w, a, b: None if b == 0 else a % b,
    "divsi": lambda w, a, b: None if _sdiv_ub(w, a, b) else tdiv(sgn(a, w), sgn(b, w)) % (1 << w),
    "remsi": lambda w, a, b: None if _sdiv_ub(w, a, b) else (sgn(a, w) - tdiv(sgn(a, w), sgn(b, w)) * sgn(b, w)) % (1 << w),
    "floordivsi": lambda w, a, b: None if _sdiv_ub(w, a, b) else (sgn(a, w) // sgn(b, w)) % (1 << w),
    "ceildivsi": lambda w, a, b: None if _sdiv_ub(w, a, b) else (-((-sgn(a, w)) // sgn(b, w))) % (1 << w),
    "ceildivui": lambda w, a, b: None if b == 0 else (-((-a) // b)) % (1 << w),
    "minsi": lambda w, a, b: min(sgn(a, w), sgn(b, w)) % (1 << w),
    "maxsi": lambda w, a, b: max(sgn(a, w), sgn(b, w)) % (1 << w),
    "minui": lambda w, a, b: min(a, b),
    "maxui": lambda w, a, b: max(a, b),
}
OPCLASS = {
    "addi": "AddiOp", "subi": "SubiOp", "muli": "MuliOp", "andi": "AndIOp", "ori": "OrIOp", "xori": "XOrIOp",
    "shli": "ShLIOp", "shrui": "ShRUIOp", "shrsi": "ShRSIOp", "divui": "DivUIOp", "remui": "RemUIOp",
    "divsi": "DivSIOp", "remsi": "RemSIOp", "floordivsi": "FloorDivSIOp", "ceildivsi": "CeilDivSIOp",
    "ceildivui": "CeilDivUIOp", "minsi": "MinSIOp", "maxsi": "MaxSIOp", "minui": "MinUIOp", "maxui": "MaxUIOp",
}
PAT = "xdsl.transforms.canonicalization_patterns.arith."


def ref_cmpi(p: int, w: int, a: int, b: int) -> bool:
    sa, sb = sgn(a, w), sgn(b, w)
    return [a == b, a != b, sa < sb, sa <= sb, sa > sb, sa >= sb, a < b, a <= b, a > b, a >= b][p]


def run_generated(lines: list[str]) -> list[str]:
    exe = core.LEAN / ".lake" / "build" / "bin" / "driver_gen"
    if not exe.exists():
        raise core.InfraError("driver_gen not built")
    p = subprocess.run([str(exe)], input="".join(l + "\n" for l in lines), capture_output=True, text=True, timeout=900)
    if p.returncode != 0:
        raise core.InfraError("driver_gen failed: " + p.stderr[-300:])
    out = p.stdout.split("\n")
    if out and out[-1] == "":
        out.pop()
    if len(out) != len(lines):
        raise core.InfraError("driver_gen line count mismatch")
    return out


WIDTHS: list[tuple[Any, int]] = [(1, 1), (2, 2), (3, 3), (4, 4), (8, 8), (16, 16), (32, 32), (64, 64), ("index", 64)]


def ty(w: Any) -> Any:
    from xdsl.dialects import builtin

    return builtin.IndexType() if w == "index" else builtin.IntegerType(w)


def consts_for(w: int, rng: Any, n: int) -> list[int]:
    """attribute data as stored by IntegerAttr (signed representatives), boundary first"""
    lo, hi = -(1 << (w - 1)), (1 << (w - 1)) - 1
    if w <= 3:
        return list(range(lo, hi + 1))
    edge = [0, 1, -1, 2, -2, lo, lo + 1, hi, hi - 1, w - 1, w, 3, 7]
    vals = []
    for v in edge:
        if lo <= v <= hi and v not in vals:
            vals.append(v)
    while len(vals) < n:
        v = rng.randint(lo, hi)
        if v not in vals:
            vals.append(v)
    return vals[:n]


# ------------------------------------------------------------------------------------------------
# (B) kernels
# ------------------------------------------------------------------------------------------------

def run_kernels(ctx: core.Ctx) -> None:
    from xdsl.dialects import arith, builtin

    lines: list[str] = []
    expect: list[tuple[str, str]] = []
    big = [0, 1, -1, 2, 127, 128, -128, -129, 255, 256, 1 << 31, (1 << 63) - 1, -(1 << 63), 1 << 64, -(1 << 64) - 3, 12345678901234567890]
    rnd = [ctx.rng.randint(-(1 << 70), 1 << 70) for _ in range(10 if ctx.tier == "quick" else 60)]
    pairs = [(a, b) for a in big + rnd for b in (big + rnd)[:: (3 if ctx.tier == "quick" else 1)]]
    for name, cls_name in OPCLASS.items():
        cls = getattr(arith, cls_name)
        if "py_operation" in cls.__dict__:
            for a, b in pairs:
                r = cls.py_operation(a, b)
                lines.append(f"ArithPyOps.{cls_name}_py_operation {a} {b}")
                expect.append((f"{cls_name}.py_operation({a},{b})", "none" if r is None else f"int {r}"))
                ctx.ev()
        for meth in ("is_right_unit", "is_right_zero"):
            if meth in cls.__dict__:
                for wt, w in WIDTHS:
                    for c in consts_for(w, ctx.rng, 10):
                        attr = builtin.IntegerAttr(c, ty(wt))
                        r = getattr(cls, meth)(attr)
                        lines.append(f"ArithPyOps.{cls_name}_{meth} {w} {attr.value.data}")
                        expect.append((f"{cls_name}.{meth}({c}:{wt})", f"bool {'true' if r else 'false'}"))
                        ctx.ev()
                        if r:
                            ctx.nt(("kernel", cls_name, meth, w, c))
    # IntegerType.normalized_value (signless)
    for wt, w in WIDTHS:
        if wt == "index":
            continue
        t = builtin.IntegerType(w)
        vals = sorted({0, 1, -1, (1 << (w - 1)) - 1, 1 << (w - 1), -(1 << (w - 1)), -(1 << (w - 1)) - 1, (1 << w) - 1, 1 << w, (1 << w) + 1,
                       -(1 << w), 3 * (1 << w) + 5, *[ctx.rng.randint(-(1 << (w + 3)), 1 << (w + 3)) for _ in range(12)]})
        for v in vals:
            for tr in (False, True):
                r = t.normalized_value(v, truncate_bits=tr)
                lines.append(f"BuiltinInt.normalized_value_signless {w} {v} {1 if tr else 0}")
                expect.append((f"IntegerType({w}).normalized_value({v}, truncate_bits={tr})", "none" if r is None else f"int {r}"))
                ctx.ev()
                if r is not None and r != v:
                    ctx.nt(("normalized", w, v, tr))
                # direct oracle: same bit pattern, signed range
                if r is not None and (r % (1 << w) != v % (1 << w) or not (-(1 << (w - 1)) <= r < (1 << (w - 1)))):
                    ctx.fail("xdsl.dialects.builtin.IntegerType.normalized_value", "normalised value is not the two's-complement representative",
                             {"width": w, "value": v, "truncate_bits": tr}, "normalized_value changed the bit pattern or left the signed range", r, None)
    try:
        outs = run_generated(lines)
    except core.InfraError:
        if any(f.kind == "broken-proof" for f in ctx.failures):
            ctx.count("generated.driver_unavailable")
            return
        raise
    ncmp = 0
    for line, out, (desc, exp) in zip(lines, outs, expect):
        if out == "bad-op":
            ctx.count("generated.not_translated")
            ctx.mismatch("correspondence:C14/generated-kernels", {"call": line}, exp, out, f"{desc}: the translator produced no definition")
            continue
        ncmp += 1
        if out != exp:
            ctx.mismatch("correspondence:C14/generated-kernels", {"call": line}, exp, out, f"{desc}: real method and translated Lean definition differ")
    ctx.count("generated.kernel_calls_compared", ncmp)


# ------------------------------------------------------------------------------------------------
# (C) integer patterns on one-operation snippets
# ------------------------------------------------------------------------------------------------

class Snippet:
    """func @f(%x, %y) { [constants]; %r = arith.<op> a, b; return %r }"""

    def __init__(self, name: str, wt: Any, a: tuple[str, int], b: tuple[str, int]):
        from xdsl.dialects import arith, builtin, func
        from xdsl.ir import Block, Region

        t = ty(wt)
        self.block = Block(arg_types=[t, t])
        ops: list[Any] = []
        self.operand_desc = (a, b)
        vals = []
        for kind, v in (a, b):
            if kind == "v":
                vals.append(self.block.args[v])
            else:
                c = arith.ConstantOp(builtin.IntegerAttr(v, t))
                ops.append(c)
                vals.append(c.result)
        cls = getattr(arith, OPCLASS[name])
        self.op = cls(vals[0], vals[1])
        self.ret = func.ReturnOp(self.op.results[0])
        self.block.add_ops(ops + [self.op, self.ret])
        self.func = func.FuncOp("f", ([t, t], [t]), Region(self.block))
        self.module = builtin.ModuleOp([self.func])

    def value_expr(self, v: Any) -> str:
        from xdsl.dialects import arith, builtin
        from xdsl.ir import BlockArgument

        if isinstance(v, BlockArgument):
            return f"v {v.index}"
        o = v.owner
        if isinstance(o, arith.ConstantOp) and isinstance(o.value, builtin.IntegerAttr):
            return f"c {int(o.value.value.data)}"
        return f"b {o.name} {self.value_expr(o.operands[0])} {self.value_expr(o.operands[1])}"

    def result_expr(self) -> str:
        return self.value_expr(self.ret.operands[0])


def expr_of(name: str, a: tuple[str, int], b: tuple[str, int]) -> str:
    f = lambda x: f"{x[0]} {x[1]}"
    return f"b arith.{name} {f(a)} {f(b)}"


def eval_expr(e: str, w: int, env: list[int]) -> int | None:
    """bit-pattern value of a model/implementation expression under the Python reference"""
    toks = e.split()

    def go(i: int) -> tuple[int | None, int]:
        if toks[i] == "v":
            return env[int(toks[i + 1])] % (1 << w), i + 2
        if toks[i] == "c":
            return int(toks[i + 1]) % (1 << w), i + 2
        op = toks[i + 1].split(".", 1)[1]
        x, j = go(i + 2)
        y, k = go(j)
        if x is None or y is None:
            return None, k
        return REF[op](w, x, y), k

    return go(0)[0]


def run_int_patterns(ctx: core.Ctx) -> None:
    from xdsl.pattern_rewriter import PatternRewriteWalker
    from xdsl.transforms.canonicalization_patterns import arith as pats

    rules = {
        "constprop": (pats.SignlessIntegerBinaryOperationConstantProp, "SignlessIntegerBinaryOperationConstantProp.match_and_rewrite"),
        "unitzero": (pats.SignlessIntegerBinaryOperationZeroOrUnitRight, "SignlessIntegerBinaryOperationZeroOrUnitRight.match_and_rewrite"),
    }
    lines: list[str] = []
    expect: list[tuple[str, dict, str]] = []
    nconst = 7 if ctx.tier == "quick" else 14
    for name in OPCLASS:
        for wt, w in WIDTHS:
            cs = consts_for(w, ctx.rng, nconst)
            shapes: list[tuple[tuple[str, int], tuple[str, int]]] = [(("v", 0), ("v", 1)), (("v", 0), ("v", 0))]
            shapes += [(("v", 0), ("c", c)) for c in cs] + [(("c", c), ("v", 1)) for c in cs]
            shapes += [(("c", a), ("c", b)) for a in cs for b in cs[:: (2 if ctx.tier == "quick" and w > 3 else 1)]]
            idx = 1 if wt == "index" else 0
            for a, b in shapes:
                src = expr_of(name, a, b)
                case = {"op": name, "type": str(wt), "lhs": list(a), "rhs": list(b)}
                envs = [[x, y] for x in (0, 1, (1 << w) - 1, 1 << (w - 1), 5 % (1 << w)) for y in (0, 3 % (1 << w), (1 << w) - 1)]
                for rule, (pcls, site) in rules.items():
                    sn = Snippet(name, wt, a, b)
                    try:
                        PatternRewriteWalker(pcls(), apply_recursively=False).rewrite_module(sn.module)
                        sn.module.verify()
                        got = sn.result_expr()
                    except Exception as e:  # noqa: BLE001
                        ctx.fail(PAT + site, f"{rule} raises {core.exc_name(e)}: arith.{name}", {**case, "rule": rule},
                                 "the pattern raised on a valid one-operation snippet", core.exc_name(e), "rewritten or left in place")
                        continue
                    ctx.ev()
                    if got != src:
                        ctx.nt((rule, name, str(wt), a, b))
                        ctx.count(f"rule.{rule}.fired")
                    # direct oracle: the rewritten value equals the original wherever MLIR defines it
                    for env in envs:
                        before, after = eval_expr(src, w, env), eval_expr(got, w, env)
                        if before is not None and before != after:
                            ctx.fail(PAT + site, f"{rule} changes the value: arith.{name}", {**case, "rule": rule, "env": env, "rewritten": got},
                                     f"{src} evaluates to {before} but the rewritten {got} to {after} (width {w})", after, before)
                            break
                    lines.append(f"{rule} {w} {idx} {src}" if rule == "constprop" else f"{rule} {w} {src}")
                    expect.append((rule, {**case, "rule": rule}, got if got != src else "none"))
                # fold()
                sn = Snippet(name, wt, a, b)
                site = "xdsl.dialects.arith.SignlessIntegerBinaryOperation.fold"
                try:
                    r = sn.op.fold()
                except Exception as e:  # noqa: BLE001
                    ctx.fail(site, f"fold raises {core.exc_name(e)}: arith.{name}", {**case, "rule": "fold"},
                             "fold() raised on a valid operation", core.exc_name(e), "a value, an attribute or None")
                    continue
                ctx.ev()
                if r is None:
                    got = "none"
                else:
                    from xdsl.ir import SSAValue

                    x = r[0]
                    got = sn.value_expr(x) if isinstance(x, SSAValue) else f"c {int(x.value.data)}"
                    ctx.nt(("fold", name, str(wt), a, b))
                    ctx.count("rule.fold.fired")
                    for env in envs:
                        before, after = eval_expr(src, w, env), eval_expr(got, w, env)
                        if before is not None and before != after:
                            ctx.fail(site, f"fold changes the value: arith.{name}", {**case, "rule": "fold", "env": env, "folded": got},
                                     f"{src} evaluates to {before} but fold() gives {got} = {after} (width {w})", after, before)
                            break
                    if got.startswith("c ") and wt != "index":
                        d = int(got.split()[1])
                        if not (-(1 << (w - 1)) <= d < (1 << w)):
                            ctx.fail(site, f"folded constant outside the signless range: arith.{name}", {**case, "rule": "fold"},
                                     "the folded attribute's data is outside the type's value range", d, None)
                lines.append(f"fold {w} {idx} {src}")
                expect.append(("fold", {**case, "rule": "fold"}, got))
    outs = ctx.model("arith_rules", lines)
    for line, out, (rule, case, got) in zip(lines, outs, expect):
        if out != got:
            ctx.mismatch("correspondence:C14/arith_rules", {**case, "line": line}, got, out,
                         f"real pattern {rule} and the Lean rule model disagree")
    ctx.count("rule.int_snippets_compared", len(lines))


# ------------------------------------------------------------------------------------------------
# (C) cmpi / select patterns
# ------------------------------------------------------------------------------------------------

def run_cmpi_select(ctx: core.Ctx) -> None:
    from xdsl.dialects import arith, builtin, func
    from xdsl.ir import Block, BlockArgument, Region
    from xdsl.pattern_rewriter import PatternRewriteWalker
    from xdsl.transforms.canonicalization_patterns import arith as pats

    lines: list[str] = []
    expect: list[tuple[dict, str]] = []
    # cmpi on equal operands
    for wt, w in WIDTHS:
        for p in range(10):
            t = ty(wt)
            blk = Block(arg_types=[t])
            op = arith.CmpiOp(blk.args[0], blk.args[0], PREDS[p])
            ret = func.ReturnOp(op.result)
            blk.add_ops([op, ret])
            m = builtin.ModuleOp([func.FuncOp("f", ([t], [builtin.i1]), Region(blk))])
            site = PAT + "ApplyCmpiPredicateToEqualOperands.match_and_rewrite"
            try:
                PatternRewriteWalker(pats.ApplyCmpiPredicateToEqualOperands(), apply_recursively=False).rewrite_module(m)
                m.verify()
            except Exception as e:  # noqa: BLE001
                ctx.fail(site, f"cmpi-same raises {core.exc_name(e)}", {"pred": PREDS[p], "type": str(wt)}, "pattern raised", core.exc_name(e), None)
                continue
            ctx.ev()
            o = ret.operands[0].owner
            if not isinstance(o, arith.ConstantOp):
                got = "none"
            else:
                got = "true" if int(o.value.value.data) % 2 else "false"
                ctx.nt(("cmpi_same", str(wt), p))
                # direct oracle on all/sample values
                for x in ([0, 1] if w == 1 else [0, 1, (1 << w) - 1, 1 << (w - 1)]):
                    if ref_cmpi(p, w, x, x) != (got == "true"):
                        ctx.fail(site, f"cmpi {PREDS[p]} on equal operands folds to the wrong constant", {"pred": PREDS[p], "type": str(wt), "x": x},
                                 "cmpi p x x folded to a constant that differs from the MLIR result", got, ref_cmpi(p, w, x, x))
            lines.append(f"cmpisame {p}")
            expect.append(({"rule": "cmpisame", "pred": PREDS[p], "type": str(wt)}, got))

    # select patterns
    def select_snippet(tname: str, cond: Any, lhs: Any, rhs: Any):
        """cond/lhs/rhs: ('v', i) or ('c', data)"""
        t = builtin.i1 if tname == "i1" else (builtin.f64 if tname == "f64" else builtin.IntegerType(int(tname[1:])))
        blk = Block(arg_types=[builtin.i1, t, t])
        ops: list[Any] = []

        def mk(x: Any, tt: Any) -> Any:
            if x[0] == "v":
                return blk.args[x[1]]
            c = arith.ConstantOp(builtin.IntegerAttr(x[1], tt))
            ops.append(c)
            return c.result

        cv, lv, rv = mk(cond, builtin.i1), mk(lhs, t), mk(rhs, t)
        op = arith.SelectOp(cv, lv, rv)
        ret = func.ReturnOp(op.result)
        blk.add_ops(ops + [op, ret])
        m = builtin.ModuleOp([func.FuncOp("f", ([builtin.i1, t, t], [t]), Region(blk))])
        return m, op, ret

    def describe(ret: Any, sel: Any) -> str:
        v = ret.operands[0]
        if isinstance(v, BlockArgument):
            return f"arg{v.index}"
        o = v.owner
        if o is sel:
            return "none"
        if isinstance(o, arith.ConstantOp):
            return f"const {int(o.value.value.data)}"
        if isinstance(o, arith.XOrIOp):
            a, b = o.operands
            bb = b.owner
            return f"xor {'arg' + str(a.index) if isinstance(a, BlockArgument) else '?'} {int(bb.value.value.data) if isinstance(bb, arith.ConstantOp) else '?'}"
        return o.name

    # SelectConstPattern
    for c in (0, -1):
        for tname in ("i1", "i8", "f64"):
            m, op, ret = select_snippet(tname, ("c", c), ("v", 1), ("v", 2))
            site = PAT + "SelectConstPattern.match_and_rewrite"
            PatternRewriteWalker(pats.SelectConstPattern(), apply_recursively=False).rewrite_module(m)
            m.verify()
            got = describe(ret, op)
            ctx.ev(); ctx.nt(("selconst", c, tname))
            want = "arg1" if c % 2 else "arg2"   # MLIR: the i1 pattern 1 selects the first value
            if got != want:
                ctx.fail(site, "select with a constant condition picks the wrong operand", {"cond": c, "type": tname}, "", got, want)
            lines.append(f"selconst {c}")
            expect.append(({"rule": "selconst", "cond": c, "type": tname}, {"arg1": "lhs", "arg2": "rhs"}.get(got, got)))
    # SelectTrueFalsePattern
    for l in (0, -1):
        for r in (0, -1):
            m, op, ret = select_snippet("i1", ("v", 0), ("c", l), ("c", r))
            site = PAT + "SelectTrueFalsePattern.match_and_rewrite"
            try:
                PatternRewriteWalker(pats.SelectTrueFalsePattern(), apply_recursively=False).rewrite_module(m)
                m.verify()
            except Exception as e:  # noqa: BLE001
                ctx.fail(site, f"select-true-false raises {core.exc_name(e)}", {"lhs": l, "rhs": r}, "pattern raised", core.exc_name(e), None)
                continue
            got = describe(ret, op)
            ctx.ev(); ctx.nt(("seltf", l, r))
            for x in (0, 1):
                want = (l if x else r) % 2
                if got == "arg0":
                    val = x
                elif got.startswith("xor arg0 "):
                    val = x ^ (int(got.split()[2]) % 2)
                elif got == "none":
                    continue
                else:
                    val = None
                if val != want:
                    ctx.fail(site, "select between i1 constants rewritten to a different value", {"lhs": l, "rhs": r, "cond": x}, "", got, want)
            lines.append(f"seltf {l} {r}")
            expect.append(({"rule": "seltf", "lhs": l, "rhs": r}, {"arg0": "cond"}.get(got, got.replace("xor arg0 ", "xor ") if got.startswith("xor arg0 ") else got)))
    # SelectSamePattern
    for tname in ("i1", "i8", "f64"):
        m, op, ret = select_snippet(tname, ("v", 0), ("v", 1), ("v", 1))
        PatternRewriteWalker(pats.SelectSamePattern(), apply_recursively=False).rewrite_module(m)
        m.verify()
        ctx.ev(); ctx.nt(("selsame", tname))
        if describe(ret, op) != "arg1":
            ctx.fail(PAT + "SelectSamePattern.match_and_rewrite", "select with identical branches not replaced by the branch", {"type": tname}, "", describe(ret, op), "arg1")
    outs = ctx.model("arith_rules", lines)
    for line, out, (case, got) in zip(lines, outs, expect):
        if out != got:
            ctx.mismatch("correspondence:C14/arith_rules", {**case, "line": line}, got, out, "real cmpi/select pattern and the Lean rule model disagree")
    ctx.count("rule.cmpi_select_compared", len(lines))


# ------------------------------------------------------------------------------------------------
# (C) float constant folding
# ------------------------------------------------------------------------------------------------

FMT = {"f64": (11, 52, "<d", "<Q"), "f32": (8, 23, "<f", "<I")}


def bits_to_float(t: str, b: int) -> float:
    _, _, fc, ic = FMT[t]
    return struct.unpack(fc, struct.pack(ic, b))[0]


def float_to_bits(t: str, x: float) -> int:
    _, _, fc, ic = FMT[t]
    return struct.unpack(ic, struct.pack(fc, x))[0]


def round_to_format(q: Fraction, t: str) -> float:
    """round-to-nearest-even of an exact non-zero rational into the format (independent of Python's
    float arithmetic); returns a Python float holding the format's value (±inf on overflow)"""
    eb, mb, _, _ = FMT[t]
    bias = (1 << (eb - 1)) - 1
    emin, emax = 1 - bias, bias
    s = -1 if q < 0 else 1
    a = abs(q)
    # e = floor(log2 a)
    e = a.numerator.bit_length() - a.denominator.bit_length()
    if Fraction(2) ** e > a:
        e -= 1
    elif Fraction(2) ** (e + 1) <= a:
        e += 1
    e = max(e, emin)
    unit = Fraction(2) ** (e - mb)
    m = a / unit
    fl = m.numerator // m.denominator
    rem = m - fl
    if rem > Fraction(1, 2) or (rem == Fraction(1, 2) and fl % 2 == 1):
        fl += 1
    val = fl * unit
    if val >= Fraction(2) ** (emax + 1):
        return s * math.inf
    return s * float(val)   # exactly representable in double


def ieee_ref(op: str, t: str, l: float, r: float) -> float:
    """exact-rational IEEE-754 reference for + - * / with signed zeros, infinities and NaN"""
    if math.isnan(l) or math.isnan(r):
        return math.nan
    sl, sr = math.copysign(1.0, l), math.copysign(1.0, r)
    if op == "subf":
        return ieee_ref("addf", t, l, -r)
    if op == "addf":
        if math.isinf(l) or math.isinf(r):
            if math.isinf(l) and math.isinf(r) and sl != sr:
                return math.nan
            return l if math.isinf(l) else r
        q = Fraction(l) + Fraction(r)
        if q == 0:
            return -0.0 if (l == 0 and r == 0 and sl < 0 and sr < 0) else 0.0
        return round_to_format(q, t)
    sign = sl * sr
    if op == "mulf":
        if math.isinf(l) or math.isinf(r):
            return math.nan if (l == 0 or r == 0) else sign * math.inf
        if l == 0 or r == 0:
            return sign * 0.0
        return round_to_format(Fraction(l) * Fraction(r), t)
    if op == "divf":
        if math.isinf(l):
            return math.nan if math.isinf(r) else sign * math.inf
        if math.isinf(r):
            return sign * 0.0
        if r == 0:
            return math.nan if l == 0 else sign * math.inf
        if l == 0:
            return sign * 0.0
        return round_to_format(Fraction(l) / Fraction(r), t)
    raise ValueError(op)


def show_bits(t: str, x: float) -> str:
    return "nan" if math.isnan(x) else str(float_to_bits(t, x))


def float_corpus(t: str, rng: Any, n: int) -> list[int]:
    eb, mb, _, _ = FMT[t]
    tot = 1 + eb + mb
    sign = 1 << (tot - 1)
    inf = ((1 << eb) - 1) << mb
    one = ((1 << (eb - 1)) - 1) << mb
    base = [0, sign, one, one | sign, inf, inf | sign, inf | (1 << (mb - 1)), 1, sign | 1, (1 << mb), inf - 1, (inf - 1) | sign,
            one + 1, one - 1, float_to_bits(t, 0.1), float_to_bits(t, 3.0), float_to_bits(t, -2.5), float_to_bits(t, 1e-3),
            ((1 << (eb - 1)) + (1 << (eb - 2))) << mb, ((1 << (eb - 2))) << mb]
    while len(base) < n:
        base.append(rng.getrandbits(tot))
    return base[:n]


def run_float_folds(ctx: core.Ctx) -> None:
    from xdsl.dialects import arith, builtin
    from xdsl.transforms.canonicalization_patterns.arith import _fold_const_operation

    site = PAT + "_fold_const_operation"
    ops = {"addf": arith.AddfOp, "subf": arith.SubfOp, "mulf": arith.MulfOp, "divf": arith.DivfOp}
    lines: list[str] = []
    expect: list[tuple[dict, str, bool]] = []
    for t, tcls in (("f64", builtin.Float64Type), ("f32", builtin.Float32Type)):
        corpus = float_corpus(t, ctx.rng, 26 if ctx.tier == "quick" else 60)
        for name, cls in ops.items():
            for lb in corpus:
                for rb in corpus:
                    l, r = bits_to_float(t, lb), bits_to_float(t, rb)
                    case = {"op": name, "type": t, "lhs_bits": hex(lb), "rhs_bits": hex(rb)}
                    ctx.ev()
                    try:
                        c = _fold_const_operation(cls, builtin.FloatAttr(l, tcls()), builtin.FloatAttr(r, tcls()))
                    except Exception as e:  # noqa: BLE001
                        ctx.fail(site, f"float fold raises {core.exc_name(e)}: arith.{name}@{t}", case,
                                 "folding two float constants raised instead of producing the IEEE result (or leaving the operation)", core.exc_name(e),
                                 show_bits(t, ieee_ref(name, t, l, r)))
                        continue
                    if c is None:
                        ctx.count("float.fold_declined")
                        continue
                    got = show_bits(t, c.value.value.data)
                    want = show_bits(t, ieee_ref(name, t, l, r))
                    special = math.isnan(l) or math.isnan(r) or l == 0 or r == 0 or math.isinf(l) or math.isinf(r) or want in ("nan",) or math.isinf(ieee_ref(name, t, l, r))
                    if special:
                        ctx.nt(("ffold", name, t, lb, rb))
                    if got != want:
                        kind = ("division by a zero" if name == "divf" and r == 0 else "special operands" if special else "rounding")
                        ctx.fail(site, f"float fold is not the IEEE result: arith.{name}@{t} ({kind})", case,
                                 f"{l!r} {name} {r!r} folded to bits {got}, IEEE-754 gives {want}", got, want)
                    suffix = "64" if t == "f64" else "32"
                    lines.append(f"ffold{suffix} {name} {lb} {rb}")
                    expect.append((case, got, False))
                    lines.append(f"fref{suffix} {name} {lb} {rb}")
                    expect.append((case, want, True))
    outs = ctx.model("arith_rules", lines)
    for line, out, (case, exp, is_ref) in zip(lines, outs, expect):
        if out != exp:
            ctx.mismatch("correspondence:C14/arith_rules" + ("/ieee-reference" if is_ref else ""), {**case, "line": line}, exp, out,
                         "Lean reference semantics (native IEEE) differs from the exact-rational oracle" if is_ref
                         else "real _fold_const_operation and the Lean fold model on native floats disagree")
    ctx.count("rule.float_folds_compared", len(lines) // 2)


def run_reassoc(ctx: core.Ctx) -> None:
    """FoldConstsByReassociation on `(c1 op x) op c2` in all operand orders and flag combinations:
    structure of the result vs the Lean `reassociate` model is checked through its observable
    parts (which operand survives, the folded constant, whether it fires)."""
    from xdsl.dialects import arith, builtin, func
    from xdsl.ir import Block, BlockArgument, Region
    from xdsl.pattern_rewriter import PatternRewriteWalker
    from xdsl.transforms.canonicalization_patterns.arith import FoldConstsByReassociation

    site = PAT + "FoldConstsByReassociation.match_and_rewrite"
    fm = {True: arith.FastMathFlagsAttr([arith.FastMathFlag.REASSOC]), False: arith.FastMathFlagsAttr("none")}
    for t, tcls in (("f64", builtin.Float64Type), ("f32", builtin.Float32Type)):
        for name, cls in (("addf", arith.AddfOp), ("mulf", arith.MulfOp)):
            for c1, c2 in ((1.5, 2.0), (0.1, 0.2), (-0.0, 0.0), (math.inf, -1.0), (3.0, math.nan), (1e30, 1e30)):
                for inner_const_left in (True, False):
                    for outer_inner_left in (True, False):
                        for fi in (True, False):
                            for fo in (True, False):
                                for extra_use in (False, True):
                                    tt = tcls()
                                    blk = Block(arg_types=[tt])
                                    k1 = arith.ConstantOp(builtin.FloatAttr(c1, tt))
                                    k2 = arith.ConstantOp(builtin.FloatAttr(c2, tt))
                                    x = blk.args[0]
                                    inner = cls(k1.result, x, fm[fi]) if inner_const_left else cls(x, k1.result, fm[fi])
                                    outer = cls(inner.result, k2.result, fm[fo]) if outer_inner_left else cls(k2.result, inner.result, fm[fo])
                                    rets = [outer.result] + ([inner.result] if extra_use else [])
                                    ret = func.ReturnOp(*rets)
                                    blk.add_ops([k1, k2, inner, outer, ret])
                                    m = builtin.ModuleOp([func.FuncOp("f", ([tt], [tt] * len(rets)), Region(blk))])
                                    case = {"op": name, "type": t, "c1": repr(c1), "c2": repr(c2), "inner_const_left": inner_const_left,
                                            "outer_inner_left": outer_inner_left, "reassoc_inner": fi, "reassoc_outer": fo, "second_use": extra_use}
                                    try:
                                        PatternRewriteWalker(FoldConstsByReassociation(), apply_recursively=False).rewrite_module(m)
                                        m.verify()
                                    except Exception as e:  # noqa: BLE001
                                        ctx.fail(site, f"reassociation raises {core.exc_name(e)}", case, "pattern raised on a valid snippet", core.exc_name(e), None)
                                        continue
                                    ctx.ev()
                                    o = ret.operands[0].owner
                                    fired = o is not outer
                                    should = fi and fo and not extra_use
                                    if fired != should:
                                        ctx.fail(site, "reassociation fires without the licence (reassoc on both operations, single use) or fails to fire with it",
                                                 case, "", fired, should)
                                        continue
                                    if not fired:
                                        continue
                                    ctx.nt(("reassoc", t, name, c1, c2, inner_const_left, outer_inner_left))
                                    # result must be  <folded c1 op c2>  op  x  with reassoc set
                                    a, b = o.operands
                                    ok = (isinstance(o, cls) and isinstance(b, BlockArgument) and isinstance(a.owner, arith.ConstantOp)
                                          and arith.FastMathFlag.REASSOC in o.fastmath.data)
                                    if ok:
                                        l_, r_ = builtin.FloatAttr(c1, tt).value.data, builtin.FloatAttr(c2, tt).value.data
                                        want = show_bits(t, ieee_ref(name, t, l_, r_))
                                        got = show_bits(t, a.owner.value.value.data)
                                        ok = want == got
                                    if not ok:
                                        ctx.fail(site, "reassociation result is not fold(c1, c2) op x", case, "", str(o), "fold(c1,c2) op x with reassoc")


# (C) CSE: see c14_cse.py
