"""C17 input families aimed at the *guards* of rewrite patterns.

A pattern-based pass is a collection of `match -> rewrite` rules; a rule is only correct because of the
conditions it tests before rewriting (result/operand types, which operands are constants and which
constants, who else uses a value, whether two operands / two successors are the same object).  The test
corpus shows each rule the shape it is meant to fire on; an input that differs from such a shape in ONE
guard dimension (a "near miss") is what a weakened guard lets through.  Three families produce them:

* `CfgGen`   — random `cf` control-flow graphs with block arguments: pass-through blocks (with arguments
               that are forwarded, dropped, or used in dominated blocks), constant / repeated conditions,
               identical successors with equal or different operands, switches whose cases repeat the
               default, self loops, back edges, unreachable blocks.  A third of the graphs contain
               operations that no dialect registers (accepted with allow_unregistered, as xdsl-opt does),
               also as block terminators with successors: an analysis knows nothing about them and has to
               take the conservative answer.  Every use is dominated by its definition (dominators of the
               generated graph are computed here, and re-decided by the Lean model `ssa_dom`).
* `TypedGen` — straight-line `arith` (+ nested `scf.if`/`scf.for`) over every integer width and two float
               types: each operation shape is instantiated over all types, with operands drawn from
               {earlier value, boundary constant 0/1/-1, the other operand}, so that "i1 only", "constant
               only", "same operand only" guards all see their complement.  Every value has typed users.
               Earlier expressions are emitted again wherever their operands are visible: later in the
               block, nested below the first occurrence, or in a sibling region (where neither occurrence
               dominates the other) — the scoping guard of value numbering.
* `mutate`   — near misses of corpus modules (the inputs written for a pass): IR-level edits along the
               guard dimensions — one more use of a value at a point it dominates, another constant,
               an operand replaced by another visible value of the same type, two operands swapped, an
               operation duplicated in place or copied to another point where its operands are visible.
               Mutants are kept only if they are valid inputs (`input_ok` + SSA dominance, Lean `ssa_dom`).
* `OrderGen` / `reorder` — the ORDER of the operations of a block: xDSL's parser and verifier accept a user before
               its producer; programs of the generators above and corpus modules with blocks permuted / reversed /
               one operation (of a kind the pass under test rewrites) moved to the first or the last movable
               position.  What is guarded here is "one walk suffices" and "the rewritten operation has a predecessor /
               a successor in its block".

All randomness comes from the `random.Random` handed in.
"""
from __future__ import annotations

import io
import random
import re
from typing import Any

INT_T = ["i1", "i8", "i16", "i32", "i64", "index"]
FLOAT_T = ["f32", "f64"]


def _w(t: str) -> int:
    return 64 if t == "index" else int(t[1:])


def _const_text(rng: random.Random, t: str) -> str:
    if t in FLOAT_T:
        return rng.choice(["0.0", "1.0", "-1.0", "2.5", "-0.0", "0.5"])
    w = _w(t)
    if w == 1:
        return rng.choice(["0", "1"]) if t != "i1" else rng.choice(["true", "false"])
    lo, hi = -(1 << (w - 1)), (1 << (w - 1)) - 1
    r = rng.random()
    if r < 0.36:
        v = 0
    elif r < 0.56:
        v = 1
    elif r < 0.68:
        v = -1
    elif r < 0.9:
        v = rng.choice([2, 3, 5, 7, -2, w - 1, w, hi, lo, 42])
    else:
        v = rng.randint(lo, hi)
    return str(max(lo, min(hi, v)))


# ---------------------------------------------------------------------------------------------
# CfgGen
# ---------------------------------------------------------------------------------------------

class CfgGen:
    def __init__(self, rng: random.Random):
        self.rng = rng
        self.n = 0
        self.testop = '"test.op"'

    def fresh(self) -> str:
        self.n += 1
        return f"%v{self.n}"

    def program(self) -> str:
        rng = self.rng
        self.n = 0
        T0 = rng.choice(["i32", "i32", "i64", "i8", "index", "i1", "f32"])
        nb = rng.randint(2, 7)
        # block arguments
        arg_t: list[list[str]] = [["i1", "i1", "i32", T0, T0]]
        for _ in range(1, nb):
            k = rng.choice([0, 0, 1, 1, 1, 2])
            arg_t.append([rng.choice([T0, T0, T0, "i1", "i32"]) for _ in range(k)])
        args = [[f"%b{i}a{j}" for j in range(len(ts))] for i, ts in enumerate(arg_t)]
        # kinds and edges
        kinds = ["compute"]
        for i in range(1, nb):
            r = rng.random()
            kinds.append("exit" if (i == nb - 1 and "exit" not in kinds and r < 0.8) else
                         "pass" if r < 0.4 else "exit" if r < 0.55 else "compute")
        if "exit" not in kinds:
            kinds[-1] = "exit"
        if nb == 2 and kinds[1] != "exit":
            kinds[1] = "exit"

        # the successor of a lone-branch block is often reached through it only (then the lone-branch block
        # dominates it and its arguments may be used there)
        private: set[int] = set()
        pass_target: dict[int, int] = {}
        for i in range(1, nb):
            if kinds[i] == "pass":
                fw = [j for j in range(i + 1, nb) if j not in private]
                if fw and rng.random() < 0.6:
                    pass_target[i] = rng.choice(fw)
                    private.add(pass_target[i])

        def target(i: int) -> int:
            if i in pass_target:
                return pass_target[i]
            fw = [j for j in range(i + 1, nb) if j not in private]
            if fw and rng.random() < 0.8:
                return rng.choice(fw)
            return rng.choice([j for j in range(1, nb) if j not in private] or list(range(1, nb)))

        # a third of the graphs also use operations no dialect registers (the parser accepts them with
        # allow_unregistered, as xdsl-opt does): nothing is known about them, so every analysis has to take the
        # conservative answer (may be a terminator, may have effects, its successors are control-flow edges)
        unreg = rng.random() < 0.35
        self.testop = '"unreg.op"' if unreg and rng.random() < 0.5 else '"test.op"'
        term: list[tuple[str, list[int], list[int]]] = []   # (kind, successor block indices, switch case values)
        for i in range(nb):
            if kinds[i] == "exit":
                term.append(("return", [], []))
            elif unreg and rng.random() < (0.3 if kinds[i] == "pass" else 0.5):
                if kinds[i] == "pass":
                    kinds[i] = "compute"
                term.append(("unreg", [target(i) for _ in range(rng.randint(1, 3))], []))
            elif kinds[i] == "pass":
                term.append(("br", [target(i)], []))
            else:
                r = rng.random()
                if r < 0.25:
                    term.append(("br", [target(i)], []))
                elif r < 0.75:
                    a = target(i)
                    b = a if rng.random() < 0.18 else target(i)
                    term.append(("cond_br", [a, b], []))
                else:
                    d = target(i)
                    nc = rng.randint(0, 3)
                    cs = [d if rng.random() < 0.3 else target(i) for _ in range(nc)]
                    vals = rng.sample([0, 1, 2, 3, 5, 42, -1], nc)
                    term.append(("switch", [d, *cs], vals))
        # dominators (iterative; entry = block 0)
        succ = [t[1] for t in term]
        reach = {0}
        work = [0]
        while work:
            x = work.pop()
            for y in succ[x]:
                if y not in reach:
                    reach.add(y)
                    work.append(y)
        preds: list[list[int]] = [[] for _ in range(nb)]
        for i in reach:
            for j in succ[i]:
                preds[j].append(i)
        dom: dict[int, set[int]] = {i: set(reach) for i in reach}
        dom[0] = {0}
        changed = True
        while changed:
            changed = False
            for i in sorted(reach - {0}):
                new = set.intersection(*(dom[p] for p in preds[i])) | {i} if preds[i] else {i}
                if new != dom[i]:
                    dom[i] = new
                    changed = True
        # order: dominators first (sort reachable blocks by size of their dominator set), unreachable last
        order = sorted(reach, key=lambda i: (len(dom[i]), i)) + [i for i in range(nb) if i not in reach]
        defs: list[dict[str, list[str]]] = [{} for _ in range(nb)]   # values defined in block i (args + results) by type
        body: list[list[str]] = [[] for _ in range(nb)]
        for i in range(nb):
            for a, t in zip(args[i], arg_t[i]):
                defs[i].setdefault(t, []).append(a)

        pass_args = {a for i in range(nb) if kinds[i] == "pass" for a in args[i]}

        def avail(i: int, t: str) -> tuple[list[str], list[str]]:
            """(values of type t defined in block i, values of type t defined in strict dominators)"""
            own = list(defs[i].get(t, []))
            up: list[str] = []
            if i in reach:
                for d in sorted(dom[i] - {i}):
                    up.extend(defs[d].get(t, []))
            return own, up

        def const(i: int, t: str) -> str:
            v = self.fresh()
            body[i].append(f"  {v} = arith.constant {_const_text(rng, t)}" + ("" if t == "i1" else f" : {t}"))
            defs[i].setdefault(t, []).append(v)
            return v

        def need(i: int, t: str, p_const: float = 0.12) -> str:
            own, up = avail(i, t)
            # the near miss of every pass-through rule: an argument of a lone-branch block that has a user
            # besides that branch (necessarily in a block the lone-branch block dominates)
            hot = [v for v in up if v in pass_args]
            if hot and rng.random() < 0.55:
                return rng.choice(hot)
            if (own or up) and rng.random() >= p_const:
                if own and up:
                    return rng.choice(own) if rng.random() < 0.5 else rng.choice(up)
                return rng.choice(own or up)
            return const(i, t)

        for i in order:
            if kinds[i] != "pass":
                for _ in range(rng.randint(0, 3) if kinds[i] == "compute" else rng.randint(0, 2)):
                    r = rng.random()
                    t = rng.choice([T0, T0, "i32", "i1"])
                    if r < 0.3:
                        ops = [need(i, rng.choice([T0, "i1", "i32"])) for _ in range(rng.randint(0, 2))]
                        tys = [self._type_of(o, args, arg_t, defs) for o in ops]
                        v = self.fresh()
                        body[i].append(f'  {v} = {self.testop}({", ".join(ops)}) : ({", ".join(tys)}) -> {t}')
                        defs[i].setdefault(t, []).append(v)
                    elif r < 0.45:
                        u = need(i, t)
                        body[i].append(f'  {self.testop}({u}) : ({t}) -> ()')
                    elif r < 0.55:
                        const(i, t)
                    elif r < 0.72 and t not in FLOAT_T:
                        a, b = need(i, t), need(i, t)
                        v = self.fresh()
                        body[i].append(f"  {v} = arith.{rng.choice(['addi', 'andi', 'xori', 'muli'])} {a}, {b} : {t}")
                        defs[i].setdefault(t, []).append(v)
                    elif r < 0.86:
                        c, a, b = need(i, "i1"), need(i, t), need(i, t)
                        v = self.fresh()
                        body[i].append(f"  {v} = arith.select {c}, {a}, {b} : {t}")
                        defs[i].setdefault(t, []).append(v)
                    elif t not in FLOAT_T:
                        a, b = need(i, t), need(i, t)
                        v = self.fresh()
                        body[i].append(f"  {v} = arith.cmpi {rng.choice(['eq', 'ne', 'slt', 'ult'])}, {a}, {b} : {t}")
                        defs[i].setdefault("i1", []).append(v)

        def edge(i: int, j: int, same_as: str | None = None) -> str:
            if not arg_t[j]:
                return f"^bb{j}"
            if same_as is not None and rng.random() < 0.6:
                return same_as
            ops = []
            for t in arg_t[j]:
                own = [a for a, at in zip(args[i], arg_t[i]) if at == t] if i else []
                # forward the block's own argument often (what the pass-through rules remap)
                # (a pass-through block gets no constant of its own: it must stay a lone branch)
                ops.append(rng.choice(own) if own and rng.random() < 0.55 else
                           need(i, t, 0.0 if kinds[i] == "pass" and any(avail(i, t)) else 0.12))
            return f"^bb{j}({', '.join(ops)} : {', '.join(arg_t[j])})"

        for i in range(nb):
            k, ss, vals = term[i]
            if k == "return":
                body[i].append(f"  func.return {need(i, T0)} : {T0}")
            elif k == "unreg":
                ops = [need(i, rng.choice([T0, "i1", "i32"])) for _ in range(rng.randint(0, 2))]
                tys = [self._type_of(o, args, arg_t, defs) for o in ops]
                body[i].append(f'  "unreg.br"({", ".join(ops)}) [{", ".join(f"^bb{j}" for j in ss)}] : ({", ".join(tys)}) -> ()')
            elif k == "br":
                body[i].append(f"  cf.br {edge(i, ss[0])}")
            elif k == "cond_br":
                c = need(i, "i1", 0.15)
                e1 = edge(i, ss[0])
                e2 = edge(i, ss[1], e1 if ss[0] == ss[1] else None)
                body[i].append(f"  cf.cond_br {c}, {e1}, {e2}")
            else:
                f = need(i, "i32", 0.2)
                d = edge(i, ss[0])
                cases = [f"    {v}: {edge(i, j, d if j == ss[0] else None)}" for v, j in zip(vals, ss[1:])]
                if cases:
                    body[i].append(f"  cf.switch {f} : i32, [\n    default: {d},\n" + ",\n".join(cases) + "\n  ]")
                else:
                    body[i].append(f"  cf.switch {f} : i32, [\n    default: {d}\n  ]")
        sig = ", ".join(f"{a}: {t}" for a, t in zip(args[0], arg_t[0]))
        out = [f"builtin.module {{\nfunc.func @f({sig}) -> {T0} {{"]
        for i in range(nb):
            if i:
                hdr = ", ".join(f"{a}: {t}" for a, t in zip(args[i], arg_t[i]))
                out.append(f"^bb{i}({hdr}):" if hdr else f"^bb{i}:")
            out.extend(body[i])
        out.append("}\n}\n")
        return "\n".join(out)

    @staticmethod
    def _type_of(v: str, args: list[list[str]], arg_t: list[list[str]], defs: list[dict[str, list[str]]]) -> str:
        for d in defs:
            for t, vs in d.items():
                if v in vs:
                    return t
        raise KeyError(v)


# ---------------------------------------------------------------------------------------------
# TypedGen
# ---------------------------------------------------------------------------------------------

INT_BIN = ["addi", "subi", "muli", "andi", "ori", "xori", "shli", "shrsi", "shrui", "divsi", "divui", "remsi", "remui",
           "minsi", "minui", "maxsi", "maxui", "ceildivsi", "ceildivui", "floordivsi"]
FLOAT_BIN = ["addf", "subf", "mulf", "divf", "minimumf", "maximumf", "minnumf", "maxnumf"]
CMPI = ["eq", "ne", "slt", "sle", "sgt", "sge", "ult", "ule", "ugt", "uge"]
CMPF = ["oeq", "ogt", "oge", "olt", "ole", "one", "ueq", "ugt", "uge", "ult", "ule", "une", "ord", "uno"]


class TypedGen:
    def __init__(self, rng: random.Random):
        self.rng = rng
        self.n = 0
        self.ext: set[str] = set()
        self.exprs: list[tuple[str, list[tuple[str, str]], str]] = []   # (format, [(operand, type)], result type)
        self.graph = False   # program_graph: no function around the code, observers are test.op only

    def fresh(self, p: str = "v") -> str:
        self.n += 1
        return f"%{p}{self.n}"

    def const(self, pool: dict[str, list[str]], t: str, L: list[str], ind: str, text: str | None = None) -> str:
        v = self.fresh("c")
        text = text if text is not None else _const_text(self.rng, t)
        L.append(f"{ind}{v} = arith.constant {text}" + ("" if t == "i1" and text in ("true", "false") else f" : {t}"))
        pool.setdefault(t, []).append(v)
        return v

    def pick(self, pool: dict[str, list[str]], t: str, L: list[str], ind: str, p_const: float = 0.4) -> str:
        vs = pool.get(t, [])
        if vs and self.rng.random() >= p_const:
            return self.rng.choice(vs)
        return self.const(pool, t, L, ind)

    def pair(self, pool: dict[str, list[str]], t: str, L: list[str], ind: str) -> tuple[str, str]:
        a = self.pick(pool, t, L, ind)
        b = a if self.rng.random() < 0.12 else self.pick(pool, t, L, ind)
        return a, b

    def cond(self, pool: dict[str, list[str]], L: list[str], ind: str) -> str:
        r = self.rng.random()
        if r < 0.22:
            return self.const(pool, "i1", L, ind)
        return self.pick(pool, "i1", L, ind, 0.0) if pool.get("i1") else self.const(pool, "i1", L, ind)

    def observe(self, v: str, t: str, L: list[str], ind: str) -> None:
        if not self.graph and self.rng.random() < 0.5:
            self.ext.add(t)
            L.append(f"{ind}func.call @ext_{t}({v}) : ({t}) -> ()")
        else:
            L.append(f'{ind}"test.op"({v}) : ({t}) -> ()')

    def flush(self, pool: dict[str, list[str]], outer: dict[str, list[str]], L: list[str], start: int, ind: str, p: float = 0.75) -> None:
        """give (most of) the values of this scope that nobody uses an observer: everything here is pure, and a
        value without a transitive impure user is deleted before any rule looks at it"""
        text = "\n".join(L[start:]) + "\n"
        for t in sorted(pool):
            for v in pool[t]:
                if v in outer.get(t, ()):
                    continue
                if len(re.findall(re.escape(v) + r"(?![0-9A-Za-z_])", text)) <= 1 and self.rng.random() < p:
                    self.observe(v, t, L, ind)

    def stmt(self, pool: dict[str, list[str]], L: list[str], ind: str, depth: int) -> None:
        rng = self.rng
        kinds = ["bin"] * 5 + ["select"] * 5 + ["cmpi"] * 2 + ["chain"] * 2 + ["cast"] * 2 + ["fbin", "cmpf_select", "observe", "observe"]
        if depth < 2:
            kinds += ["if"] * 2 + ["for"] * 2
        if self.exprs:
            kinds += ["again"] * (3 if depth == 0 else 7)
        k = rng.choice(kinds)
        if k == "again":
            # the same expression once more, wherever its operands are visible: after the first one, nested below
            # it, or in a SIBLING region (the arms of one scf.if copy the same outer pool), where neither occurrence
            # may replace the other
            cands = [e for e in self.exprs if all(n in pool.get(t, ()) for n, t in e[1])]
            if not cands:
                return
            fmt, ops, rt = rng.choice(cands[-12:])
            v = self.fresh()
            L.append(f"{ind}{v} = " + fmt.format(*[n for n, _ in ops]))
            pool.setdefault(rt, []).append(v)
            if rng.random() < 0.5:
                self.observe(v, rt, L, ind)
        elif k == "bin":
            t = rng.choice(INT_T)
            a, b = self.pair(pool, t, L, ind)
            v = self.fresh()
            op = rng.choice(INT_BIN)
            L.append(f"{ind}{v} = arith.{op} {a}, {b} : {t}")
            self.exprs.append((f"arith.{op} {{0}}, {{1}} : {t}", [(a, t), (b, t)], t))
            pool.setdefault(t, []).append(v)
        elif k == "fbin":
            t = rng.choice(FLOAT_T)
            a, b = self.pair(pool, t, L, ind)
            v = self.fresh()
            fm = rng.choice(["", "", " fastmath<fast>", " fastmath<reassoc>", " fastmath<nnan,nsz>"])
            L.append(f"{ind}{v} = arith.{rng.choice(FLOAT_BIN)} {a}, {b}{fm} : {t}")
            pool.setdefault(t, []).append(v)
        elif k == "select":
            t = rng.choice(INT_T + INT_T + FLOAT_T)
            c = self.cond(pool, L, ind)
            r = rng.random()
            if r < 0.45:     # both arms constants (possibly equal)
                a, b = self.const(pool, t, L, ind), self.const(pool, t, L, ind)
            else:
                a, b = self.pair(pool, t, L, ind)
            v = self.fresh()
            L.append(f"{ind}{v} = arith.select {c}, {a}, {b} : {t}")
            self.exprs.append((f"arith.select {{0}}, {{1}}, {{2}} : {t}", [(c, "i1"), (a, t), (b, t)], t))
            pool.setdefault(t, []).append(v)
            if rng.random() < 0.6:   # a user that constrains the type of the result
                if t in FLOAT_T:
                    w = self.fresh()
                    L.append(f"{ind}{w} = arith.addf {v}, {self.pick(pool, t, L, ind)} : {t}")
                    pool[t].append(w)
                else:
                    w = self.fresh()
                    L.append(f"{ind}{w} = arith.{rng.choice(['addi', 'xori', 'ori'])} {v}, {self.pick(pool, t, L, ind)} : {t}")
                    pool[t].append(w)
        elif k == "cmpi":
            t = rng.choice(INT_T)
            a, b = self.pair(pool, t, L, ind)
            v = self.fresh()
            pr = rng.choice(CMPI)
            L.append(f"{ind}{v} = arith.cmpi {pr}, {a}, {b} : {t}")
            self.exprs.append((f"arith.cmpi {pr}, {{0}}, {{1}} : {t}", [(a, t), (b, t)], "i1"))
            pool.setdefault("i1", []).append(v)
        elif k == "cmpf_select":
            t = rng.choice(FLOAT_T)
            a, b = self.pair(pool, t, L, ind)
            c = self.fresh()
            L.append(f"{ind}{c} = arith.cmpf {rng.choice(CMPF)}, {a}, {b} : {t}")
            pool.setdefault("i1", []).append(c)
            x, y = (a, b) if rng.random() < 0.7 else (b, a)
            if rng.random() < 0.2:
                y = self.pick(pool, t, L, ind)
            v = self.fresh()
            L.append(f"{ind}{v} = arith.select {c}, {x}, {y} : {t}")
            pool.setdefault(t, []).append(v)
        elif k == "chain":
            t = rng.choice([x for x in INT_T if x != "i1"] + FLOAT_T)
            op = rng.choice(["addf", "mulf"] if t in FLOAT_T else ["addi", "muli", "andi", "ori", "xori", "subi"])
            fm = rng.choice(["", " fastmath<reassoc>", " fastmath<fast>"]) if t in FLOAT_T else ""
            x = self.pick(pool, t, L, ind, 0.1)
            c1, c2 = self.const(pool, t, L, ind), self.const(pool, t, L, ind)
            v1, v2 = self.fresh(), self.fresh()
            l1 = (c1, x) if rng.random() < 0.4 else (x, c1)
            L.append(f"{ind}{v1} = arith.{op} {l1[0]}, {l1[1]}{fm} : {t}")
            l2 = (c2, v1) if rng.random() < 0.4 else (v1, c2)
            L.append(f"{ind}{v2} = arith.{op} {l2[0]}, {l2[1]}{fm} : {t}")
            pool.setdefault(t, []).append(v2)
            if rng.random() < 0.3:
                pool[t].append(v1)
        elif k == "cast":
            ws = [x for x in INT_T if x != "index"]
            s, d = rng.sample(ws, 2)
            a = self.pick(pool, s, L, ind)
            v = self.fresh()
            if _w(s) < _w(d):
                L.append(f"{ind}{v} = arith.{rng.choice(['extsi', 'extui'])} {a} : {s} to {d}")
            else:
                L.append(f"{ind}{v} = arith.trunci {a} : {s} to {d}")
            pool.setdefault(d, []).append(v)
            if rng.random() < 0.3:
                i = self.fresh()
                L.append(f"{ind}{i} = arith.index_cast {v} : {d} to index")
                pool.setdefault("index", []).append(i)
        elif k == "observe":
            ts = [t for t in pool if pool[t]]
            if ts:
                t = rng.choice(sorted(ts))
                self.observe(rng.choice(pool[t]), t, L, ind)
        elif k == "if":
            c = self.cond(pool, L, ind)
            rts = [rng.choice(INT_T + FLOAT_T) for _ in range(rng.randint(0, 2))]
            res = [self.fresh("r") for _ in rts]
            head = (", ".join(res) + " = " if res else "") + f"scf.if {c}" + (f" -> ({', '.join(rts)})" if rts else "")
            L.append(f"{ind}{head} {{")
            has_else = bool(rts) or rng.random() < 0.5
            for arm in range(2 if has_else else 1):
                p2 = {t: list(vs) for t, vs in pool.items()}
                start = len(L)
                for _ in range(rng.randint(0, 3)):
                    self.stmt(p2, L, ind + "  ", depth + 1)
                ys = [self.pick(p2, t, L, ind + "  ") for t in rts]
                L.append("//yield " + " ".join(ys))
                self.flush(p2, pool, L, start, ind + "  ")
                L.remove("//yield " + " ".join(ys))
                if rts:
                    L.append(f"{ind}  scf.yield {', '.join(ys)} : {', '.join(rts)}")
                elif rng.random() < 0.5:
                    L.append(f"{ind}  scf.yield")
                if arm == 0 and has_else:
                    L.append(f"{ind}}} else {{")
            L.append(f"{ind}}}")
            for r_, t in zip(res, rts):
                pool.setdefault(t, []).append(r_)
        elif k == "for":
            lb = self.const(pool, "index", L, ind, str(rng.choice([0, 0, 1, 2])))
            ub = self.const(pool, "index", L, ind, str(rng.choice([0, 1, 2, 3, 4]))) if rng.random() < 0.8 else self.pick(pool, "index", L, ind)
            st = self.const(pool, "index", L, ind, str(rng.choice([1, 1, 2, 3])))
            its = [rng.choice([x for x in INT_T if x != "i1"] + FLOAT_T) for _ in range(rng.randint(0, 2))]
            inits = [self.pick(pool, t, L, ind) for t in its]
            iv = self.fresh("i")
            ia = [self.fresh("it") for _ in its]
            res = [self.fresh("r") for _ in its]
            head = (", ".join(res) + " = " if res else "") + f"scf.for {iv} = {lb} to {ub} step {st}"
            if its:
                head += " iter_args(" + ", ".join(f"{a} = {x}" for a, x in zip(ia, inits)) + f") -> ({', '.join(its)})"
            L.append(f"{ind}{head} {{")
            p2 = {t: list(vs) for t, vs in pool.items()}
            p2.setdefault("index", []).append(iv)
            for a, t in zip(ia, its):
                p2.setdefault(t, []).append(a)
            start = len(L)
            outer = {t: list(vs) for t, vs in pool.items()}
            outer.setdefault("index", []).append(iv)
            for a, t in zip(ia, its):
                outer.setdefault(t, []).append(a)
            for _ in range(rng.randint(0, 3)):
                self.stmt(p2, L, ind + "  ", depth + 1)
            ys = []
            for a, t in zip(ia, its):
                r = rng.random()
                ys.append(a if r < 0.25 else self.pick(p2, t, L, ind + "  ", 0.2))
            L.append("//yield " + " ".join(ys))
            self.flush(p2, outer, L, start, ind + "  ")
            L.remove("//yield " + " ".join(ys))
            if its:
                L.append(f"{ind}  scf.yield {', '.join(ys)} : {', '.join(its)}")
            elif rng.random() < 0.5:
                L.append(f"{ind}  scf.yield")
            L.append(f"{ind}}}")
            for r_, t in zip(res, its):
                pool.setdefault(t, []).append(r_)

    def program(self) -> str:
        rng = self.rng
        self.n = 0
        self.ext = set()
        self.exprs = []
        ats = ["i1", "i1"] + [rng.choice(INT_T + FLOAT_T) for _ in range(rng.randint(2, 5))]
        args = [f"%a{i}" for i in range(len(ats))]
        pool: dict[str, list[str]] = {}
        for a, t in zip(args, ats):
            pool.setdefault(t, []).append(a)
        L: list[str] = []
        for _ in range(rng.randint(3, 12)):
            self.stmt(pool, L, "  ", 0)
        rts = [rng.choice(sorted(t for t in pool if pool[t])) for _ in range(rng.randint(1, 3))]
        rets = [rng.choice(pool[t]) for t in rts]
        L.append("//return " + " ".join(rets))
        self.flush(pool, {t: [a for a in args if a in vs] for t, vs in pool.items()}, L, 0, "  ")
        L.remove("//return " + " ".join(rets))
        sig = ", ".join(f"{a}: {t}" for a, t in zip(args, ats))
        out = [f"builtin.module {{\nfunc.func @f({sig}) -> ({', '.join(rts)}) {{", *L,
               f"  func.return {', '.join(rets)} : {', '.join(rts)}", "}"]
        for t in sorted(self.ext):
            out.append(f"func.func private @ext_{t}({t}) -> ()")
        out.append("}\n")
        return "\n".join(out)


    def program_graph(self) -> str:
        """the same statements directly in the body of a builtin.module (a graph region: its operations carry no
        order), half of the time in a module nested in the top-level one; the free values come from one test.op"""
        rng = self.rng
        self.n = 0
        self.ext = set()
        self.exprs = []
        self.graph = True
        try:
            ats = ["i1", "i1"] + [rng.choice(INT_T + FLOAT_T) for _ in range(rng.randint(2, 5))]
            args = [f"%a{i}" for i in range(len(ats))]
            pool: dict[str, list[str]] = {}
            for a, t in zip(args, ats):
                pool.setdefault(t, []).append(a)
            L: list[str] = []
            for _ in range(rng.randint(3, 10)):
                self.stmt(pool, L, "  ", 0)
            self.flush(pool, {t: [a for a in args if a in vs] for t, vs in pool.items()}, L, 0, "  ", 0.9)
        finally:
            self.graph = False
        head = f'  {", ".join(args)} = "test.op"() : () -> ({", ".join(ats)})'
        if rng.random() < 0.5:
            return "\n".join(["builtin.module {", "builtin.module {", head, *L, "}", "}\n"])
        return "\n".join(["builtin.module {", head, *L, "}\n"])


# ---------------------------------------------------------------------------------------------
# OrderGen: the programs of the other generators with the operations of their blocks in another order
# ---------------------------------------------------------------------------------------------

class OrderGen:
    """xDSL keeps the operations of a block in a doubly linked list and its verifier does not look at the order in
    which definitions and uses appear in it: the parser resolves forward references, `verify()` accepts a user that
    precedes its producer (in the body of a builtin.module — a graph region — this is legal MLIR as well).  Code that
    walks a block once in one direction, or that edits the list around the operation it rewrites, is only exercised
    by the corpus in definition-before-use order and with the rewritten operation somewhere in the middle.  This
    family takes a program of CfgGen / TypedGen (function bodies, nested scf regions) or TypedGen.program_graph
    (module bodies, also nested) and hands it to `reorder` (below), which permutes / reverses the operations of
    blocks or moves one operation to the first / last movable position.  `program()` returns the base program; the
    re-ordering is an IR-level edit applied where the module is validated (c17._validate)."""

    def __init__(self, rng: random.Random):
        self.rng = rng
        self.cfg = CfgGen(rng)
        self.typed = TypedGen(rng)

    def program(self) -> str:
        r = self.rng.random()
        if r < 0.4:
            return self.typed.program()
        if r < 0.7:
            return self.typed.program_graph()
        return self.cfg.program()


ORDER_MODES = ["first", "before-last", "reverse", "permute", "permute-all"]


def reorder(text: str, seed: int, parse: Any, modes: list[str] | None = None, kinds: list[str] | None = None,
            n_edits: int = 1, pick: int | None = None, strict: bool = False) -> tuple[str | None, list[str]]:
    """re-order operations inside blocks of a fresh parse of `text` (the last operation of a block stays where it is
    unless the block is the body of a builtin.module, which has no terminator).  modes: `first` = one operation
    (of one of `kinds`, the operation kinds the pass under test rewrites, when given and present) becomes the first
    operation of its block; `before-last` = it becomes the last movable one; `reverse` / `permute` = the movable
    operations of one block are reversed / shuffled; `permute-all` = those of every block are shuffled.  With
    `pick` = k the moved operation is the k-th candidate of an enumeration that depends on `seed` only (operations of
    `kinds` first, among them first those none of whose operands is produced by an operation of `kinds`: the pass can
    rewrite them without rewriting anything else before); no edit if there are not that many candidates.
    strict=True (variants of corpus modules): only the body of a builtin.module — a graph region — is re-ordered
    freely; in every other block the new order keeps each definition before its users (also those nested in the regions
    of a later operation), so the result is as dominance-valid as the module it was made from: `first` / `before-last`
    move the operation to the earliest / latest such position, `permute` / `reverse` produce a random / the most
    reversed topological order.  Returns
    (generic text | None, edits done); whether the result is an input xDSL accepts is decided by the caller
    (`input_ok`: parser, verifier, round trip)."""
    from xdsl.dialects.builtin import ModuleOp
    from xdsl.printer import Printer

    rng = random.Random(seed)
    try:
        m = parse(text)
    except Exception:  # noqa: BLE001
        return None, []
    done: list[str] = []

    def movable(b: Any) -> list[Any]:
        ops = list(b.ops)
        par = b.parent.parent if b.parent is not None else None
        return ops if isinstance(par, ModuleOp) else ops[:-1]

    def is_graph(b: Any) -> bool:
        return isinstance(b.parent.parent if b.parent is not None else None, ModuleOp)

    def deps(b: Any, ops: list[Any]) -> dict[int, set[int]]:
        """id(op) -> ids of the operations of `ops` (one block) whose results it, or an operation nested in it, uses"""
        here = {id(o) for o in ops}
        out: dict[int, set[int]] = {}
        for o in ops:
            d: set[int] = set()
            for x in o.walk():
                for v in x.operands:
                    w = getattr(v, "owner", None)
                    if id(w) in here and w is not o:
                        d.add(id(w))
            out[id(o)] = d
        return out

    def topo(b: Any, ops: list[Any], prefer: Any) -> list[Any]:
        """a topological order of `ops` w.r.t. deps; `prefer(ready list)` chooses the next operation"""
        d = deps(b, ops)
        placed: set[int] = set()
        rest = list(ops)
        out: list[Any] = []
        while rest:
            ready = [o for o in rest if d[id(o)] <= placed]
            if not ready:      # a dependence cycle (the module was not in dominance order): keep what is left as it is
                out.extend(rest)
                break
            o = prefer(ready)
            out.append(o)
            placed.add(id(o))
            rest = [x for x in rest if x is not o]
        return out

    def place(b: Any, o: Any, mode: str) -> list[Any]:
        ops = movable(b)
        others = [x for x in ops if x is not o]
        if not strict or is_graph(b):
            return [o, *others] if mode == "first" else [*others, o]
        d = deps(b, ops)
        if mode == "first":
            last_dep = max([i for i, x in enumerate(others) if id(x) in d[id(o)]], default=-1)
            return [*others[:last_dep + 1], o, *others[last_dep + 1:]]
        first_user = min([i for i, x in enumerate(others) if id(o) in d[id(x)]], default=len(others))
        return [*others[:first_user], o, *others[first_user:]]

    def rebuild(b: Any, new: list[Any]) -> None:
        old = movable(b)
        anchor = None if len(old) == len(list(b.ops)) else b.last_op
        for o in old:
            o.detach()
        if anchor is None:
            b.add_ops(new)
        else:
            b.insert_ops_before(new, anchor)

    try:
        for _ in range(n_edits * 3):
            if len(done) >= n_edits:
                break
            mode = rng.choice(modes or ORDER_MODES)
            blocks = [b for o in m.walk() for r in o.regions for b in r.blocks if len(movable(b)) >= 2]
            if not blocks:
                break
            if mode == "permute-all":
                for b in blocks:
                    new = movable(b)
                    if strict and not is_graph(b):
                        new = topo(b, new, rng.choice)
                    else:
                        rng.shuffle(new)
                    rebuild(b, new)
                done.append("order:permute-all")
                continue
            if mode in ("first", "before-last"):
                cands = [(b, o) for b in blocks for o in movable(b)]
                hot = [(b, o) for b, o in cands if kinds and o.name in kinds]
                pool = [(b, o) for b, o in (hot or cands)
                        if any(x is not y for x, y in zip(place(b, o, mode), movable(b)))]
                if not pool:
                    continue
                if pick is None:
                    b, o = rng.choice(pool)
                else:
                    rng.shuffle(pool)
                    pool.sort(key=lambda bo: any(getattr(v.owner, "name", None) in (kinds or ()) for v in bo[1].operands))
                    if pick >= len(pool):
                        break
                    b, o = pool[pick]
                rebuild(b, place(b, o, mode))
                done.append(f"order:{mode}:{o.name}" if hot else f"order:{mode}")
                continue
            big = [b for b in blocks if len(movable(b)) >= 3] or blocks
            b = rng.choice(big)
            new = movable(b)
            first = list(new)
            if strict and not is_graph(b):
                new = topo(b, new, (lambda ready: ready[-1]) if mode == "reverse" else rng.choice)
            elif mode == "reverse":
                new.reverse()
            else:
                for _k in range(4):
                    rng.shuffle(new)
                    if any(x is not y for x, y in zip(first, new)):
                        break
            if all(x is y for x, y in zip(first, new)):
                continue
            rebuild(b, new)
            done.append(f"order:{mode}")
    except Exception:  # noqa: BLE001
        return None, done
    if not done:
        return None, done
    buf = io.StringIO()
    try:
        Printer(stream=buf, print_generic_format=True).print_op(m)
    except Exception:  # noqa: BLE001
        return None, done
    return buf.getvalue(), done


# ---------------------------------------------------------------------------------------------
# near-miss mutation of a module (runs on real xDSL objects; used inside worker processes)
# ---------------------------------------------------------------------------------------------

def _region_dominators(region: Any) -> dict[int, set[int]]:
    """id(block) -> ids of the blocks that dominate it (itself included); only reachable blocks are keys"""
    blocks = list(region.blocks)
    if not blocks:
        return {}
    succ: dict[int, list[Any]] = {}
    for b in blocks:
        last = b.last_op
        succ[id(b)] = [s for s in last.successors if s.parent is region] if last is not None else []
    entry = blocks[0]
    reach = {id(entry)}
    work = [entry]
    byid = {id(b): b for b in blocks}
    while work:
        x = work.pop()
        for y in succ[id(x)]:
            if id(y) not in reach:
                reach.add(id(y))
                work.append(y)
    preds: dict[int, list[int]] = {i: [] for i in reach}
    for i in reach:
        for y in succ[i]:
            preds[id(y)].append(i)
    dom = {i: set(reach) for i in reach}
    dom[id(entry)] = {id(entry)}
    changed = True
    while changed:
        changed = False
        for b in blocks:
            i = id(b)
            if i not in reach or b is entry:
                continue
            new = (set.intersection(*(dom[p] for p in preds[i])) if preds[i] else set()) | {i}
            if new != dom[i]:
                dom[i] = new
                changed = True
    _ = byid
    return dom


def visible_before(op: Any, domcache: dict[int, dict[int, set[int]]]) -> list[Any]:
    """SSA values that may be used by an operation inserted right before `op` (definitions that dominate
    that point): earlier operations of the block, its arguments, everything defined in strictly dominating
    blocks of the region, and the same for the enclosing operation unless it is IsolatedFromAbove."""
    from xdsl.traits import IsolatedFromAbove

    vals: list[Any] = []
    cur = op
    while cur is not None:
        blk = cur.parent
        if blk is None:
            break
        o = cur.prev_op
        while o is not None:
            vals.extend(o.results)
            o = o.prev_op
        vals.extend(blk.args)
        reg = blk.parent
        if reg is None:
            break
        if reg.first_block is not reg.last_block:
            dom = domcache.get(id(reg))
            if dom is None:
                dom = domcache[id(reg)] = _region_dominators(reg)
            mine = dom.get(id(blk))
            if mine:
                for b in reg.blocks:
                    if b is not blk and id(b) in mine:
                        vals.extend(b.args)
                        for o in b.ops:
                            vals.extend(o.results)
        par = reg.parent
        if par is None:
            break
        try:
            if par.has_trait(IsolatedFromAbove):
                break
        except Exception:  # noqa: BLE001
            break
        cur = par
    return vals


_HOSTS = ("func.func", "builtin.module", "scf.", "affine.", "test.", "builtin.unregistered")


def foreign_ok(block: Any) -> bool:
    """may an observer (`test.op`, an operation of no dialect of the module) be placed in this block?  Only where a
    foreign operation is plausible: directly in a function / structured-control-flow / test region, or in a block in
    which the corpus author already placed a test or unregistered operation.  (Bodies of domain-specific operations
    — stencil.apply, linalg.generic, pdl.pattern … — are left to the operations of their dialects: passes of those
    dialects reject or mishandle anything else, which is not what this family is after.)"""
    par = block.parent.parent if block.parent is not None else None
    if par is not None and par.name.startswith(_HOSTS):
        return True
    return any(o.name.startswith(("test.", "builtin.unregistered")) for o in block.ops)


def mutate(text: str, seed: int, n_mut: int, parse: Any) -> tuple[str | None, list[str]]:
    """apply up to n_mut guard-dimension edits to a fresh parse of `text`; (generic text | None, edit kinds)"""
    from xdsl.dialects.builtin import IndexType, IntegerAttr, IntegerType, ModuleOp
    from xdsl.dialects.test import TestOp
    from xdsl.printer import Printer

    rng = random.Random(seed)
    try:
        m = parse(text)
    except Exception:  # noqa: BLE001
        return None, []
    done: list[str] = []
    for _ in range(n_mut * 4):
        if len(done) >= n_mut:
            break
        ops = [o for o in m.walk() if not isinstance(o, ModuleOp) and o.parent is not None]
        if not ops:
            break
        kind = rng.choice(["add-use", "add-use", "const", "const", "subst", "subst", "swap", "dup", "copy"])
        domcache: dict[int, dict[int, set[int]]] = {}
        try:
            if kind == "add-use":
                hosts = [o for o in ops if foreign_ok(o.parent)]
                if not hosts:
                    continue
                at = rng.choice(hosts)
                vis = visible_before(at, domcache)
                if not vis:
                    continue
                # prefer block arguments and values defined in other blocks (uses that cross a block boundary)
                far = [v for v in vis if getattr(v, "owner", None) is not at.parent and
                       getattr(getattr(v, "owner", None), "parent", None) is not at.parent]
                v = rng.choice(far) if far and rng.random() < 0.6 else rng.choice(vis)
                at.parent.insert_op_before(TestOp(operands=[v]), at)
            elif kind == "const":
                cands = []
                for o in ops:
                    for where in (o.properties, o.attributes):
                        for k, a in where.items():
                            if isinstance(a, IntegerAttr) and isinstance(a.type, (IntegerType, IndexType)):
                                cands.append((o, where, k, a))
                if not cands:
                    continue
                o, where, k, a = rng.choice(cands)
                old = a.value.data
                w = a.type.width.data if isinstance(a.type, IntegerType) else 64
                choices = [0, 1, -1, 2, old + 1, old - 1] if w > 1 else [0, 1, -1]
                new = rng.choice([c for c in choices if c != old] or [0])
                where[k] = IntegerAttr(new, a.type)
            elif kind in ("subst", "swap"):
                cands = [o for o in ops if len(o.operands) >= (2 if kind == "swap" else 1)]
                if not cands:
                    continue
                o = rng.choice(cands)
                i = rng.randrange(len(o.operands))
                if kind == "swap":
                    js = [j for j in range(len(o.operands)) if j != i and o.operands[j].type == o.operands[i].type
                          and o.operands[j] is not o.operands[i]]
                    if not js:
                        continue
                    j = rng.choice(js)
                    a, b = o.operands[i], o.operands[j]
                    o.operands[i], o.operands[j] = b, a
                else:
                    cur = o.operands[i]
                    vis = [v for v in visible_before(o, domcache) if v.type == cur.type and v is not cur]
                    if not vis:
                        continue
                    same = [v for v in vis if any(v is x for x in o.operands)]
                    o.operands[i] = rng.choice(same) if same and rng.random() < 0.4 else rng.choice(vis)
            elif kind == "copy":
                # the same operation once more at another place where its operands are visible (a sibling region,
                # a nested region, another block): redundancy that must not be merged across scopes
                cands = [o for o in ops if not o.regions and not o.successors and o.results and o.parent is not None]
                if not cands:
                    continue
                o = rng.choice(cands)
                placed = False
                for at in rng.sample(ops, min(8, len(ops))):
                    if at is o or at.parent is None:
                        continue
                    vis = {id(v) for v in visible_before(at, domcache)}
                    if all(id(v) in vis for v in o.operands):
                        c = o.clone()
                        at.parent.insert_op_before(c, at)
                        if foreign_ok(at.parent):
                            at.parent.insert_op_before(TestOp(operands=[c.results[0]]), at)
                        placed = True
                        break
                if not placed:
                    continue
            else:  # dup
                cands = [o for o in ops if not o.regions and not o.successors and o.results and o.parent is not None]
                if not cands:
                    continue
                o = rng.choice(cands)
                c = o.clone()
                o.parent.insert_op_after(c, o)
                if rng.random() < 0.7 and foreign_ok(c.parent):
                    for r in c.results:
                        c.parent.insert_op_after(TestOp(operands=[r]), c)
                        break
            done.append(kind)
        except Exception:  # noqa: BLE001
            return None, done
    if not done:
        return None, done
    buf = io.StringIO()
    try:
        Printer(stream=buf, print_generic_format=True).print_op(m)
    except Exception:  # noqa: BLE001
        return None, done
    return buf.getvalue(), done
