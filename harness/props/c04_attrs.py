"""C04 family `attrs`: modules built through the API whose operations carry BUILTIN attribute and
type payloads drawn from a boundary-value catalogue (and random ones from the C06 generator), in
every place the generic form prints an attribute: attribute dictionary, properties, result /
block-argument types — on registered (`test.op`) and unregistered operations, at several nesting
depths (the printer's indentation level differs), under operation names of several shapes.

The property's round-trip oracle (print generic → parse in a fresh Context → canonical form equal
→ print again equal text) is what is checked here: C06 proves/validates the literal layer attribute
by attribute, this family makes sure whole modules carrying such payloads are seen by C04 too.

Recipes are those of `props/c06_values.py` (`V.build`): JSON lists, floats as hex doubles.

spec = {"ops": [OP…]}
OP   = {"name": str, "attrs": [[key, R]…], "props": [[key, R]…], "res": [T…], "args": [T…],
        "body": [OP…] | absent, "use": bool}
  name "test.op" / "test.termop" / "builtin.module" are the registered classes, any other name is an
  unregistered operation of that name.  `body` = one region with one block (arguments `args`).
"""
from __future__ import annotations

import math
from typing import Any

from props import c06_values as V

d2h = V.d2h
hx = V.hx

# ---------------------------------------------------------------------------------------------
# spec → IR
# ---------------------------------------------------------------------------------------------


def build(spec: dict[str, Any]):
    from xdsl.dialects.builtin import ModuleOp, UnregisteredOp
    from xdsl.dialects.test import TestOp, TestTermOp
    from xdsl.ir import Block, Region

    def mk(o: dict[str, Any], prev: list[Any]):
        name = o.get("name", "u.op")
        attrs = {k: V.build(r) for k, r in o.get("attrs", [])}
        props = {k: V.build(r) for k, r in o.get("props", [])}
        res = [V.build(t) for t in o.get("res", [])]
        regions = []
        if "body" in o:
            blk = Block(arg_types=[V.build(t) for t in o.get("args", [])])
            last: list[Any] = list(blk.args)
            for c in o["body"]:
                op = mk(c, last)
                blk.add_op(op)
                last = list(op.results)
            if name == "test.op" and not (blk.ops and blk.last_op is not None and blk.last_op.name == "test.termop"):
                blk.add_op(TestTermOp.create())
            regions.append(Region(blk))
        operands = prev if o.get("use") else []
        if name == "builtin.module":
            m = ModuleOp(regions[0] if regions else Region(Block()))
            m.attributes.update(attrs)
            return m
        if name == "test.op":
            return TestOp.create(operands=operands, result_types=res, properties=props, attributes=attrs, regions=regions)
        if name == "test.termop":
            return TestTermOp.create(operands=operands, result_types=res, properties=props, attributes=attrs, regions=regions)
        return UnregisteredOp.with_name(name).create(operands=operands, result_types=res, properties=props,
                                                      attributes=attrs, regions=regions)

    ops = []
    prev: list[Any] = []
    for o in spec["ops"]:
        op = mk(o, prev)
        prev = list(op.results)
        ops.append(op)
    return ModuleOp(ops)


# ---------------------------------------------------------------------------------------------
# the boundary-value catalogue (deterministic: the same on every run)
# ---------------------------------------------------------------------------------------------

F64_VALUES = [
    0.0, -0.0, 5e-324, 2.2250738585072009e-308, 2.2250738585072014e-308, 1.7976931348623157e308, -1.7976931348623157e308,
    math.inf, -math.inf, math.nan, 1.0, -1.5, 0.1, 1 / 3, 1e-5, 1e-7, 123456.0, 999999.0, 1000000.0, 1000001.0,
    1234567.0, -1234567.0, 2500000.0, 16777216.0, 16777217.0, 299792458.0, float(2**31), float(2**32), float(2**32 + 1),
    float(2**40), 123456789012.0, 1e15, float(2**53), float(2**53 + 2), 1e16, 99999999999999984.0, 1e17, 1e20, 1e22,
    float(2**63), float(2**64), 1.5e300, 3.4028234663852886e38, 1.401298464324817e-45, 65504.0, 65520.0, 448.0,
]
NAN_PAYLOADS = ["7ff0000000000001", "fff8000000000000", "7ff4000000000000", "7fffffffffffffff"]
FLOAT_TYPES = ["f64", "f32", "f16", "bf16"]


def _int_range(sgn: str, w: int) -> tuple[int, int]:
    lo = -(1 << (w - 1)) if sgn in ("i", "si") else 0
    hi = (1 << w) - 1 if sgn in ("i", "ui") else (1 << (w - 1)) - 1
    return lo, hi


INT_TYPES = [("i", 1), ("i", 2), ("i", 7), ("i", 8), ("i", 16), ("i", 32), ("i", 33), ("i", 64), ("i", 65), ("i", 128),
             ("si", 1), ("si", 8), ("si", 32), ("si", 64), ("ui", 1), ("ui", 8), ("ui", 32), ("ui", 64)]


def int_boundaries(sgn: str, w: int) -> list[int]:
    lo, hi = _int_range(sgn, w)
    c = {lo, hi, 0, 1, -1, lo + 1, hi - 1, (1 << (w - 1)) - 1, 1 << (w - 1), -(1 << (w - 1)), 2**32, 2**53, 10, 255, 256}
    return sorted(v for v in c if lo <= v <= hi)


STRINGS = ["", "a", 'q"q', "back\\slash", "a\\", "line\nbreak", "two\n  indented\n\nlines", "tab\there", "\x00", "\x7f", "\x1f",
           "é", "名前", "\U0001f600", "\\22", "\\n", "%x", "^bb0", "// c", "{-# x #-}", 'x"]>', "->", "a, b", " lead", "trail ",
           "0x1F", "1.0", "true", "loc(x)", "dense<1>", "\r\n", "\"", "\\\""]
KEYS = ["a", "sym_name", "x.y", "_", "unit", "true", "loc", "f32", "a b", "é", "", "0", "a$b", "x-y", 'q"', "i32", "dense",
        "attributes", "a\nb", "\\"]
BYTES = ["ff", "80", "c328", "00ff", "", "616263", "c3a9"]


def constructible(r: list) -> bool:
    """the public constructors accept the recipe (what they refuse is outside the quantifier)"""
    try:
        V.build(r)
        return True
    except Exception:  # noqa: BLE001
        return False


def catalogue_attrs() -> list[list]:
    """attribute recipes (non-types)"""
    return [r for r in _catalogue_attrs() if constructible(r)]


def _catalogue_attrs() -> list[list]:
    out: list[list] = []
    for sgn, w in INT_TYPES:
        for v in int_boundaries(sgn, w):
            out.append(["int", sgn, w, v])
    for v in (0, 1, -1, 2**31, 2**32, 2**53, 2**63 - 1, -2**63, 2**63, 2**64, -2**64 - 1, 10**30):
        out.append(["int", "index", 0, v])
    for t in FLOAT_TYPES:
        for x in F64_VALUES:
            out.append(["float", t, d2h(x)])
    for h in NAN_PAYLOADS:
        out.append(["float", "f64", h])
    for t in ("tf32", "f8E5M2", "f8E4M3FN", "f80", "f128"):
        for x in (0.0, -0.0, 1.0, -1.5, 0.1, 448.0, 1234567.0, math.inf, math.nan):
            out.append(["float", t, d2h(x)])
    # dense / array of the same values: together (no splat), alone (splat), zero-rank, empty
    for t in FLOAT_TYPES:
        # values the type can hold (struct.pack refuses finite doubles beyond the range of f32/f16)
        hs = [d2h(x) for x in F64_VALUES if constructible(["float", t, d2h(x)])]
        out.append(["dense", "tensor", [len(hs)], ["f", t], hs])
        out.append(["densearr", ["f", t], hs])
        for x in (1234567.0, float(2**53), -0.0, math.inf, math.nan, 0.1, 5e-324):
            out.append(["dense", "tensor", [3], ["f", t], [d2h(x)]])
            out.append(["dense", "vector", [], ["f", t], [d2h(x)]])
            out.append(["densearr", ["f", t], [d2h(x)]])
        out.append(["dense", "tensor", [2], ["f", t], [d2h(0.0), d2h(-0.0)]])
        out.append(["dense", "tensor", [0], ["f", t], []])
        out.append(["dense", "tensor", [2], ["complex", ["f", t]], [[d2h(1234567.0), d2h(-0.0)], [d2h(math.inf), d2h(0.1)]]])
    out.append(["densearr", ["f", "f64"], []])
    # more than 100 elements: the hexadecimal string form
    out.append(["dense", "tensor", [101], ["f", "f64"], [d2h(F64_VALUES[i % len(F64_VALUES)]) for i in range(101)]])
    out.append(["dense", "tensor", [101], ["i", 32], [(-1) ** i * i * 21474836 for i in range(101)]])
    for sgn, w in INT_TYPES:
        vals = int_boundaries(sgn, w)
        out.append(["dense", "tensor", [len(vals)], [sgn, w], vals])
        out.append(["dense", "vector", [2], [sgn, w], [vals[0]]])
        if (w + 7) // 8 in (1, 2, 4, 8):
            out.append(["densearr", [sgn, w], vals])
    out.append(["dense", "tensor", [3], ["index"], [0, -2**63, 2**63 - 1]])
    out.append(["dense", "tensor", [2], ["complex", ["i", 8]], [[-128, 127], [0, -1]]])
    for s in STRINGS:
        out.append(["str", hx(s)])
    for b in BYTES:
        out.append(["bytes", b])
    out.append(["unit"])
    for names in (["foo"], ["a.b$c", "_x1"], ["with space"], ["é", 'q"'], ["0"], ["", "x"]):
        out.append(["symref", [hx(n) for n in names]])
    # containers: empty, flat, nested, with payloads that need care at every depth
    leaf = [["float", "f64", d2h(1234567.0)], ["int", "i", 64, -2**63], ["str", hx('q"\\\n')], ["unit"],
            ["dense", "tensor", [2], ["f", "f64"], [d2h(float(2**53)), d2h(0.1)]], ["densearr", ["f", "f64"], [d2h(16777217.0)]]]
    out.append(["array", []])
    out.append(["dict", []])
    out.append(["array", leaf])
    out.append(["dict", [[hx(k), leaf[i % len(leaf)]] for i, k in enumerate(KEYS)]])
    out.append(["array", [["array", [["array", leaf[:3]], ["dict", [[hx("k"), ["array", leaf[3:]]]]]]], ["array", []], ["dict", []]]])
    out.append(["dict", [[hx("outer"), ["dict", [[hx("inner"), ["array", [["dict", [[hx("f"), leaf[0]]]], leaf[4]]]]]]]]])
    out.append(["affine_map", 2, 1, [["+", ["d", 0], ["*", ["s", 0], ["c", -4]]], ["mod", ["d", 1], ["c", 8]], ["c", 2**40]]])
    out.append(["affine_map", 0, 0, []])
    out.append(["affine_set", 2, 1, [["ge", ["+", ["d", 0], ["c", -13]]], ["eq", ["floordiv", ["d", 1], ["c", 3]]]]])
    out.append(["strided", [1, None, -3, 2**40], None])
    out.append(["strided", [], 0])
    out.append(["opaque", hx("d"), hx('v"\\\n'), ["fty", "f64"]])
    out.append(["opaque", hx("dialect"), hx(""), None])
    out.append(["loc", "unknown"])
    out.append(["loc", "flc", hx('f"ile\n.mlir'), 2**31, 80])
    out.append(["loc", "callsite", ["loc", "name", hx("n"), ["loc", "unknown"]], ["loc", "flc", hx("a"), 0, 0]])
    out.append(["loc", "fused", [["loc", "unknown"], ["loc", "name", hx("é"), None]], ["dict", [[hx("k"), ["unit"]]]]])
    out.append(["intdata", 2**100])
    out.append(["intdata", -5])
    out.append(["signedness", "UNSIGNED"])
    for x in (1234567.0, 1e20, 1e-5, math.inf, math.nan, -0.0, float(2**53)):
        out.append(["floatdata", d2h(x)])
    return out


def catalogue_types() -> list[list]:
    return [t for t in _catalogue_types() if constructible(t)]


def _catalogue_types() -> list[list]:
    t: list[list] = []
    for sgn in ("i", "si", "ui"):
        for w in (0, 1, 8, 32, 64, 65, 2**20):
            t.append(["ity", sgn, w])
    t.append(["index"])
    for f in V.FLOAT_TYPES_MAIN + V.FLOAT_TYPES_SMALL + ["f80", "f128", "f8E8M0FNU"]:
        t.append(["fty", f])
    t += [["nonety"], ["complexty", ["fty", "f64"]], ["complexty", ["ity", "i", 1]], ["tuplety", []],
          ["tuplety", [["ity", "i", 32], ["tuplety", [["fty", "f16"]]]]],
          ["functy", [], []], ["functy", [["ity", "i", 32]], [["functy", [], [["index"]]]]],
          ["functy", [["tuplety", []]], [["ity", "i", 1], ["fty", "f64"]]],
          ["vectorty", ["fty", "f32"], [4], [0]], ["vectorty", ["ity", "i", 8], [2, 4], [0, 1]], ["vectorty", ["index"], [], []],
          ["vectorty", ["fty", "f64"], [0], [0]],
          ["tensorty", ["fty", "f64"], [], None], ["tensorty", ["ity", "i", 32], [2, -1, 0, 2**33], None],
          ["tensorty", ["fty", "f32"], [2], ["str", hx('enc"\n')]], ["tensorty", ["fty", "f32"], [2], ["dict", [[hx("a"), ["float", "f64", d2h(1234567.0)]]]]],
          ["tensorty", ["tensorty", ["ity", "i", 1], [1], None], [3], ["array", [["int", "i", 32, -1]]]],
          ["utensorty", ["fty", "bf16"]],
          ["memrefty", ["fty", "f32"], [2, -1], None, None], ["memrefty", ["ity", "i", 8], [], ["strided", [1, None], None], ["int", "i", 64, 1]],
          ["memrefty", ["index"], [128, 0], ["affine_map", 2, 0, [["d", 1], ["d", 0]]], ["str", hx("shared")]],
          ["memrefty", ["fty", "f64"], [1], None, ["int", "index", 0, 2]],
          ["umemrefty", ["fty", "f32"], None], ["umemrefty", ["ity", "i", 32], ["int", "i", 64, 2]]]
    return t


# operation names: dotted (the normal case), without a dialect prefix, equal to the short name of an
# operation of an enclosing dialect (`op`/`termop` under test.*, `module` under builtin.*), several dots
UNREG_NAMES = ["u.op", "op", "termop", "module", "unregistered", "d.e.f", "test.unknown", "builtin.nope", "a$b.c-d", "x_1.y2",
               "func", "return"]


def _place(recipes: list[list], types: list[list], name: str, tag: str) -> dict[str, Any]:
    o: dict[str, Any] = {"name": name, "attrs": [[f"{tag}{i}", r] for i, r in enumerate(recipes)]}
    if name == "test.op":
        o["props"] = [[f"prop{i + 1}", r] for i, r in enumerate(recipes[:3])]
    elif name not in ("builtin.module",):
        o["props"] = [[f"p{i}", r] for i, r in enumerate(recipes)]
    if name != "builtin.module":
        o["res"] = list(types)
    return o


def spec_of(recipes: list[list], types: list[list], names: list[str]) -> dict[str, Any]:
    """the recipes on an unregistered operation at top level, and again three levels down inside
    test.op / unregistered / builtin.module regions (other indentation, other enclosing dialects), the
    types as result and block-argument types; `names` are the unregistered operation names used"""
    n0, n1, n2 = (names * 3)[:3]
    top = _place(recipes, types, n0, "a")
    inner_reg = _place(recipes[:3] + recipes[3::2], types, "test.op", "t")
    inner_unr = _place(recipes[1::2] + recipes[:1], types, n1, "u")
    deep = {"name": "test.op", "args": list(types), "body": [
        {"name": n2, "args": list(types[:2]), "use": True, "body": [
            {"name": "builtin.module", "attrs": [["m0", recipes[0]]] if recipes else [], "body": [inner_reg, inner_unr]}]}]}
    return {"ops": [top, deep]}


def catalogue_specs(chunk: int = 12) -> list[dict[str, Any]]:
    attrs, types = catalogue_attrs(), catalogue_types()
    specs = []
    nchunks = (len(attrs) + chunk - 1) // chunk
    for k in range(nchunks):
        part = attrs[k * chunk:(k + 1) * chunk]
        tpart = types[(k * 3) % len(types):][:3]
        names = [UNREG_NAMES[(k + j) % len(UNREG_NAMES)] for j in range(3)]
        specs.append(spec_of(part, tpart, names))
    # every type once more as attribute value
    for k in range(0, len(types), chunk):
        specs.append(spec_of(types[k:k + chunk], types[k:k + 3], ["u.op"]))
    # every operation name alone, at top level and below each kind of parent
    for n in UNREG_NAMES:
        one = {"name": n, "attrs": [["k", ["unit"]]], "res": [["ity", "i", 32]]}
        specs.append({"ops": [one, {"name": "test.op", "body": [one, {"name": "builtin.module", "body": [one]},
                                                              {"name": "u.wrap", "body": [one, {"name": n, "body": [one]}]}]}]})
    # attribute-dictionary keys of every shape
    specs.append({"ops": [{"name": "u.op", "attrs": [[k, ["unit"]] for k in KEYS], "props": [[k, ["int", "i", 32, 1]] for k in KEYS]},
                          {"name": "test.op", "attrs": [[k, ["str", hx(k)]] for k in KEYS]}]})
    return specs


def random_spec(rng, gen: "V.Gen") -> dict[str, Any]:
    recipes = []
    for _ in range(rng.randint(1, 6)):
        r = gen.attr(2)
        while V.is_type_recipe(r) and rng.random() < 0.5:
            r = gen.attr(2)
        recipes.append(r)
    types = [gen.type(2) for _ in range(rng.randint(0, 3))]
    names = [rng.choice(UNREG_NAMES) for _ in range(3)]
    return spec_of(recipes, types, names)


# ---------------------------------------------------------------------------------------------
# shrinking: smaller candidate specs of a failing one
# ---------------------------------------------------------------------------------------------

def _walk(ops: list[dict[str, Any]], depth: int = 0, parents: tuple[str, ...] = ()):
    for o in ops:
        yield o, depth, parents
        if "body" in o:
            yield from _walk(o["body"], depth + 1, parents + (o.get("name", "u.op"),))


def _wrap(o: dict[str, Any], parents: tuple[str, ...]) -> dict[str, Any]:
    """`o` below the same chain of parent operations (bare)"""
    for p in reversed(parents):
        o = {"name": p, "body": [o]}
    return {"ops": [o]}


def sub_specs(spec: dict[str, Any]):
    """single operations (in place of their parents, then at top level), then single entries"""
    items = list(_walk(spec["ops"]))
    for o, _, parents in items:
        bare = {k: v for k, v in o.items() if k not in ("body", "use", "args")}
        if not (bare.get("attrs") or bare.get("props") or bare.get("res")) and bare.get("name", "u.op") in ("test.op", "builtin.module"):
            continue
        yield _wrap(bare, parents)
        yield {"ops": [bare]}
    for o, _, parents in items:
        name = o.get("name", "u.op")
        for field in ("attrs", "props"):
            for k, r in o.get(field, []):
                yield {"ops": [{"name": name, field: [[k, r]]}]}
                yield {"ops": [{"name": name, field: [["k" if field == "attrs" or name != "test.op" else "prop1", r]]}]}
                yield {"ops": [{"name": "u.op", "attrs": [["k", r]]}]}
                yield _wrap({"name": name, field: [[k, r]]}, parents)
        for t in o.get("res", []):
            yield {"ops": [{"name": "u.op", "res": [t]}]}
        for t in o.get("args", []):
            yield {"ops": [{"name": "u.op", "args": [t], "body": []}]}
        yield _wrap({"name": name}, parents)
        yield {"ops": [{"name": name}]}


def single_recipe(spec: dict[str, Any]):
    """the one payload recipe of a spec shrunk to a single entry, else None"""
    ops = list(_walk(spec["ops"]))
    found = []
    for o, _, _ in ops:
        for field in ("attrs", "props"):
            found += [r for _, r in o.get(field, [])]
        found += list(o.get("res", [])) + list(o.get("args", []))
    return found[0] if len(found) == 1 else None


def with_single_recipe(spec: dict[str, Any], r: list):
    """the single-entry spec with its payload replaced by `r` (None when the place cannot hold it)"""
    import copy

    out = copy.deepcopy(spec)
    for o, _, _ in _walk(out["ops"]):
        for field in ("attrs", "props"):
            for e in o.get(field, []):
                e[1] = r
                return out
        for field in ("res", "args"):
            if o.get(field):
                if not V.is_type_recipe(r):
                    return None
                o[field][0] = r
                return out
    return None


def payload_specs(spec: dict[str, Any]):
    """every distinct payload of the spec alone on a plain unregistered operation (attribute; types also as
    result type)"""
    seen: list[list] = []
    for o, _, _ in _walk(spec["ops"]):
        for field in ("attrs", "props"):
            for _, r in o.get(field, []):
                if r not in seen:
                    seen.append(r)
                    yield {"ops": [{"name": "u.op", "attrs": [["k", r]]}]}
        for t in list(o.get("res", [])) + list(o.get("args", [])):
            if ["T", t] not in seen:
                seen.append(["T", t])
                yield {"ops": [{"name": "u.op", "res": [t]}]}
