"""C23, float-format family: which LLVM type a value of each builtin float format is emitted with.

The main C23 stream works on the two formats the Lean model knows (f32, f64).  `convert_type` decides for
every type whether a module is translated at all and, if so, with which LLVM type; a module that *is*
translated has to compute in the format of its source type.  This family generates the same kind of
functions over all builtin float formats (f16, bf16, f32, f64; f80/f128 in fixed boundary programs):
values of a 16-bit format enter through bitcast/constants/sitofp/loads and leave through bitcast/fpext/
fcmp/select, so that the functions stay callable through ctypes.

Per program that convert_module translates (a raised exception = not translated = outside the statement):
  1. LLVM must accept the text;
  2. text oracle: the emitted signature is the source signature under the format table
     f16=half bf16=bfloat f32=float f64=double f80=x86_fp80 f128=fp128, and every float type named in
     the emitted function is the image of a float type of the source function;
  3. execution oracle: the JIT-compiled function agrees with the Python reference semantics of the
     source operations (IEEE half / bfloat16 arithmetic) on every input on which the source is defined.
The Lean model carries the float rows of convert_type (`FloatFmt.llvmName`, `convFloatTy`; theorems
`FloatFmt.llvmName_injective`, `convFloatTy_format`, `convFloatTy_injective` in XdslProofs/C23.lean): `table_check`
compares them with this file's table and with the real convert_type on each format.  Half/bfloat *arithmetic* is
not modelled in Lean; the execution oracle is observed per program.
"""
from __future__ import annotations

import copy
import json
import re
import subprocess
import sys
from typing import Any

from props import c23_gen, c23_ir, c23_ll
from props.c23_ir import FLOAT_FORMATS, Unsupported, prog_types, ref_run, sexp
from vp import core

FUEL = 300
LLVM_NAME = {k: v[2] for k, v in FLOAT_FORMATS.items()}
LLVM_FLOAT_WORDS = set(LLVM_NAME.values()) | {"ppc_fp128"}
EXEC_FORMATS = {"f16", "bf16", "f32", "f64"}          # formats with reference arithmetic
SIG_TYS = c23_gen.INT_TYS * 2 + ["f32", "f64"]
SITE_TYPE = "xdsl.backend.llvm.convert_type.convert_type"
SIG_TYPE = "a value is emitted with an LLVM type of another float format than its source type"
SIG_EXEC = "compiled code returns a different value than the source semantics (float-format family)"


def _f(x: float) -> int:
    return c23_ir.f64_bits(x)


def boundary_programs() -> list[list]:
    """fixed small functions, one group per float format"""
    out: list[list] = []
    for t in FLOAT_FORMATS:
        # select between two constants of the format, compare
        out.append(["func", ["ret", "i1"],
                    ["block", ["args", [0, "i1"]], ["fconst", 1, t, _f(1.0)], ["fconst", 2, t, _f(2.5)],
                     ["select", 3, t, 0, 1, 2], ["fcmp", 4, 4, t, 3, 2], ["ret", "i1", 4]]])
        # integer -> format, arithmetic, compare
        out.append(["func", ["ret", "i1"],
                    ["block", ["args", [0, "i8"], [1, "i8"]], ["cast", "sitofp", 2, "i8", t, 0, 0, 0],
                     ["cast", "sitofp", 3, "i8", t, 1, 0, 0], ["fbin", "fadd", 4, t, 2, 3], ["fcmp", 5, 2, t, 4, 2],
                     ["ret", "i1", 5]]])
        bits = FLOAT_FORMATS[t][0]
        if bits > 64:
            continue
        it = f"i{bits}"
        wide = [w for w in ("f32", "f64") if FLOAT_FORMATS[w][0] > bits]
        for w in wide:   # bit pattern -> format -> wider format (exact)
            out.append(["func", ["ret", w],
                        ["block", ["args", [0, it]], ["cast", "bitcast", 1, it, t, 0, 0, 0],
                         ["cast", "fpext", 2, t, w, 1, 0, 0], ["ret", w, 2]]])
        for k in ("fadd", "fmul", "fdiv"):   # arithmetic on bit patterns, result as a bit pattern
            out.append(["func", ["ret", it],
                        ["block", ["args", [0, it], [1, it]], ["cast", "bitcast", 2, it, t, 0, 0, 0],
                         ["cast", "bitcast", 3, it, t, 1, 0, 0], ["fbin", k, 4, t, 2, 3],
                         ["cast", "bitcast", 5, t, it, 4, 0, 0], ["ret", it, 5]]])
        # through memory and a block argument
        out.append(["func", ["ret", it],
                    ["block", ["args", [0, it]], ["cast", "bitcast", 1, it, t, 0, 0, 0], ["const", 2, "i32", 1],
                     ["alloca", 3, t, "i32", 2], ["store", t, 1, 3], ["load", 4, t, 3], ["br", [1, 4]]],
                    ["block", ["args", [5, t]], ["fneg", 6, t, 5], ["cast", "bitcast", 7, t, it, 6, 0, 0],
                     ["ret", it, 7]]])
    return out


def float_inputs(rng, ptys: list[str], n: int, prog: list) -> list[list[int]]:
    """inputs; integer parameters that are bitcast to a 16-bit float get that format's interesting patterns"""
    as_float: dict[int, str] = {}
    for b in prog[2:]:
        for op in b[2:]:
            if op[0] == "cast" and op[1] == "bitcast" and op[4] in FLOAT_FORMATS:
                as_float[op[5]] = op[4]
    ids = [i for i, _t in prog[2][1][1:]]
    out = []
    for _ in range(n):
        row = []
        for i, t in zip(ids, ptys):
            if i in as_float and as_float[i] in EXEC_FORMATS and rng.random() < 0.8:
                row.append(c23_gen.rand_float_bits(rng, as_float[i]))
            elif c23_ir.is_int(t):
                row.append(c23_gen.rand_int_bits(rng, c23_ir.width(t)))
            else:
                row.append(c23_gen.rand_float_bits(rng, t))
        out.append(row)
    return out


# ---------------------------------------------------------------------------------------------
# can this machine execute half / bfloat code?  (LLVM lowers the conversions to library calls that MCJIT
# cannot resolve unless the CPU has the instructions; an unresolved call kills the process, hence a probe
# in a child process, once per run)
# ---------------------------------------------------------------------------------------------
_PROBE = r'''
import ctypes, sys
import llvmlite.binding as llvm
llvm.initialize_native_target(); llvm.initialize_native_asmprinter()
T = sys.argv[1]
text = """define i16 @f(i16 %a, i32 %b) {
  %x = bitcast i16 %a to T
  %y = sitofp i32 %b to T
  %s = fadd T %x, %y
  %d = fdiv T %s, %y
  %w = fpext T %d to double
  %c = fcmp olt double %w, 1.0e+00
  %z = select i1 %c, T %s, T %d
  %r = bitcast T %z to i16
  ret i16 %r
}""".replace("T", T)
mod = llvm.parse_assembly(text); mod.verify()
tm = llvm.Target.from_default_triple().create_target_machine(
    cpu=llvm.get_host_cpu_name(), features=llvm.get_host_cpu_features().flatten(), opt=0)
ee = llvm.create_mcjit_compiler(mod, tm); ee.finalize_object()
fn = ctypes.CFUNCTYPE(ctypes.c_uint16, ctypes.c_uint16, ctypes.c_uint32)(ee.get_function_address("f"))
print("ok", fn(0, 3))
'''
_caps: dict[str, bool] = {}


def can_execute(llvm_ty: str) -> bool:
    if llvm_ty in ("float", "double"):
        return True
    if llvm_ty not in ("half", "bfloat"):
        return False
    if llvm_ty not in _caps:
        try:
            r = subprocess.run([sys.executable, "-c", _PROBE, llvm_ty], capture_output=True, text=True, timeout=60)
            _caps[llvm_ty] = r.returncode == 0 and r.stdout.startswith("ok")
        except Exception:  # noqa: BLE001
            _caps[llvm_ty] = False
    return _caps[llvm_ty]


# ---------------------------------------------------------------------------------------------
# text oracle
# ---------------------------------------------------------------------------------------------
_WORD = re.compile(r"[A-Za-z_][\w.]*")


def llvm_ty_name(t: str) -> str:
    return LLVM_NAME[t] if t in LLVM_NAME else t   # iN and ptr are spelled the same


def text_types(text: str) -> tuple[str | None, set[str]]:
    """(the `define` line's signature as 'ret(p1,p2)', float type words used in the function body/signature)"""
    sig, words, inside = None, set(), False
    for line in text.splitlines():
        if line.startswith("define "):
            inside = True
            m = re.match(r'define\s+(\S+)\s+@"?[\w.$-]+"?\((.*)\)', line)
            if m:
                ps = [p.strip().split(" ")[0] for p in m.group(2).split(",") if p.strip()]
                sig = f"{m.group(1)}({','.join(ps)})"
        if inside:
            code = re.sub(r'"(?:[^"\\]|\\.)*"', "", line.split(";")[0])
            words |= {w for w in _WORD.findall(code) if w in LLVM_FLOAT_WORDS}
            if line.startswith("}"):
                break
    return sig, words


def check_text(prog: list, text: str) -> str | None:
    ptys = [t for _, t in prog[2][1][1:]]
    want_sig = f"{llvm_ty_name(prog[1][1])}({','.join(llvm_ty_name(t) for t in ptys)})"
    sig, words = text_types(text)
    if sig is not None and sig != want_sig:
        return f"emitted signature {sig}, the source signature is {want_sig}"
    allowed = {LLVM_NAME[t] for t in prog_types(prog) if t in LLVM_NAME}
    extra = words - allowed
    if extra:
        src = sorted(t for t in prog_types(prog) if t in LLVM_NAME)
        return (f"the emitted function uses LLVM float type(s) {sorted(extra)}; the source function's float "
                f"types {src} correspond to {sorted(allowed)}")
    return None


# ---------------------------------------------------------------------------------------------
# one program
# ---------------------------------------------------------------------------------------------

class FmtCase:
    def __init__(self, prog0: list, inputs: list[list[int]]):
        self.prog0, self.inputs = prog0, inputs
        self.status, self.detail = "ok", ""
        self.text = self.llmod = self.prog = None
        from xdsl.utils.exceptions import VerifyException

        try:
            module = c23_ir.build(prog0)
            module.verify()
        except (VerifyException, Unsupported) as e:
            self.status, self.detail = "invalid", f"{type(e).__name__}: {e}"
            return
        self.prog = c23_ir.extract(module)
        self.ptys = [t for _, t in self.prog[2][1][1:]]
        self.rty = self.prog[1][1]
        from xdsl.backend.llvm.convert import convert_module

        try:
            self.text = str(convert_module(module, fallback_target_triple=None))
        except Exception as e:  # noqa: BLE001  (any exception = "not translated")
            self.status, self.detail = "not-translated", core.exc_name(e)
            return
        self.llmod, err = c23_ll.llvm_accepts(self.text)
        if self.llmod is None:
            self.status, self.detail = "rejected", err or ""


def check(c: FmtCase) -> dict[str, Any]:
    """verdict of one translated program: {"fail": (site, sig, desc, impl, expected, input)|None, counters}"""
    v: dict[str, Any] = {"fail": None, "nontrivial": 0, "jit_runs": 0, "exec": "no"}
    if c.status == "rejected":
        v["fail"] = ("xdsl.backend.llvm.convert.convert_module", "LLVM rejects the emitted IR",
                     "LLVM rejects the emitted IR: " + c.detail.splitlines()[0], c.text,
                     "IR accepted by LLVM's verifier", None)
        return v
    if c.status != "ok":
        return v
    bad_text = check_text(c.prog, c.text)
    _sig, words = text_types(c.text)
    src_ok = prog_types(c.prog) & set(FLOAT_FORMATS) <= EXEC_FORMATS
    runnable = src_ok and all(can_execute(w) for w in words) and all(t in c23_ll._CT for t in c.ptys + [c.rty])
    first_defined = None
    if runnable:
        v["exec"] = "yes"
        jit = None
        for inp in c.inputs:
            ref = ref_run(c.prog, inp, FUEL)
            if ref[0] != "val":
                continue
            if first_defined is None:
                first_defined = inp
            if jit is None:
                try:
                    jit = c23_ll.Jit(c.llmod, "f", c.ptys, c.rty, host=True)
                except Exception as e:  # noqa: BLE001
                    raise core.InfraError(f"MCJIT failed: {e}")
            got = jit.call(inp)
            v["jit_runs"] += 1
            v["nontrivial"] += 1
            if got != ref[2]:
                case_inp = [f"{t}:{b}" for t, b in zip(c.ptys, inp)]
                d = f"JIT-compiled function returns {got} on {case_inp}, the source operations prescribe {ref[2]}"
                if bad_text:
                    v["fail"] = (SITE_TYPE, SIG_TYPE, bad_text + "; " + d, f"val {c.rty}:{got}",
                                 f"val {c.rty}:{ref[2]}", inp)
                else:
                    v["fail"] = ("xdsl.backend.llvm.convert.convert_module", SIG_EXEC, d, f"val {c.rty}:{got}",
                                 f"val {c.rty}:{ref[2]}", inp)
                return v
    if bad_text:
        v["fail"] = (SITE_TYPE, SIG_TYPE, bad_text, c.text.split("\n\n", 1)[-1].strip()[:600],
                     "every value keeps its float format (or the module is not translated)", first_defined)
    return v


def evaluate(prog0: list, inputs: list[list[int]]) -> tuple[FmtCase, dict[str, Any]]:
    c = FmtCase(prog0, inputs)
    return c, check(c)


def shrink(prog0: list, inputs: list[list[int]], key) -> tuple[list, list[list[int]]]:
    from props import c23   # (variants of a program; imported late: c23 imports this module)

    def bad(p: list, ins: list[list[int]]) -> bool:
        try:
            _c, v = evaluate(p, ins)
        except Exception:  # noqa: BLE001
            return False
        return v["fail"] is not None and v["fail"][:2] == key

    steps, progress = 0, True
    while progress and steps < 80:
        progress = False
        for cand in c23.variants(prog0):
            steps += 1
            if steps >= 80:
                break
            if bad(cand, inputs):
                prog0, progress = cand, True
                break
    return prog0, inputs


def run_programs(ctx: core.Ctx, progs: list[list], n_inputs: int, label: str) -> None:
    for p0 in progs:
        ptys = [t for _, t in p0[2][1][1:]]
        c = FmtCase(p0, float_inputs(ctx.rng, ptys, n_inputs, p0))
        fl = sorted(t for t in prog_types(p0) if t in FLOAT_FORMATS and t not in ("f32", "f64"))
        tag = "+".join(fl) or "f32/f64"
        ctx.count(f"fmt.{label}.{tag}.{c.status}" + ((":" + c.detail) if c.status == "not-translated" else ""))
        if c.status == "invalid":
            ctx.extra.setdefault("invalid_generated", []).append(c.detail[:200])
            continue
        ctx.programs += 1
        v = check(c)
        ctx.ev(len(c.inputs))
        ctx.count("fmt.executed." + v["exec"])
        ctx.disagreements_checked += v["jit_runs"]
        if v["nontrivial"]:
            h = hash(json.dumps(["fmt", c.prog0]))
            for k in range(v["nontrivial"]):
                ctx.nt((h, k))
        if v["fail"] is not None:
            site, sig, desc, impl, exp, inp = v["fail"]
            p, ins = c.prog0, ([inp] if inp is not None else c.inputs[:1])
            already = any(f.kind == "failing-input" and (f.call_site, f.signature) == (site, sig) for f in ctx.failures)
            if not already and ctx.time_left() > 15:
                p, ins = shrink(p, ins, (site, sig))
                _c2, v2 = evaluate(p, ins)
                if v2["fail"] is not None:
                    site, sig, desc, impl, exp, _ = v2["fail"]
            ctx.fail(site, sig, {"family": "fmt", "program": p, "inputs": ins}, desc, impl, exp)


def table_check(ctx: core.Ctx) -> None:
    """the Lean model's float-format rows (`FloatFmt.llvmName`, `convFloatTy`) against this file's table and
    against what the real convert_type does with each builtin float type (translate to which name / reject)"""
    from xdsl.backend.llvm.convert_type import convert_type

    names = list(FLOAT_FORMATS)
    out = ctx.model("llvm", ["fmt " + n for n in names])
    for n, line in zip(names, out):
        ctx.ev()
        try:
            real = str(convert_type(c23_ir.xty(n)))
        except Exception:  # noqa: BLE001
            real = "not-translated"
        impl = f"{LLVM_NAME[n]} {real}"
        if line != impl:
            ctx.mismatch("correspondence:C23/llvm-floatty", {"family": "fmt-table", "type": n}, impl, line,
                         f"convert_type on {n}: `<LLVM type of the format> <emitted type>` differs from the model")


def run(ctx: core.Ctx, n_random: int, n_inputs: int) -> None:
    table_check(ctx)
    run_programs(ctx, copy.deepcopy(boundary_programs()), n_inputs, "fixed")
    pools = [["f16", "f32", "f64"]] * 3 + [["bf16", "f32", "f64"]] * 2 + [["f16", "bf16", "f32", "f64"]]
    done = 0
    while done < n_random and ctx.time_left() > 10:
        progs = []
        for _ in range(20):
            size = 0 if ctx.rng.random() < 0.3 else 1
            progs.append(c23_gen.Gen(ctx.rng, size, float_tys=ctx.rng.choice(pools), sig_tys=SIG_TYS).function())
        run_programs(ctx, progs, n_inputs, "random")
        done += 20
    ctx.extra["fmt_can_execute"] = dict(_caps)


def replay(ctx: core.Ctx, case: dict) -> int:
    if case.get("family") == "fmt-table":
        from xdsl.backend.llvm.convert_type import convert_type

        n = case["type"]
        try:
            real = str(convert_type(c23_ir.xty(n)))
        except Exception as e:  # noqa: BLE001
            real = "not-translated (" + core.exc_name(e) + ")"
        model = ctx.model("llvm", ["fmt " + n])[0]
        print(f"convert_type({n}) -> {real}; LLVM type of the format: {LLVM_NAME[n]}; Lean model: {model}")
        bad = real.split(" ")[0] not in ("not-translated", LLVM_NAME[n])
        print("property", "FAILS" if bad else "holds", "on this case")
        return 1 if bad else 0
    c, v = evaluate(case["program"], case["inputs"])
    print("float-format family")
    print("program (as extracted from the xDSL IR):", sexp(c.prog) if c.prog else None)
    print("backend status:", c.status, c.detail.splitlines()[0] if c.detail else "")
    if c.text:
        print("emitted LLVM IR:\n" + c.text)
        print("text oracle:", check_text(c.prog, c.text) or "types agree with the source formats")
    for inp in case["inputs"]:
        if c.prog:
            print("input", [f"{t}:{b}" for t, b in zip(c.ptys, inp)])
            try:
                print("  reference (source semantics):", ref_run(c.prog, inp, FUEL))
            except Unsupported as e:
                print("  reference: none (" + str(e) + ")")
    if v["fail"]:
        print("oracle:", v["fail"][2])
    bad = v["fail"] is not None
    print("property", "FAILS" if bad else "holds", "on this case")
    return 1 if bad else 0
