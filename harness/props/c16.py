"""C16 — control-flow and loop lowerings preserve program results.

Leg (A), translation validation: generated programs (nested scf.for / scf.if / scf.while, loops of
the shapes the individual passes match, affine.for/apply/load/store, symref programs) → the real
pass is applied to a clone → source and target are serialised to MiniIR and run on the Lean
reference semantics (`sem`) on random inputs (incl. zero-trip and negative ranges) → whenever the
source run is `ok`, the target run must give the same results and the same external-call log.

Leg (B), model + theorems: `lean/XdslModel/Loops.lean` (trip counts, range folding, flattening,
unrolling, scf.for → CFG, hoisting) with the theorems of `XdslProofs/C16.lean`; correspondence: the
bounds / trip counts / decisions of the model are compared with what the real passes emit on
generated loops with constant parameters (`run_models`).
"""
from __future__ import annotations

import hashlib
import re
import signal
import time
from typing import Any

from vp import core, miniir, proggen

META = {
    "title": "Control-flow and loop lowerings preserve program results",
    "category": "translation_validation",
    "design_ref": "DESIGN.md §5 C16",
    "lean_modules": ["XdslProofs.C16", "XdslProofs.C16Flatten", "XdslProofs.C16Lowering", "XdslProofs.C16LowerAffine", "XdslProofs.SemMeta"],
    "text": (
        "Translation validation of convert-scf-to-cf, lower-affine, scf-for-loop-range-folding, "
        "scf-for-loop-flatten, scf-for-loop-unroll, licm, control-flow-hoist and frontend-desymrefy: "
        "generated programs are transformed by the real pass and source/target are executed by the Lean "
        "reference semantics XdslModel/Sem.lean (MLIR integer semantics on BitVec, explicit undefined "
        "behaviour, ordered external-call log) on random inputs; every source run that is defined must "
        "be reproduced exactly. XdslProofs/C16.lean proves, for all bounds/steps/bodies, the arithmetic "
        "cores on the model XdslModel/Loops.lean: loop = fold over tripCount, range folding by addition "
        "and by a positive factor, flattening (i = q*N + r; what the pass decides and emits — outer bound rounded up to whole outer steps, product of trip counts — is proved equivalent to the nest), full unrolling incl. zero-trip, scf.for → "
        "header/body/exit CFG by loop invariant, hoisting of a pure invariant computation out of a loop "
        "(incl. zero-trip: only for a total op) and out of a conditional. The model's folded bounds, "
        "trip counts, induction values and flatten decisions are compared with what the real passes emit. "
        "lower-affine is also modelled at the level of the emitted operations (XdslModel/LowerAffine.lean: "
        "affine_expr_ops, the split of the operands of affine.apply into dimensions and symbols, "
        "insert_affine_map_ops for affine.load/store): XdslProofs/C16LowerAffine.lean proves that the emitted "
        "operations compute the map with dimension p bound to operand p and symbol q to operand num_dims+q, "
        "and that a well-formed map is never refused; the emitted operation list of the real pass is compared "
        "with the model's for every (num_dims, num_symbols) ≤ (3, 3) and evaluated against a direct evaluation "
        "of the map. frontend-desymrefy: besides random symref programs (symbol uses nested down to four region levels, "
        "declarations in nested blocks, undeclared symbols) an enumerated family touches one symbol d = 0…4 region levels "
        "below the block that declares it (every chain of scf.if-then / scf.if-else / scf.if without else / scf.for carriers "
        "× write / read / read-modify-write × what the declaring block does afterwards × declaration in the function body / "
        "in a loop body / none); a refusal (FrontendProgramException) is a legitimate outcome, an accepted program must behave "
        "like its source. XdslModel/Loops.lean models get_symbols / get_nested_symbols / the refusal of prune_definitions on "
        "operation trees (SymTree); XdslProofs/C16Lowering.lean proves that the nested-symbol set contains a symbol iff a "
        "symref operation on it lies at ANY depth ≥ 1 below the block, hence a symbol a block forwards (or a block that is "
        "accepted) has no access at any depth below — the scope hypothesis of the straight-line forwarding theorem; the "
        "real functions are compared with the model on every block of these programs. What range folding and flattening "
        "accept is exercised by two enumerated families (the other operand of the operation on the induction variable defined "
        "outside the loop, in its body or in a region nested in the body; loop-carried values of a nest forwarded in every order), "
        "and every pass output is checked for SSA visibility (a value is used only inside the region that defines it and, within "
        "one block, after its definition), which the verifier of xDSL does not check."
    ),
    "technique": "translation validation on a Lean reference interpreter + Lean 4 proofs of the loop-arithmetic cores + differential correspondence of the cores with the real passes",
    "level_note": (
        "Per-program validation (the ∀-programs part is enumeration/random generation; ∀-inputs is sampled, "
        "not proved, for the passes as run). Trusted: Lean kernel; Sem.lean as the statement of MLIR "
        "semantics (scf.for with step ≤ 0, division by zero / signed overflow of division, affine "
        "mod/floordiv/ceildiv by a non-positive value, out-of-bounds or never-written memref reads are "
        "undefined → source runs with these outcomes are excluded, as are runs out of fuel); the MiniIR "
        "serialiser. Shift operations are not generated (Sem classifies an oversized shift as undefined "
        "although MLIR gives poison, which may be speculated). scf.index_switch/cf.switch, affine.if/"
        "parallel/min, dynamic memrefs and affine.for with operand bounds (lower-affine raises on them) "
        "are outside the generated fragment; convert-scf-to-cf has no scf.while pattern, so scf.while "
        "only occurs as surrounding structure. A pass that raises has not accepted the program (counted). "
        "SSA visibility of pass outputs is checked without dominance between different blocks of one region (uses across blocks "
        "are left to the reference semantics). 64-bit index wrap-around of folded bounds is not explored (bounds are small). affine.apply maps have up to 3 "
        "dimensions and 3 symbols (multiplication / mod / floordiv / ceildiv by constants only); affine.load/store maps "
        "have dimensions only (lower-affine hands them no symbols). The model XdslModel/LowerAffine.lean computes on "
        "unbounded integers; its correspondence leg judges values only where every divisor is positive and no mod has "
        "a negative left operand (the latter is the known remsi finding, judged by the translation validation)."
    ),
    "rule": (
        "one case = (program, pass or pass pipeline, input vector). Non-trivial = the pass changed the "
        "program (serialisations differ) and the source run is defined; distinct = distinct (program "
        "text, pass, input). Families: generic scf/cf programs; chains of addi/muli/subi (either operand side, single and multiple use) on the induction "
        "variable with constant (incl. 0, negative) and symbolic operands; perfect loop nests with "
        "constant inner bounds; constant-bound loops (zero-trip, negative ranges) incl. loops carrying 2–3 values whose yield permutes/forwards block arguments across slots; loops with invariant "
        "pure ops incl. divisions; pure scf.if; counting scf.while; affine programs (affine.apply maps of every shape up to 3 dims + 3 symbols); "
        "operand-binding programs (one affine.apply whose map gives every dimension/symbol its own weight, operands a permutation of "
        "distinct-valued arguments; affine.load/store through index-permuting two-result maps on a non-square memref); symref programs "
        "(straight-line and nested to depth ≤ 4; nested also with symbols that have no declaration in the program or declared in a nested block); "
        "the enumerated symref depth family (carrier chains of length ≤ 2 in quick, ≤ 3 in thorough, sampled up to 4; histogram symref.<declared|undeclared>.span<d>.<accepted|rejected>). "
        "The enumerated decision families: fold_scope (single addi/muli use of the induction variable 0…2 region levels below the loop body, "
        "other operand defined outside the loop / in the loop body / at every nested level as operation result or block argument) and "
        "nest_iter (perfect nests carrying 2–3 values, inner initialisation and outer yield in every order, duplicates). "
        "Model lines `symtree`: one per distinct block shape (non-trivial = an operation with regions inside an operation with regions)."
    ),
    "trusted_base": [
        "reference semantics lean/XdslModel/Sem.lean (+ MiniIR parser) and serialiser harness/vp/miniir.py",
        "hand-written models lean/XdslModel/Loops.lean, lean/XdslModel/LowerAffine.lean (tied by correspondence with the real passes)",
    ],
    "budget": {"quick": 75, "thorough": 1000},
}

FUEL = 300000
SITE = {
    "convert-scf-to-cf": "xdsl.transforms.convert_scf_to_cf.ConvertScfToCf",
    "lower-affine": "xdsl.transforms.lower_affine.LowerAffinePass",
    "scf-for-loop-range-folding": "xdsl.transforms.scf_for_loop_range_folding.ScfForLoopRangeFolding.match_and_rewrite",
    "scf-for-loop-flatten": "xdsl.transforms.scf_for_loop_flatten.FlattenNestedLoopsPattern.match_and_rewrite",
    "scf-for-loop-unroll": "xdsl.transforms.scf_for_loop_unroll.UnrollLoopPattern.match_and_rewrite",
    "licm": "xdsl.transforms.loop_invariant_code_motion.LoopInvariantCodeMotionPass",
    "control-flow-hoist": "xdsl.transforms.control_flow_hoist.ControlFlowHoistPass",
    "frontend-desymrefy": "xdsl.transforms.desymref.Desymrefier",
}
SCF_PASSES = ["convert-scf-to-cf", "scf-for-loop-range-folding", "scf-for-loop-flatten", "scf-for-loop-unroll",
              "licm", "control-flow-hoist"]
SCF_PIPELINES = [("licm", "scf-for-loop-range-folding"), ("scf-for-loop-range-folding", "convert-scf-to-cf"),
                 ("control-flow-hoist", "licm"), ("scf-for-loop-flatten", "scf-for-loop-unroll"),
                 ("scf-for-loop-unroll", "convert-scf-to-cf")]


# ------------------------------------------------------------------------------------------------
# real pass application
# ------------------------------------------------------------------------------------------------

class Rejected(Exception):
    pass


def apply_passes(module: Any, xctx: Any, names: tuple[str, ...], cpu_s: float = 10.0) -> Any:
    """clone, run the registered passes, verify; raises Rejected(<exception class>) when a pass raises"""
    from xdsl.transforms import get_all_passes

    allp = get_all_passes()
    m2 = module.clone()

    def _guard(signum, frame):
        raise TimeoutError("pass exceeded its CPU budget")

    old = signal.signal(signal.SIGVTALRM, _guard)
    signal.setitimer(signal.ITIMER_VIRTUAL, cpu_s)
    try:
        for n in names:
            if n == "frontend-desymrefy":
                # the pass entry point refuses any module that contains a function declaration (empty
                # region); the Desymrefier itself is applied to every function that has a body
                from xdsl.dialects import func
                from xdsl.transforms.desymref import Desymrefier

                for o in m2.body.ops:
                    if isinstance(o, func.FuncOp) and o.body.blocks:
                        Desymrefier().desymrefy(o)
                continue
            allp[n]()().apply(xctx, m2)
    except Exception as e:  # noqa: BLE001
        raise Rejected(core.exc_name(e)) from e
    finally:
        signal.setitimer(signal.ITIMER_VIRTUAL, 0)
        signal.signal(signal.SIGVTALRM, old)
    return m2


def run_lines(arg_types: list[str], vecs: list[list[Any]]) -> list[str]:
    return [f"run {FUEL} main " + " ".join(miniir.arg_text(t, v) for t, v in zip(arg_types, vec)) for vec in vecs]


def verdict(src: str, tgt: str) -> str | None:
    """None = fine / excluded; otherwise the kind of disagreement"""
    if not src.startswith("ok "):
        return None
    if tgt == src:
        return None
    k = tgt.split(" ")[0]
    if k == "ub":
        return "target-undefined: " + tgt[3:]
    if k == "fuel":
        return "target-does-not-terminate"
    if k == "err":
        return "target-ill-formed: " + re.sub(r"\d+", "N", tgt[4:])
    m1 = re.match(r"ok \[(.*)\] effects \[(.*)\]$", src)
    m2 = re.match(r"ok \[(.*)\] effects \[(.*)\]$", tgt)
    if m1 and m2 and m1.group(2) != m2.group(2):
        return "effect-log-differs"
    return "results-differ"


# ------------------------------------------------------------------------------------------------
# classification of a (shrunk) failing program: a short stable cause, used as the finding signature
# ------------------------------------------------------------------------------------------------

def nest_forwarding_broken(text: str) -> bool:
    """does the program contain a perfect scf.for nest with loop-carried values in which the inner loop is not
    initialised with the outer block arguments position by position, or the outer loop does not yield the inner
    results position by position (such a nest is not one loop; scf-for-loop-flatten must leave it)"""
    from xdsl.dialects import scf

    try:
        m, _ = proggen.parse_module_ctx(text)
    except Exception:  # noqa: BLE001
        return False
    for o in m.walk():
        if (isinstance(o, scf.ForOp) and o.iter_args and len(o.body.blocks) == 1
                and isinstance(inner := o.body.block.first_op, scf.ForOp) and inner.next_op is o.body.block.last_op):
            y = o.body.block.last_op
            args = o.body.block.args[1:]
            if (len(inner.iter_args) != len(args) or any(a is not b for a, b in zip(inner.iter_args, args))
                    or len(y.operands) != len(inner.results) or any(a is not b for a, b in zip(y.operands, inner.results))
                    or any(len(list(a.uses)) != 1 for a in args)):
                return True
    return False


def classify(passes: tuple[str, ...], text: str, kind: str) -> tuple[str, str]:
    """(call_site, signature)"""
    last = passes[-1]       # for a pipeline: the shortest failing prefix ends in the pass at fault
    site = SITE[last]
    gk = kind.split(":")[0]
    if last == "scf-for-loop-flatten" and nest_forwarding_broken(text):
        return site, "nest flattened although its loop-carried values are not forwarded position by position"
    if kind.startswith("target-ill-formed: unbound value"):
        return site, "output invalid: value used outside the region (or before the operation) that defines it"
    if last == "scf-for-loop-flatten":
        used = bool(re.search(r"arith\.addi %i\d+, %i\d+", text))
        return site, ("flattened loop visits a different iteration sequence "
                      + ("[induction variables summed: (ub-lb) not a multiple of the outer step]" if used
                         else "[induction variables unused: trip count of the product loop]"))
    if last == "lower-affine" and " mod " in text:
        return site, "affine mod lowered to arith.remsi (differs for a negative left operand)"
    if last == "frontend-desymrefy":
        nested = bool(re.search(r"^\s{4,}.*symref\.", text, re.M))
        return site, ("symbol used inside a nested region is ignored when the enclosing block is pruned" if nested
                      else "straight-line symbol forwarding: " + gk)
    if last in ("licm", "control-flow-hoist") and kind.startswith("target-undefined: arith."):
        return "xdsl.dialects.arith." + {"floordivsi": "FloorDivSIOp", "ceildivsi": "CeilDivSIOp", "remsi": "RemSIOp",
                                        "divsi": "DivSIOp", "divui": "DivUIOp", "remui": "RemUIOp",
                                        "ceildivui": "CeilDivUIOp"}.get(kind.split("arith.")[1], "?"), \
            "division declared speculatable is hoisted past the control flow that guarded it"
    if last == "scf-for-loop-range-folding" and "non-positive step" in kind:
        return site, "muli by a factor that is not known to be positive folded into the loop range"
    return site, gk


# ------------------------------------------------------------------------------------------------
# evaluation of one batch on the Lean reference semantics
# ------------------------------------------------------------------------------------------------

class Batch:
    def __init__(self, ctx: core.Ctx):
        self.ctx = ctx
        self.lines: list[str] = []
        self.items: list[tuple[Any, ...]] = []

    def add(self, prog: dict[str, Any], passes: tuple[str, ...], src_sexp: str, tgt_sexp: str, vecs: list[list[Any]], family: str) -> None:
        rl = run_lines(prog["arg_types"], vecs)
        start = len(self.lines)
        self.lines.append("prog " + src_sexp)
        self.lines.extend(rl)
        self.lines.append("prog " + tgt_sexp)
        self.lines.extend(rl)
        self.items.append((prog, passes, vecs, start, family, src_sexp != tgt_sexp))

    def flush(self) -> None:
        if not self.lines:
            return
        ctx = self.ctx
        outs = ctx.model("sem", self.lines)
        pending: list[tuple[Any, ...]] = []
        for prog, passes, vecs, start, family, changed in self.items:
            n = len(vecs)
            if outs[start] != "ok" or outs[start + n + 1] != "ok":
                raise core.InfraError("MiniIR serialisation rejected by the Lean parser: " + prog["text"][:300])
            pname = "+".join(passes)
            for i, vec in enumerate(vecs):
                src, tgt = outs[start + 1 + i], outs[start + n + 2 + i]
                ctx.ev()
                sk = src.split(" ")[0]
                ctx.count(f"source_outcome.{sk}")
                if sk == "err":
                    ctx.count("source_unsupported_in_reference." + re.sub(r"\d+", "N", src[4:])[:40])
                if sk != "ok":
                    continue
                ctx.disagreements_checked += 1
                if changed:
                    ctx.nt(hashlib.sha1((prog["text"] + pname + repr(vec)).encode()).hexdigest()[:16])
                    ctx.count(f"nontrivial.{pname}")
                kind = verdict(src, tgt)
                if kind is None:
                    continue
                pending.append((prog, passes, vec, kind, src, tgt))
        self.lines, self.items = [], []
        report_many(ctx, pending)


_reported: dict[tuple[str, str], int] = {}
_deadline = [0.0]


def left() -> float:
    """seconds left for the validation phase (see `run`: it is guaranteed a minimum share even when
    building and auditing the Lean side on a loaded machine has used up the nominal budget)"""
    return _deadline[0] - time.time()

WRAP_SIG = "folded loop bounds wrap around at the 64-bit index width"


def check_one(text: str, passes: tuple[str, ...], arg_types: list[str], vec: list[Any]) -> tuple[str | None, str, str]:
    """(kind or None, source line, target line) for one program/input; None also when anything is rejected"""
    try:
        m, xctx = proggen.parse_module_ctx(text)
        s1 = miniir.serialize(m)
        m2 = apply_passes(m, xctx, passes)
        m2.verify()
        s2 = miniir.serialize(m2)
    except Exception:  # noqa: BLE001
        return None, "", ""
    rl = run_lines(arg_types, [vec])
    outs = core.run_model("sem", ["prog " + s1, rl[0], "prog " + s2, rl[0]])
    if outs[0] != "ok" or outs[2] != "ok":
        return None, "", ""
    return verdict(outs[1], outs[3]), outs[1], outs[3]


def eval_candidates(cands: list[str], passes: tuple[str, ...], arg_types: list[str], vec: list[Any]) -> list[str | None]:
    """verdict kind (or None) of every candidate program text, one driver call for all"""
    rl = run_lines(arg_types, [vec])[0]
    lines: list[str] = []
    pos: list[int | None] = []
    for text in cands:
        try:
            m, xctx = proggen.parse_module_ctx(text)
            s1 = miniir.serialize(m)
            m2 = apply_passes(m, xctx, passes, cpu_s=3.0)
            m2.verify()
            s2 = miniir.serialize(m2)
        except Exception:  # noqa: BLE001
            pos.append(None)
            continue
        pos.append(len(lines))
        lines += ["prog " + s1, rl, "prog " + s2, rl]
    outs = core.run_model("sem", lines) if lines else []
    res: list[str | None] = []
    for p in pos:
        if p is None or outs[p] != "ok" or outs[p + 2] != "ok":
            res.append(None)
        else:
            res.append(verdict(outs[p + 1], outs[p + 3]))
    return res


def eval_jobs(jobs: list[tuple[str, tuple[str, ...], list[str], list[Any]]], mode: str = "plain") -> list[tuple[str | None, str, str]]:
    """(verdict kind or None, source line, target line) of every job (program text, passes, argument types,
    input) with ONE driver call.  mode "plain" = check_one; "wide" = `index` 128 bits wide (only_wraparound);
    "floormod" = every arith.remsi of the target read as the affine remainder (only_mod_lowering)."""
    lines: list[str] = []
    pos: list[int | None] = []
    ser: dict[tuple[str, tuple[str, ...]], tuple[str, str] | None] = {}
    for text, passes, arg_types, vec in jobs:
        key = (text, passes)
        if key not in ser:
            try:
                m, xctx = proggen.parse_module_ctx(text)
                s1 = miniir.serialize(m)
                m2 = apply_passes(m, xctx, passes, cpu_s=5.0)
                if mode == "plain":
                    m2.verify()
                s2 = miniir.serialize(m2)
                if mode == "floormod":
                    if "arith.remsi" in text:
                        raise ValueError("source has its own remsi")
                    s2 = s2.replace('"arith.remsi"', '"c16.floormodsi"')
                ser[key] = (s1, s2)
            except Exception:  # noqa: BLE001
                ser[key] = None
        if ser[key] is None:
            pos.append(None)
            continue
        s1, s2 = ser[key]  # type: ignore[misc]
        rl = run_lines(arg_types, [vec])[0]
        four = ["prog " + s1, rl, "prog " + s2, rl]
        if mode == "wide":
            four = [widen(l) for l in four]
        pos.append(len(lines))
        lines += four
    outs = core.run_model("sem", lines) if lines else []
    res: list[tuple[str | None, str, str]] = []
    for p in pos:
        if p is None or outs[p] != "ok" or outs[p + 2] != "ok":
            res.append((None, "", ""))
        else:
            res.append((verdict(outs[p + 1], outs[p + 3]), outs[p + 1], outs[p + 3]))
    return res


def report_many(ctx: core.Ctx, pending: list[tuple[Any, ...]]) -> None:
    """`report` for every disagreement of a batch; the auxiliary runs that attribute a pipeline failure to
    one pass and that recognise the two listed arithmetic causes (64-bit wrap-around of folded bounds, mod
    lowered to remsi) are made for the whole batch at once (three driver calls instead of up to four per
    disagreement: the listed findings recur in every batch and must not use up the exploration budget)."""
    if not pending:
        return
    items = [list(it) for it in pending]
    # 1. a pipeline failure belongs to a single pass (alone on the source) or to its first failing prefix
    jobs, owner = [], []
    for n, (prog, passes, vec, *_rest) in enumerate(items):
        if len(passes) > 1:
            for cand in [(p,) for p in passes] + [passes[:k] for k in range(2, len(passes))]:
                jobs.append((prog["text"], cand, prog["arg_types"], vec))
                owner.append(n)
    done: set[int] = set()
    for (job, n), (k, s_, t_) in zip(zip(jobs, owner), eval_jobs(jobs)):
        if k is not None and n not in done:
            done.add(n)
            items[n][1], items[n][3], items[n][4], items[n][5] = job[1], k, s_, t_
    # 2. the listed arithmetic causes
    pre: list[dict[str, Any]] = [{"attributed": True} for _ in items]
    for mode, want, field in (("wide", "scf-for-loop-range-folding", "wrap"), ("floormod", "lower-affine", "modonly")):
        idx = [n for n, it in enumerate(items) if (want in it[1] if field == "wrap" else it[1][-1] == want and " mod " in it[0]["text"])]
        res = eval_jobs([(items[n][0]["text"], items[n][1], items[n][0]["arg_types"], items[n][2]) for n in idx], mode)
        for n, (k, s_, t_) in zip(idx, res):
            pre[n][field] = s_.startswith("ok ") and s_ == t_
    for it, pr in zip(items, pre):
        report(ctx, *it, pre=pr)


def deletions(lines: list[str]) -> list[tuple[int, int]]:
    """deletable spans [i, j]: whole brace-balanced region operations and single operation lines"""
    out: list[tuple[int, int]] = []
    for i, ln in enumerate(lines):
        t = ln.strip()
        if not t or t.startswith(("}", "^", "func.func @main", "builtin.", "scf.yield", "scf.condition", '"affine.yield"', "func.return")):
            continue
        if t.endswith("{"):
            depth, j = 0, i
            while j < len(lines):
                depth += lines[j].count("{") - lines[j].count("}")
                if depth == 0:
                    break
                j += 1
            if j < len(lines) and lines[j].strip().startswith("}"):
                out.append((i, j))
        else:
            out.append((i, i))
    return out


def widen(line: str) -> str:
    """the same protocol line with `index` 128 bits wide (to recognise 64-bit wrap-around)"""
    if line.startswith("prog "):
        return re.sub(r"\bindex\)", "i128)", line)
    return line.replace("index:", "i128:")


def only_wraparound(text: str, passes: tuple[str, ...], arg_types: list[str], vec: list[Any]) -> bool:
    """True when source and target agree once `index` arithmetic cannot wrap (128-bit index)"""
    try:
        m, xctx = proggen.parse_module_ctx(text)
        s1 = miniir.serialize(m)
        s2 = miniir.serialize(apply_passes(m, xctx, passes))
    except Exception:  # noqa: BLE001
        return False
    rl = run_lines(arg_types, [vec])[0]
    outs = core.run_model("sem", [widen(l) for l in ["prog " + s1, rl, "prog " + s2, rl]])
    return outs[0] == "ok" and outs[2] == "ok" and outs[1].startswith("ok ") and outs[1] == outs[3]


def only_mod_lowering(text: str, passes: tuple[str, ...], arg_types: list[str], vec: list[Any]) -> bool:
    """True when the target agrees with the source once every `arith.remsi` of the target (the
    generated affine programs contain none themselves) is read as the affine non-negative remainder"""
    try:
        m, xctx = proggen.parse_module_ctx(text)
        if "arith.remsi" in text:
            return False
        s1 = miniir.serialize(m)
        s2 = miniir.serialize(apply_passes(m, xctx, passes)).replace('"arith.remsi"', '"c16.floormodsi"')
    except Exception:  # noqa: BLE001
        return False
    rl = run_lines(arg_types, [vec])[0]
    outs = core.run_model("sem", ["prog " + s1, rl, "prog " + s2, rl])
    return outs[0] == "ok" and outs[2] == "ok" and outs[1].startswith("ok ") and outs[1] == outs[3]


def flatten_explained(text: str, arg_types: list[str], vec: list[Any]) -> bool | None:
    """Do the two repaired arithmetic causes (fixed findings; this classifies a regression) explain a
    flatten disagreement?  For every perfect nest whose bounds evaluate (constants / function
    arguments): induction variables used → that cause iff `ub - lb` is positive and not a multiple of
    the outer step (the bound then has to be rounded up: XdslProofs.C16Flatten.flatten_round_sound);
    unused → that cause iff the trip count of the formerly emitted loop differs from the product
    (flatten_unused_sound).  None = cannot tell (bounds not evaluable)."""
    from xdsl.dialects import arith, scf

    try:
        m, _ = proggen.parse_module_ctx(text)
    except Exception:  # noqa: BLE001
        return None
    main = next(o for o in m.body.ops if getattr(o, "sym_name", None) is not None and o.sym_name.data == "main")
    env = {id(a): int(v) for a, v, t in zip(main.body.blocks.first.args, vec, arg_types) if t == "index"}

    def ev(v: Any) -> int | None:
        if id(v) in env:
            return env[id(v)]
        o = v.owner
        if isinstance(o, arith.ConstantOp) and hasattr(o.value, "value"):
            return o.value.value.data
        return None

    def trips(lb: int, ub: int, st: int) -> int:
        return 0 if ub <= lb or st <= 0 else (ub - lb - 1) // st + 1

    verdicts = []
    for o in m.walk():
        if (isinstance(o, scf.ForOp) and len(o.body.blocks) == 1 and isinstance(inner := o.body.block.first_op, scf.ForOp)
                and inner.next_op is o.body.block.last_op):
            vals = [ev(x) for x in (o.lb, o.ub, o.step, inner.lb, inner.ub, inner.step)]
            if any(x is None for x in vals):
                return None
            lb, ub, S, il, iu, st = vals  # type: ignore[misc]
            if S <= 0 or st <= 0:
                return None
            used = bool(o.body.block.args[0].uses or inner.body.block.args[0].uses)
            if used:
                verdicts.append(ub > lb and (ub - lb) % S != 0)
            else:
                verdicts.append(lb == 0 and trips(0, ub * ((iu - il) // st), S) != trips(0, ub, S) * trips(il, iu, st))
    if not verdicts:
        return None
    return any(verdicts)


def shrink_program(text: str, passes: tuple[str, ...], arg_types: list[str], vec: list[Any], kind: str, rounds: int) -> str:
    """batched greedy deletion of operations / region operations keeping the same kind of disagreement"""
    gk = kind.split(":")[0]
    lines = text.split("\n")

    def drop(ls: list[str], spans: list[tuple[int, int]]) -> list[str]:
        dead = {k for i, j in spans for k in range(i, j + 1)}
        return [l for k, l in enumerate(ls) if k not in dead]

    for _ in range(rounds):
        spans = deletions(lines)
        if not spans:
            break
        res = eval_candidates(["\n".join(drop(lines, [sp])) for sp in spans], passes, arg_types, vec)
        good = [sp for sp, k in zip(spans, res) if k is not None and k.split(":")[0] == gk]
        if not good:
            break
        # try all independent deletions at once, then halves, else the single largest
        good.sort(key=lambda sp: sp[0] - sp[1])
        trial = [good, good[: max(1, len(good) // 2)], good[: max(1, len(good) // 4)], good[:1]]
        res2 = eval_candidates(["\n".join(drop(lines, t)) for t in trial], passes, arg_types, vec)
        for t, k in zip(trial, res2):
            if k is not None and k.split(":")[0] == gk:
                lines = drop(lines, t)
                break
        else:
            break
    return "\n".join(lines)


def report(ctx: core.Ctx, prog: dict[str, Any], passes: tuple[str, ...], vec: list[Any], kind: str, src: str, tgt: str,
           pre: dict[str, Any] | None = None) -> None:
    pre = pre or {}
    # attribute a pipeline failure to a single pass (alone on the source) or its first failing prefix
    if len(passes) > 1 and not pre.get("attributed"):
        for cand in [(p,) for p in passes] + [passes[:n] for n in range(2, len(passes))]:
            k, s, t = check_one(prog["text"], cand, prog["arg_types"], vec)
            if k is not None:
                passes, kind, src, tgt = cand, k, s, t
                break
    pre_site, pre_sig = classify(passes, prog["text"], kind)
    # 64-bit wrap-around of folded bounds: also when it only shows after a later pass of the pipeline (no single pass
    # fails alone: `Sem` runs scf.for by its trip count, the lowered CFG wraps at `i + step`) — the folded bounds
    # are range folding's, and the disagreement vanishes with a 128-bit index
    RF = "scf-for-loop-range-folding"
    wrap = RF in passes and (
        pre["wrap"] if "wrap" in pre else only_wraparound(prog["text"], passes, prog["arg_types"], vec))
    if wrap:
        pre_site, pre_sig = SITE[RF], WRAP_SIG
    if passes[-1] == "lower-affine" and pre_sig.startswith("affine mod") and not (
            pre["modonly"] if "modonly" in pre else only_mod_lowering(prog["text"], passes, prog["arg_types"], vec)):
        pre_sig = "unexplained"
    if passes[-1] == "scf-for-loop-flatten" and pre_sig.startswith("flattened loop visits") and flatten_explained(prog["text"], prog["arg_types"], vec) is False:
        pre_sig = "unexplained"
    key = (pre_site, pre_sig)
    _reported[key] = _reported.get(key, 0) + 1
    ctx.count("disagreement." + "+".join(passes) + "." + kind.split(":")[0])
    if _reported[key] > 12:
        return
    text, s2, t2, k2 = prog["text"], src, tgt, kind
    if _reported[key] == 1 or (ctx.tier != "quick" and _reported[key] <= 3):
        # shrink the first witness(es) of a cause; later ones are recorded unshrunk (ctx.fail keeps
        # the smallest case per final (call site, signature))
        rounds = 10 if ctx.tier == "quick" else 40
        if left() < 25:
            rounds = 3
        cand = shrink_program(prog["text"], passes, prog["arg_types"], vec, kind, rounds)
        k3, s3, t3 = check_one(cand, passes, prog["arg_types"], vec)
        if k3 is not None:
            text, s2, t2, k2 = cand, s3, t3, k3
    site, sig = classify(passes, text, k2)
    if passes[-1] == "lower-affine" and sig.startswith("affine mod") and not (
            pre["modonly"] if text == prog["text"] and "modonly" in pre else only_mod_lowering(text, passes, prog["arg_types"], vec)):
        sig = k2.split(":")[0] + " (not explained by the mod lowering)"
    if passes[-1] == "scf-for-loop-flatten" and sig.startswith("flattened loop visits") and flatten_explained(text, prog["arg_types"], vec) is False:
        sig = k2.split(":")[0] + " (not explained by the known trip-count arithmetic)"
    if RF in passes and (wrap if text == prog["text"] else only_wraparound(text, passes, prog["arg_types"], vec)):
        site, sig = SITE[RF], WRAP_SIG
    after = ""
    try:
        m, xctx = proggen.parse_module_ctx(text)
        after = str(apply_passes(m, xctx, passes))
    except Exception:  # noqa: BLE001
        pass
    ctx.fail(site, sig,
             {"program": text, "passes": list(passes), "arg_types": prog["arg_types"], "args": [repr(v) for v in vec]},
             f"after {'+'.join(passes)} the program no longer behaves like its source on this input ({k2}); "
             f"source: {s2}; target: {t2}", {"target_run": t2, "program_after_pass": after}, {"source_run": s2})


class VisibilityError(Exception):
    pass


def visibility_violation(module: Any) -> str | None:
    """SSA visibility of every operand, as far as it does not need dominance between blocks: the block that
    defines the value must belong to a region enclosing the user, and when user (or its ancestor) and definition
    share a block the definition comes first.  `module.verify()` does not check this; a pass output that
    breaks it is not a program (the reference semantics reports an unbound value when it gets there)."""
    from xdsl.ir import Block

    num: dict[int, int] = {}
    for n, op in enumerate(module.walk()):
        num[id(op)] = n
    for op in module.walk():
        for operand in op.operands:
            owner = operand.owner
            dblock = owner if isinstance(owner, Block) else owner.parent
            if dblock is None:
                return "output invalid: operand defined by an operation that is not in the module"
            dregion = dblock.parent
            anc = op
            while anc is not None and (anc.parent is None or anc.parent.parent is not dregion):
                anc = anc.parent_op()
            if anc is None:
                return "output invalid: value used outside the region that defines it"
            if anc.parent is dblock and not isinstance(owner, Block):
                if owner is anc and op is not anc:
                    return "output invalid: operation result used inside the operation's own regions"
                if num[id(owner)] >= num[id(anc)]:
                    return "output invalid: value used before the operation that defines it"
    return None


def verify_output(m2: Any) -> None:
    m2.verify()
    v = visibility_violation(m2)
    if v is not None:
        raise VisibilityError(v)


def invalid_signature(e: BaseException) -> str:
    msg = str(e)
    if isinstance(e, VisibilityError):
        return msg
    if "expected a single block" in msg:
        return "output does not verify: CFG blocks inlined into a single-block region (no scf.while lowering)"
    first = re.sub(r"%[\w.]+", "%v", re.sub(r"\d+", "N", msg.split("\n")[0]))
    return "output does not verify: " + core.exc_name(e) + ": " + first[:60]


def invalid_output(text: str, passes: tuple[str, ...]) -> str | None:
    """signature of the verification failure of the pass output, None when there is none"""
    try:
        m, xctx = proggen.parse_module_ctx(text)
        m2 = apply_passes(m, xctx, passes, cpu_s=3.0)
    except Exception:  # noqa: BLE001
        return None
    try:
        verify_output(m2)
        miniir.serialize(m2)
    except Exception as e:  # noqa: BLE001
        return invalid_signature(e)
    return None


def report_invalid(ctx: core.Ctx, prog: dict[str, Any], passes: tuple[str, ...], e: BaseException) -> None:
    """a pass that accepted a valid program and left IR that does not verify has not produced a
    program with the same behaviour"""
    if len(passes) > 1:
        for n in range(1, len(passes)):
            if invalid_output(prog["text"], passes[:n]) is not None:
                passes = passes[:n]
                break
    sig = invalid_output(prog["text"], passes) or invalid_signature(e)
    key = (SITE[passes[-1]], sig)
    _reported[key] = _reported.get(key, 0) + 1
    if _reported[key] > 6:
        return
    lines = prog["text"].split("\n")
    if _reported[key] <= 2:
        for _ in range(30):
            done = True
            for i, j in sorted(deletions(lines), key=lambda sp: sp[0] - sp[1]):
                cand = lines[:i] + lines[j + 1:]
                if invalid_output("\n".join(cand), passes) == sig:
                    lines, done = cand, False
                    break
            if done or left() < 20:
                break
    text = "\n".join(lines)
    ctx.fail(SITE[passes[-1]], sig, {"program": text, "passes": list(passes)},
             f"{'+'.join(passes)} accepted a valid program and produced IR that fails verification: {sig}", sig, "verifies")


# ------------------------------------------------------------------------------------------------
# program families
# ------------------------------------------------------------------------------------------------

def scf_config(shapes: list[str], **kw: Any) -> proggen.Config:
    cfg = proggen.Config()
    cfg.int_ops = [o for o in proggen.INT_OPS_ALL if not o.startswith("sh")]
    cfg.float_ops = list(proggen.FLOAT_OPS_ALL)
    cfg.loop_shapes = shapes
    cfg.select = True
    for k, v in kw.items():
        setattr(cfg, k, v)
    return cfg


def families(tier: str) -> list[tuple[str, Any, list[tuple[str, ...]], int]]:
    """(family name, generator config or kind, pass tuples, weight)"""
    one = [(p,) for p in SCF_PASSES]
    return [
        ("generic", scf_config([]), one + SCF_PIPELINES, 3),
        ("fold", scf_config(["fold"], shape_weight=8, max_stmts=5), [("scf-for-loop-range-folding",), ("licm", "scf-for-loop-range-folding"), ("scf-for-loop-range-folding", "convert-scf-to-cf"), ("scf-for-loop-unroll",)], 4),
        ("nest", scf_config(["nest"], shape_weight=8, max_stmts=5), [("scf-for-loop-flatten",), ("scf-for-loop-flatten", "scf-for-loop-unroll"), ("convert-scf-to-cf",)], 4),
        ("unroll", scf_config(["unroll_perm"], shape_weight=10, max_stmts=5, symbolic_bounds=False, cf=False),
         [("scf-for-loop-unroll",), ("scf-for-loop-unroll", "convert-scf-to-cf"), ("convert-scf-to-cf",)], 3),
        ("licm", scf_config(["licm"], shape_weight=8, max_stmts=5), [("licm",), ("control-flow-hoist", "licm"), ("licm", "convert-scf-to-cf")], 3),
        ("hoist_if", scf_config(["hoist_if"], shape_weight=8, max_stmts=5), [("control-flow-hoist",), ("control-flow-hoist", "licm"), ("convert-scf-to-cf",)], 3),
        ("while", scf_config(["while", "fold", "licm", "hoist_if"], shape_weight=3), one, 2),
        ("affine", "affine", [("lower-affine",), ("lower-affine", "convert-scf-to-cf"), ("lower-affine", "licm")], 4),
        ("affine_bind", "affine_bind", [("lower-affine",), ("lower-affine", "convert-scf-to-cf")], 3),
        ("symref", "symref", [("frontend-desymrefy",)], 3),
        ("symref_nested", "symref_nested", [("frontend-desymrefy",)], 3),
    ]


def validate_program(ctx: core.Ctx, batch: Batch, name: str, p: dict[str, Any], passlist: list[tuple[str, ...]],
                     ingen: Any, nvec: int, sampled: set[str]) -> None:
    """parse, apply every pass tuple of the family to a clone, queue source/target for the reference semantics"""
    try:
        m, xctx = proggen.parse_module_ctx(p["text"])
        src = miniir.serialize(m)
        if visibility_violation(m) is not None:
            raise VisibilityError("source")
    except Exception as e:  # noqa: BLE001
        ctx.count(f"generator_rejected.{name}.{core.exc_name(e)}")
        return
    ctx.programs += 1
    ctx.count(f"programs.{name}")
    # a family that needs particular inputs (distinct values, in-bounds indices) brings its own
    vecs = p.get("vecs") or ingen.inputs(p["arg_types"], nvec)
    for passes in passlist:
        pname = "+".join(passes)
        # symref programs: how many region levels lie between the declaring block and the deepest use
        tag = (f"symref.{'declared' if p['sym_declared'] else 'undeclared'}.span{p['sym_span']}." if "sym_span" in p else None)
        try:
            m2 = apply_passes(m, xctx, passes)
        except Rejected as e:
            ctx.count(f"pass_rejected.{pname}.{e}")
            if tag:
                ctx.count(tag + "rejected")
            continue
        try:
            verify_output(m2)
            tgt = miniir.serialize(m2)
        except Exception as e:  # noqa: BLE001
            ctx.count(f"pass_output_invalid.{pname}.{core.exc_name(e)}")
            report_invalid(ctx, p, passes, e)
            continue
        ctx.count(f"applied.{pname}")
        if tag:
            ctx.count(tag + "accepted")
        if tgt != src:
            ctx.count(f"changed.{pname}")
            if name not in sampled:
                sampled.add(name)
                ctx.sample({"family": name, "passes": list(passes), "program": p["text"], "inputs": [list(map(repr, v)) for v in vecs[:2]]}, cap=10)
        batch.add(p, passes, src, tgt, vecs, name)


def symref_depth_programs(ctx: core.Ctx) -> list[dict[str, Any]]:
    """The systematic symref family (proggen.symref_depth_program): one symbol touched d region levels
    below the block that declares it.  quick: every carrier chain of length ≤ 2 (declaration in the
    function body) with every access / continuation, and a seeded sample of the chains of length 1–4 with
    the other declaration places; thorough: everything up to length 3 and a sample of length 4."""
    r = ctx.rng
    quick = ctx.tier == "quick"
    cases = proggen.symref_depth_cases(2 if quick else 3)
    if quick:
        cases = [c for c in cases if c[3] == "body" and not c[4]]
    for _ in range(120 if quick else 800):
        d = r.choice([1, 2, 3, 3, 4]) if quick else 4
        cases.append((tuple(r.choice(proggen.SYM_WRAPPERS) for _ in range(d)), r.choice(proggen.SYM_ACCESS),
                      r.choice(proggen.SYM_AFTER), r.choice(proggen.SYM_DECL), d >= 2 and r.random() < 0.3))
    seen: set[Any] = set()
    out = []
    for c in cases:
        if c not in seen:
            seen.add(c)
            out.append(proggen.symref_depth_program(*c, trip=2 if len(c[0]) < 4 else 1))
    return out


def decision_programs(ctx: core.Ctx) -> list[tuple[str, dict[str, Any], list[tuple[str, ...]]]]:
    """The enumerated families for what the loop passes ACCEPT (proggen.fold_scope_program /
    nest_iter_program): (family, program, pass tuples).  fold_scope: the single use of the induction variable
    sits 0…2 region levels below the loop body and its other operand is defined outside the loop, in the loop
    body or at any nesting level in between (operation results and block arguments) — only the first may be
    folded into the range.  nest_iter: a perfect nest carrying 2–3 values whose inner loop takes the outer block
    arguments, and whose outer yield takes the inner results, in every order (and with duplicates) — only the
    position-by-position forwarding may be flattened."""
    quick = ctx.tier == "quick"
    out: list[tuple[str, dict[str, Any], list[tuple[str, ...]]]] = []
    RF, FL = "scf-for-loop-range-folding", "scf-for-loop-flatten"
    for n, c in enumerate(proggen.nest_iter_cases(not quick)):
        passes = [(FL,)] + ([(FL, "scf-for-loop-unroll")] if n % 3 == 0 else [])
        out.append(("nest_iter", proggen.nest_iter_program(*c), passes))
    for n, c in enumerate(proggen.fold_scope_cases(2, 1, deep_all=False) if quick else proggen.fold_scope_cases(3, 2)):
        passes = [(RF,)] + ([("licm", RF)] if n % 4 == 0 else []) + ([(RF, "convert-scf-to-cf")] if n % 4 == 2 else [])
        out.append(("fold_scope", proggen.fold_scope_program(*c, ub=3 if n % 5 else 1), passes))
    return out


def run_validation(ctx: core.Ctx, reserve_s: float) -> None:
    fams = families(ctx.tier)
    gens: dict[str, Any] = {}
    for name, cfg, _, _ in fams:
        if cfg == "affine":
            gens[name] = proggen.AffineGen(ctx.rng)
        elif cfg == "affine_bind":
            gens[name] = proggen.AffineBindGen(ctx.rng)
        elif cfg == "symref":
            gens[name] = proggen.SymrefGen(ctx.rng, False)
        elif cfg == "symref_nested":
            gens[name] = proggen.SymrefGen(ctx.rng, True)
        else:
            gens[name] = proggen.ProgGen(ctx.rng, cfg)
    ingen = proggen.ProgGen(ctx.rng, proggen.Config())
    nvec = 4 if ctx.tier == "quick" else 8
    rounds = 14 if ctx.tier == "quick" else 400
    batch = Batch(ctx)
    sampled: set[str] = set()
    # the enumerated family first: it does not depend on how many random rounds the budget allows
    for p in symref_depth_programs(ctx):
        if left() < reserve_s:
            ctx.count("validation.symref_depth_cut_by_budget")
            break
        validate_program(ctx, batch, "symref_depth", p, [("frontend-desymrefy",)], ingen, nvec, sampled)
    batch.flush()
    for name, p, passlist in decision_programs(ctx):
        if left() < 4:      # small and deterministic: not given up for the random rounds' reserve
            ctx.count("validation.decision_families_cut_by_budget")
            break
        validate_program(ctx, batch, name, p, passlist, ingen, nvec, sampled)
    batch.flush()
    for rnd in range(rounds):
        if left() < reserve_s:
            ctx.count("validation.stopped_by_budget")
            break
        for name, cfg, passlist, weight in fams:
            for _ in range(weight):
                validate_program(ctx, batch, name, gens[name].program(), passlist, ingen, nvec, sampled)
        batch.flush()
    batch.flush()


# ------------------------------------------------------------------------------------------------
# entry points
# ------------------------------------------------------------------------------------------------

def run(ctx: core.Ctx) -> None:
    ctx.lean()
    try:
        from props import c16_models
    except ImportError:
        c16_models = None  # type: ignore[assignment]
    if c16_models is not None:
        c16_models.run_models(ctx)
    floor = 50 if ctx.tier == "quick" else 300
    _deadline[0] = time.time() + max(ctx.time_left(), floor)
    run_validation(ctx, reserve_s=12 if ctx.tier == "quick" else 60)


def replay(ctx: core.Ctx, body: dict) -> int:
    case = body["case"]
    if "line" in case or "program" not in case:
        from props import c16_models
        return c16_models.replay(ctx, body)
    passes = tuple(case["passes"])
    m, xctx = proggen.parse_module_ctx(case["program"])
    print("source program:\n" + case["program"])
    try:
        m2 = apply_passes(m, xctx, passes)
    except Rejected as e:
        print("pass raised", e)
        return 0
    print("after", "+".join(passes), ":\n" + str(m2))
    if "args" not in case:
        try:
            verify_output(m2)
            print("output verifies")
            return 0
        except Exception as e:  # noqa: BLE001
            print("output does not verify:", e)
            return 1
    vec = [eval(a, {"inf": float("inf"), "nan": float("nan")}) for a in case["args"]]  # noqa: S307 - reprs of ints/floats written by this harness
    kind, s, t = check_one(case["program"], passes, case["arg_types"], vec)
    print("input:", vec)
    print("reference semantics, source:", s)
    print("reference semantics, target:", t)
    print("verdict:", kind or "same behaviour")
    return 1 if kind else 0
